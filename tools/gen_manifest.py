#!/usr/bin/env python3
"""Regenerate MANIFEST.json from tools/manifest_src.py (keeps the file schema-valid)."""
import json
import os
import sys

HERE = os.path.dirname(os.path.abspath(__file__))
sys.path.insert(0, HERE)
import manifest_src as M  # noqa: E402

checks = []
EVID = os.path.join(os.path.dirname(HERE), 'evidence')
for pid, d in sorted(M.CLAIMED.items()):
    # the claimed category is the level the check's own evidence reports on the unchanged tree
    cat = d.get('category')
    ev = os.path.join(EVID, f'{pid}.json')
    if os.path.exists(ev):
        cat = json.load(open(ev))['level']
    d['category'] = cat or 'other'
    checks.append({
        'property_id': pid,
        'quick_cmd': f'./check {pid} --tier quick',
        'thorough_cmd': f'./check {pid} --tier thorough',
        'evidence_file': f'evidence/{pid}.json',
        'replay_cmd_template': f'./check {pid} --replay {{path}}',
        'engine': d['engine'],
        'level_claimed': {'category': d['category'], 'text': d['text'],
                          'design_ref': d.get('design_ref', f'DESIGN.md section 10 ({pid})')},
        'level_note': d['note'],
        'technique': d['technique'],
    })
man = {
    'version': 1,
    'setup_cmd': './tools/setup.sh',
    'hooks': {
        'guard': 'ASTROPY_PHOTUTILS_VERIF',
        'enable': 'no hooks are needed: contracts are sidecar files under /verif/vf/contracts and '
                  'run-time wrappers are installed by monkey-patching inside the checking process '
                  'only; the guard variable is reserved and unused',
        'baseline_off_cmd': 'cd /repo && /venv/bin/python -m pytest -ra -q -p no:cacheprovider '
                            '--timeout=900 --continue-on-collection-errors '
                            '--junitxml=/tmp/verif_baseline.xml; '
                            'python3 /verif/tools/baseline_compare.py /tmp/verif_baseline.xml',
        'source_commits': [],
        'add_only': True,
    },
    'engines': M.ENGINES,
    'checks': checks,
    'notes': M.NOTES,
    'not_applicable': [{'property_id': k, 'reason': v} for k, v in sorted(M.NOT_APPLICABLE.items())],
}
with open(os.path.join(os.path.dirname(HERE), 'MANIFEST.json'), 'w') as f:
    json.dump(man, f, indent=1)
print('wrote MANIFEST.json with', len(checks), 'checks')
