#!/bin/bash
# Offline self-test: nothing is fetched or built.
set -e
cd "$(dirname "$0")/.."
python3-vt -c "import z3; print('z3', z3.get_version_string())"
/venv/bin/python -c "import photutils, numpy; print('photutils', photutils.__version__)"
python3-vt - <<'PY'
import json, jsonschema
m = json.load(open('MANIFEST.json'))
jsonschema.validate(m, json.load(open('/root/.vp/MANIFEST.schema.json')))
print('MANIFEST ok:', len(m['checks']), 'checks')
PY
mkdir -p evidence replays vf/out
