#!/usr/bin/env python3-vt
"""Record which proof obligations are discharged on the unchanged tree (baseline_obligations.json).

Run by hand after contracts change:  PYTHONPATH=/verif python3-vt tools/update_baseline.py
A refuted obligation that is listed here but does not replay on the real code is reported as a
violation `no-failing-input-found`; one that is not listed is 'contract under development'.
"""
import json
import os
import sys

os.environ['VERIF_RECORD_BASELINE'] = '1'      # context fingerprints are recorded, not compared
sys.path.insert(0, os.path.dirname(os.path.dirname(os.path.abspath(__file__))))
from vf import main  # noqa: E402
from vf.common import DISCHARGED  # noqa: E402

out = {}
for i in range(1, 21):
    prop = f'C{i:02d}'
    obs, _, crash = main.run_pyvc(prop, 'quick')
    if crash:
        print('CRASH', prop, crash)
    for eng in ('effects', 'coherence'):
        o, _, c = main.run_engine(eng, prop, 'quick')
        obs += o
        if c:
            print('CRASH', prop, c)
    good = sorted(o['oid'] for o in obs if o['status'] == DISCHARGED)
    bad = [(o['oid'], o['status']) for o in obs if o['status'] != DISCHARGED]
    print(prop, len(good), 'discharged;', len(bad), 'not:', bad[:5])
    out[prop] = good
allo = sorted({x for v in out.values() for x in v})
json.dump({'discharged': allo, 'by_property': out},
          open(os.path.join(os.path.dirname(os.path.dirname(os.path.abspath(__file__))),
                            'baseline_obligations.json'), 'w'), indent=0)
print('total', len(allo))
