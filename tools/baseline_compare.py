#!/usr/bin/env python3
"""Compare a junit xml produced by the pinned test command with BASELINE.json's stable_pass.

usage: baseline_compare.py <junit.xml> [BASELINE.json]
exit 0 iff every stable_pass test passed in the xml.
"""
import json
import sys
import xml.etree.ElementTree as ET


def main():
    xml = sys.argv[1]
    base = sys.argv[2] if len(sys.argv) > 2 else '/root/.vp/BASELINE.json'
    stable = set(json.load(open(base))['stable_pass'])
    passed = set()
    other = {}
    for tc in ET.parse(xml).getroot().iter('testcase'):
        tid = f"{tc.get('classname')}::{tc.get('name')}"
        bad = [c.tag for c in tc if c.tag in ('failure', 'error', 'skipped')]
        if bad:
            other[tid] = bad[0]
        else:
            passed.add(tid)
    missing = sorted(stable - passed)
    print(f'stable_pass={len(stable)} passed_in_run={len(passed)} '
          f'stable_not_passed={len(missing)}')
    for m in missing[:50]:
        print('  NOT PASSED:', m, other.get(m, 'absent'))
    return 1 if missing else 0


if __name__ == '__main__':
    sys.exit(main())
