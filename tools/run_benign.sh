#!/bin/bash
# Behaviour-preserving refactorings (benign/*.diff, written by independent sub-agents): every proof
# obligation must still be discharged on each of them (no refutation, nothing lost).
# Works on a scratch copy of /repo outside /repo and /verif, removed afterwards.
cd "$(dirname "$0")/.."
S=$(mktemp -d /tmp/verif_benign.XXXX)
rsync -a --exclude .git /repo/ $S/
# run from a frozen copy of the machinery, so that edits made meanwhile do not disturb the run
V=$(mktemp -d /tmp/verif_benign_vf.XXXX)
rsync -a --exclude out vf tools baseline_obligations.json known_findings.json $V/
bad=0
for d in benign/*.diff; do
  (cd $S && git init -q 2>/dev/null; true)
  if ! (cd $S && patch -p1 -s < $OLDPWD/$d); then echo "$d: does not apply"; bad=1; continue; fi
  out=$(cd $V && VERIF_REPO=$S PYTHONPATH=$V python3-vt tools/proofs_only.py $(basename $d .diff) 2>&1 | grep -v '^WARNING')
  echo "$out" | tail -1
  echo "$out" | grep -q "'refuted': 0, 'lost': 0, 'missing': 0" || { echo "$out" | head -5; bad=1; }
  (cd $S && patch -p1 -R -s < $OLDPWD/$d)
done
rm -rf $S $V
exit $bad
