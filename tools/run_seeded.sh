#!/bin/bash
# Apply every kept seeded change to /repo in turn, run the quick check of its property, record
# whether a VIOLATION was reported, and undo the change straight afterwards.
# (Mutates /repo temporarily: run only when nothing else is using /repo.)
cd "$(dirname "$0")/.."
status=0
for d in seeded/${SEEDED_GLOB:-*}/; do
  id=$(basename $d); prop=$(python3 -c "import json;print(json.load(open('$d/meta.json'))['property'])")
  if ! git -C /repo apply $PWD/$d/patch.diff; then echo "$id: patch does not apply"; status=1; continue; fi
  VERIF_SCRATCH_OUTPUT=1 ./check $prop > $d/last_run.txt 2>&1; rc=$?   # evidence/ is not touched
  git -C /repo checkout -- .
  n=$(grep -c '^VIOLATION' $d/last_run.txt)
  first=$(grep -m1 '^# failed' $d/last_run.txt | cut -c1-150)
  echo "$id: exit=$rc violations=$n $first"
  [ $rc -eq 1 ] || status=1
done
git -C /repo status --short | head -3
exit $status
