#!/bin/bash
# Confirm a seeded change in its scratch worktree: demo passes without / fails with the change,
# and the pinned test suite still passes all 1731 stable tests with the change applied.
# usage: confirm_seeded.sh <worktree> <outdir>
WT=$1; OUT=$2; mkdir -p $OUT
cd $WT || exit 2
git checkout -- photutils   # never git stash: it is shared by all worktrees
/venv/bin/python demo.py > $OUT/demo_without.txt 2>&1; echo "exit=$?" >> $OUT/demo_without.txt
git apply patch.diff
/venv/bin/python demo.py > $OUT/demo_with.txt 2>&1; echo "exit=$?" >> $OUT/demo_with.txt
/venv/bin/python -m pytest -ra -q -p no:cacheprovider --timeout=900 --continue-on-collection-errors --junitxml=$OUT/junit.xml > $OUT/pytest.log 2>&1
python3 /verif/tools/baseline_compare.py $OUT/junit.xml > $OUT/baseline_cmp.txt 2>&1
tail -1 $OUT/demo_without.txt $OUT/demo_with.txt $OUT/baseline_cmp.txt | cat
head -1 $OUT/baseline_cmp.txt
