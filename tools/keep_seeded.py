#!/usr/bin/env python3
"""Store a confirmed seeded change under /verif/seeded/<id>/ (patch.diff, demo.py, notes, meta.json).

usage: keep_seeded.py <worktree> <confirm-outdir> <id> <property> <detected_by> <what-it-needs>
"""
import json
import os
import shutil
import sys

wt, out, sid, prop, detected, needs = sys.argv[1:7]
dst = os.path.join(os.path.dirname(os.path.dirname(os.path.abspath(__file__))), 'seeded', sid)
os.makedirs(dst, exist_ok=True)
for f in ('patch.diff', 'demo.py', 'notes.txt'):
    shutil.copy(os.path.join(wt, f), os.path.join(dst, f))


def last(path):
    return open(path).read().strip().splitlines()[-1]


meta = {
    'id': sid, 'property': prop,
    'needs_to_manifest': needs,
    'confirmed_by_me': {
        'worktree': wt,
        'demo_without_change': last(os.path.join(out, 'demo_without.txt')),
        'demo_with_change': last(os.path.join(out, 'demo_with.txt')),
        'pinned_suite_with_change': open(os.path.join(out, 'baseline_cmp.txt')).read().strip().splitlines()[0],
        'commands': ['git checkout -- photutils; /venv/bin/python demo.py',
                     'git apply patch.diff; /venv/bin/python demo.py',
                     '/venv/bin/python -m pytest -ra -q -p no:cacheprovider --timeout=900 '
                     '--continue-on-collection-errors --junitxml=junit.xml; '
                     'python3 /verif/tools/baseline_compare.py junit.xml'],
    },
    'detected_by': detected,
    'how_to_rerun': f'git -C /repo apply /verif/seeded/{sid}/patch.diff; ./check {prop}; '
                    'git -C /repo checkout -- .',
}
json.dump(meta, open(os.path.join(dst, 'meta.json'), 'w'), indent=1)
print('kept', dst, meta['confirmed_by_me']['demo_without_change'],
      meta['confirmed_by_me']['demo_with_change'], meta['confirmed_by_me']['pinned_suite_with_change'])
