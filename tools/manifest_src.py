"""Source of MANIFEST.json (edited by hand; tools/gen_manifest.py renders it)."""

ENGINES = [
    {'name': 'pyvc', 'path': 'vf/pyvc',
     'serves_properties': ['C01', 'C02', 'C03', 'C04', 'C05', 'C06', 'C07', 'C11', 'C12', 'C13',
                           'C14', 'C15', 'C16', 'C17', 'C18', 'C19', 'C20'],
     'kind_free_text': 'contract-based deductive verification: sidecar contracts (vf/contracts) on '
                       'the real functions, at function, block and statement granularity (block and '
                       'statement contracts carry a fingerprint of the returns and guards that '
                       'precede them, so code placed in front of a verified block voids the '
                       'contract instead of hiding behind it); verification conditions generated from the AST of /repo '
                       'on every run (forward symbolic execution, path enumeration, modular calls '
                       'through callee contracts, arrays as store/view comprehensions, sequences of '
                       'arrays, map-append loops, lookup-table indexing, relational two-run '
                       'contracts by self-composition), discharged by z3 (nlsat after Ackermann '
                       'reduction for non-linear real arithmetic) with cvc5 / z3-new as fallback; '
                       'counter-models replayed on the real code (functions are called; blocks and '
                       'statements are re-executed from the real source text in the real module '
                       'namespace on inputs rebuilt from the model); built-in mutants must be killed '
                       '(thorough tier)'},
    {'name': 'effects', 'path': 'vf/effects',
     'serves_properties': ['C02', 'C06', 'C08', 'C09', 'C10', 'C12', 'C13', 'C15', 'C16', 'C17', 'C18',
                           'C19', 'C20'],
     'kind_free_text': 'deductive frame verification: modifies = {} for every public entry point, '
                       'ownership of sliced catalogs and of shallow model copies, loop independence; modular may-alias / '
                       'write-effect analysis of the real source with callee summaries'},
    {'name': 'coherence', 'path': 'vf/coherence',
     'serves_properties': ['C01', 'C02', 'C05', 'C07', 'C08', 'C09', 'C11', 'C12', 'C13', 'C14',
                           'C16', 'C19', 'C20'],
     'kind_free_text': 'class invariants for lazily evaluated objects: mutator coherence, getter '
                       'purity with z3-checked path conditions, configuration immutability, '
                       'per-call reset, descriptor-driven cache invalidation'},
    {'name': 'rtc', 'path': 'vf/rtc',
     'serves_properties': [f'C{i:02d}' for i in range(1, 21)],
     'kind_free_text': 'bounded stand-in (never counted as proved): run-time contract checking of '
                       'the real functions against independent spec oracles on stated, enumerated '
                       'bounds; also the replay engine for refuted obligations'},
]

_T = 'contract-based deductive verification'
_B = 'bounded run-time contract checking (stand-in)'

CLAIMED = {
    'C01': dict(engine='pyvc', technique=f'{_T} (AST->VC, z3/cvc5) + {_B}',
                text='Proved for all inputs (z3, floats as reals): the half extents of rotated '
                     'ellipses and rectangles contain the shape and are attained by a point of it '
                     '(annuli: the outer shape); _bbox is, per position, the smallest pixel box '
                     'around centre +- extents (from_float under the pixel-centre convention); '
                     'get_overlap_slices selects exactly the common pixels (None iff none); '
                     'union/intersection/shape/extent/center; the method -> (use_exact, subpixels) '
                     'dispatch incl. the 32x32 rectangle rule; aperture parameter assignment '
                     'resets every cache and no cached value is written in place; per position the '
                     'mask is the kernel grid of the outer axes minus that of the inner axes on the '
                     'same pixel grid (circles, ellipses, rectangles). The overlap-'
                     'area values of the compiled kernels are checked bounded on a boundary '
                     'lattice against analytic / sub-pixel-counting oracles.',
                note='A-real; the Cython kernels (.so) cannot be rebuilt and are covered only by '
                     'the bounded driver; known findings F23 (1-ulp), F38, F39 (exact ellipse on '
                     'pixel corners)'),
    'C02': dict(engine='pyvc+effects', technique=f'{_T} (overlap slices, frames, loop '
                                                 f'independence) + {_B}',
                text='Proved: overlap slices are exactly the common pixels (callee contract of the '
                     'cutout code), do_photometry / area_overlap / aperture_photometry modify no '
                     'argument, per-position loop iterations are independent (many positions = one '
                     'at a time); the summed values are weight x data (weight x error^2 in float) '
                     'over exactly the good pixels; area_overlap sums the weights with masked pixels '
                     'counting zero; the NDData call form is the bare-array form on the container\'s '
                     'own data, mask and uncertainty with the same method and subpixels; '
                     'ApertureMask.get_values returns weight x data over exactly the on-image, '
                     'positive-weight, unmasked pixels of the box (empty without overlap). The sums '
                     'end-to-end are checked bounded against a pixel-loop oracle.',
                note='numpy aliasing tables; the weighted-sum postcondition is bounded, not proved'),
    'C03': dict(engine='pyvc', technique=f'{_T} (relational two-run contracts by self-composition) '
                                         f'+ {_B}',
                text='Proved by executing the real function twice on related inputs: from_float '
                     'and get_overlap_slices shift by exactly the integer offset when box and '
                     'frame are embedded in a larger canvas, and swap axes under transposition; the '
                     'star finders map user positions to the unique pixel n with n-1/2 < x <= n+1/2 '
                     '(translation covariant); the cut-out helper _overlap_slices (centroid boxes, PSF fit '
                     'windows, model rendering) shifts its window by the offset for footprints inside the '
                     'original frame and swaps axes under transposition. '
                     'End-to-end covariance of every listed API under translation and '
                     'transposition is checked bounded on seeded scenes.',
                note='relational two-run property: only the index arithmetic is proved'),
    'C04': dict(engine='pyvc', technique=f'{_T} (candidate pixels, threshold formula, connectivity '
                                         f'structure, npixels pruning, relabelling) + {_B}: exhaustive small-scope enumeration '
                                         'vs union-find oracle',
                text='Proved for all images: the pixels handed to the labeller are exactly the '
                     'finite, unmasked pixels strictly above the (scalar or per-pixel) threshold; '
                     'detect_threshold = background + nsigma*error pixel-wise; the 4-/8-connected '
                     'structure element; a labelled component is dropped (zeroed, nothing else '
                     'touched) exactly when fewer than npixels pixels carry its label; the k-th '
                     'kept label becomes k+1 and the label list handed on is 1..N. The labelling '
                     'itself (scipy.ndimage) is checked by '
                     'exhaustive enumeration of small images against a union-find oracle.',
                note='scipy label/find_objects are exercised bounded, not assumed; non-finite = NaN '
                     '(+-inf outside the real-number model)'),
    'C05': dict(engine='coherence+pyvc', technique=f'{_T} (cache-coherence class invariant, '
                                                   f'lookup tables, label sets) + {_B}',
                text='Proved: every public SegmentationImage mutator resets (or re-seeds) all cached '
                     'lazy attributes that read the fields it writes, with no stale read in between; '
                     'the lookup tables of reassign_labels / relabel_consecutive have the '
                     'documented effect on every label array (listed labels -> new label, k-th '
                     'label -> start+k, everything else unchanged), and the early return of '
                     'relabel_consecutive is taken only when the labels already are start..start+n-1 '
                     '(lemma over the real test expression; induction schema trusted, base and step '
                     'discharged); the border mask of '
                     'remove_border_labels is True exactly within border_width of an edge for every '
                     'shape (zero width selects nothing); keep_labels / remove_masked_labels hand '
                     'remove_labels exactly the complement / the touching labels without a pixel '
                     'outside the mask, missing_labels lists exactly the absent numbers in '
                     '1..max_label in increasing order. Other operations and all '
                     'attributes vs a fresh object are checked bounded over all histories of '
                     'length <= 2 (sampled length 3).',
                note='re-seeded caches assumed equal to their getters (bounded check); known '
                     'finding F2 (polygons per connected region)'),
    'C06': dict(engine='effects', technique=f'{_T} (frame of deblend_sources, completion-order '
                                            f'independence, worker purity) + {_B} incl. adversarial '
                                            'scheduler',
                text='Proved: deblend_sources writes no caller-supplied object; futures are consumed '
                     'in completion order only through results[index_of[future]] = future.result() '
                     'into a pre-sized list whose indices were assigned at submission, the worker '
                     'function writes to none of its arguments, and the serial branch and the '
                     'parallel merge loop run textually identical statements in label order -- so '
                     'the output does not depend on nproc or on the order in which workers finish; '
                     'the relabelling table maps background to 0, no source pixel to background, '
                     'and present labels order-preservingly to start.. (with or without background '
                     'pixels in the cutout); after the consecutive relabelling every parent of the deblend '
                     'label map keeps its own children, each renamed through the relabel table. '
                     'Refinement facts and real spawn pools with permuted completion orders are '
                     'checked bounded.',
                note='watershed / ndimage contracts not assumed; progress-bar calls assumed '
                     'side-effect free; structural obligations (a restructured loop is undecided, '
                     'not refuted)'),
    'C07': dict(engine='coherence+pyvc', technique=f'{_T} (per-source pixel selection, getter '
                                                   f'purity, segmentation-image coherence) + {_B}',
                text='Proved for every source and pixel: the total mask excludes exactly the '
                     'pixels off the segment, masked or non-finite; the moment cutouts are zero '
                     'exactly there and on negative values; no SourceCatalog getter writes a field '
                     'another access reads; segment_fluxerr squares error maps of any dtype in '
                     'float; a source counts as completely masked exactly when every pixel of '
                     'its cutout is; bounding box k and segment_area k are those of label k inside its '
                     'own slices; the per-source loops of the local background and of the min / max '
                     'indices carry no state from one row to the next; _mask_to_mirrored_value replaces '
                     'a neighbour pixel by the pixel mirrored through the source centre, or by 0 when '
                     'that mirror is off the image, to be replaced itself or masked, and leaves every '
                     'other pixel alone; the cutouts every circular / Kron / flux-fraction measurement of a '
                     'row is made from (_make_aperture_data) are the data under the aperture box minus '
                     'that row\'s own local background, the input / non-finite (/ other-label) mask and '
                     'the error there, with neighbours mirrored about the row\'s own centroid for '
                     'apermask_method=\'correct\'; the segmentation image '
                     'labels/slices stay coherent under renumbering. The defining formulas are checked bounded with an '
                     'exact-rational pixel-loop oracle incl. row locality.',
                note='formulas bounded only; known finding F41 (thin-source covariance NaN)'),
    'C08': dict(engine='effects+pyvc', technique=f'{_T} (ownership of shared references, per-row '
                                                 f'bounding boxes) + {_B}',
                text='Proved: every attribute __getitem__ copies to the child by reference is never '
                     'mutated in place (directly or through a view) by a public method '
                     '(SourceCatalog, ApertureStats, finder catalogs); SourceCatalog bounding boxes '
                     'of row k come from row k\'s own slices; the per-source loops that compute the local '
                     'background and the flux-fraction inputs carry no state from one row to the next '
                     '(writes on only one branch of a conditional do not count as definite); the aperture '
                     'cutouts of a row (_make_aperture_data) are built from that row\'s label, centroid, '
                     'box and local background only. Commutation cat[idx].p == cat.p[idx] is checked bounded for every '
                     'public property x index form x evaluation order (incl. one-row / one-pixel sources and a '
                     'zero Kron radius).',
                note='init_attr tuples are literals (checked); commutation is bounded'),
    'C09': dict(engine='coherence+effects', technique=f'{_T} (getter purity, configuration immutability, '
                                              f'per-call reset, descriptor invalidation, shared-state ownership) + {_B}',
                text='Proved per class (Background2D, profiles, apertures + descriptors, '
                     'PSFPhotometry, IterativePSFPhotometry, star finders, Ellipse, GriddedPSFModel, '
                     'LocalBackground): getters destroy nothing a later access reads (z3 on path '
                     'conditions), calls never rebind configuration, every field a call writes is '
                     'written before it is read; Ellipse.fit_image / fit_isophote leave nothing '
                     'in the geometry except the two stores of known finding F22; no GriddedPSFModel method '
                     'writes in place into state its copy() shares (keyed interpolator cache excepted). Histories of <= 4 reads / <= 3 calls vs fresh '
                     'objects checked bounded.',
                note='guards other than cache/None tests are opaque atoms; known finding F22'),
    'C10': dict(engine='effects', technique=f'{_T} (modifies = {{}} for ~800 public entry points) '
                                            f'+ {_B} (deep snapshots)',
                text='One frame obligation per public entry point: no in-place write reaches a '
                     'caller-supplied object (parameters and constructor-supplied fields), callers '
                     'checked against callee summaries (plotting methods included: they may draw '
                     'on the axes they are given, nothing else). Deep-snapshot contracts confirm on '
                     'real runs.',
                note='numpy/astropy aliasing tables, declared frames and A-ext listed in the '
                     'evidence; known finding F22 (Ellipse geometry)'),
    'C11': dict(engine='pyvc', technique=f'{_T} (exclusion rule, threshold; getter purity) + {_B}',
                text='Proved for all inputs: a box is excluded iff more than exclude_percentile '
                     'percent of its pixels are masked or it is fully masked; the good-pixel '
                     'threshold formula; the mask used for the statistics is pixel by pixel the '
                     'union of input, coverage and invalid-value masks; the full-size map holds '
                     'fill_value exactly on coverage-mask pixels; the coverage mask is left as given; the '
                     'selective filter replaces only meshes above the threshold by their window median; '
                     'the mesh goes through no filter for filter_size (1, 1), the whole-mesh median filter '
                     'only without a threshold or with one below every mesh value, the selective filter '
                     'for every other threshold (0 included); Background2D getter purity. Mesh values, equivariance, '
                     'fill and range relations are checked bounded against a per-box oracle.',
                note='A-real; numerical relations bounded only'),
    'C12': dict(engine='pyvc', technique=f'{_T} (_make_mask, fit window / npixfit, flags, '
                                         f'configuration, per-call reset, frames) + {_B}',
                text='Proved: the ungroup indices are a permutation listing the fitted rows by '
                     'increasing source id and results are gathered through it; '
                     '_make_mask returns mask | non-finite (None iff nothing to mask), '
                     'per row flags 1 / 2 / 4 follow npixfit, the image bounds (x against columns) '
                     'and the flux sign; the pixels handed to the fitter for a source are exactly the '
                     'unmasked pixels of the fit_shape window centred on its initial position and '
                     'clipped to the image (through the verified _overlap_slices contract), with their '
                     'own coordinates and the data minus the local background, and npixfit is their '
                     'number; LocalBackground hands the caller\'s data and mask to the '
                     'annulus statistics, one estimate per position; '
                     'PSFPhotometry.__call__ rebinds no configuration, resets its results, modifies '
                     'no argument. Recovery of rendered scenes, grouping ids vs brute-force single '
                     'linkage, flags and ordering are checked bounded.',
                note='least-squares convergence cannot be proved; bounded only'),
    'C13': dict(engine='pyvc+coherence+effects', technique=f'{_T} (closed forms, relational contracts, '
                                                   f'ImagePSF / bilinear weights, copy ownership) + {_B}',
                text='Proved (exp/erf/sin/cos uninterpreted with stated lemmas): the Gaussian PSF / '
                     'PRF evaluate methods equal their closed forms; the elliptical Gaussian with '
                     'equal widths is the circular one at any rotation; sigma and FWHM forms '
                     'agree; linear in flux, non-negative, point-symmetric about (x_0, y_0); '
                     'ImagePSF returns fill_value outside and maps sample points to integer knots, '
                     'its origin is stored as given in (x, y) order; '
                     'the four bilinear weights of GriddedPSFModel, its origin (array centre, '
                     'half-integers for even sizes) and the grid cell chosen for a position (the '
                     'one containing it, else the nearest); configuration immutability; no method writes in '
                     'place into an attribute that GriddedPSFModel.copy() shares with the original '
                     '(the keyed interpolator cache excepted). '
                     'Normalisation sums and gridded interpolation are checked bounded.',
                note='integrals / sums are bounded only; known finding F24 (rotated GaussianPRF)'),
    'C14': dict(engine='pyvc+coherence', technique=f'{_T} (find_peaks candidate mask, brightest '
                                                   f'selection, configuration) + {_B}',
                text='Proved: find_peaks candidates are the unmasked, non-border, non-NaN pixels '
                     'above threshold that equal their neighbourhood maximum, reported with x = column, '
                     'y = row and the data value at that pixel; `brightest` keeps '
                     'min(N, n) distinct rows sorted by decreasing flux with no dropped row '
                     'brighter than a kept one (all three finders); apply_filters keeps a row iff its '
                     'reported sharpness, roundness and peak lie within the inclusive bounds (DAO, '
                     'IRAF); all three finders keep a row only if every reported column of that row is '
                     'finite (DAO: the flux column excepted when the effective threshold is 0); supplied xycoords are rounded to the pixel containing the position; '
                     'finder calls never rebind '
                     'configuration. The finders end-to-end are checked bounded against definition '
                     'oracles (incl. noise-free scenes with single-pixel sources whose shape moments are '
                     'undefined).',
                note='maximum_filter output is a symbolic input of the block contract; argsort '
                     'specified as a sorting permutation'),
    'C15': dict(engine='pyvc+rtc', technique=f'{_T} (dtype discipline at the sites under contract) '
                                             f'+ {_B}: representation matrix',
                text='Proved at the sites under contract (do_photometry, ApertureStats cutouts, '
                     'SourceCatalog.segment_fluxerr, detect_threshold, calc_total_error): an error map / image that '
                     'may arrive in any (narrow, unsigned integer) dtype is converted to float '
                     'before it is multiplied or squared, and is never the dtype a computed value is '
                     'cast to. Dtype / layout / container independence of everything else (compiled '
                     'numpy / scipy kernels): 32 representations x 46 entry-point configurations '
                     'compared with the float64 reference, units on outputs, unit mixes rejected; NDData '
                     'uncertainties with their own (equivalent) unit or held as a variance for the PSF '
                     'photometry classes, which convert them.',
                note='the proof covers integer wrap-around only, at four call sites; bounded '
                     'otherwise'),
    'C16': dict(engine='coherence+pyvc', technique=f'{_T} (pixel set / weights / values of the '
                                                   f'cutouts, getter purity, loop independence) + {_B}',
                text='Proved for every aperture and pixel: data cutout k is the data under '
                     'aperture k\'s box minus its own local background (None exactly without '
                     'overlap, non-finite pixels kept); the total mask is "weight 0 or masked or '
                     'non-finite", weights / weighted data / variances are the aperture weight '
                     'times the value there and 0 elsewhere (error maps of any dtype squared in '
                     'float); the sum-method masks are the aperture\'s masks for the configured sum_method '
                     'and subpixels (the centre masks its \'center\' masks), a scalar aperture\'s mask '
                     'wrapped in a 1-tuple; ApertureStats getters are pure and the per-aperture loop has no '
                     'loop-carried state. Every statistic is checked bounded against pixel-loop '
                     'oracles incl. tiny, off-image and fully masked apertures.',
                note='statistics bounded only'),
    'C17': dict(engine='effects+pyvc', technique=f'{_T} (loop independence, frames, centroid_com '
                                                 f'weights) + {_B}',
                text='Proved: the per-source loop of centroid_sources has no loop-carried dependence '
                     '(each call is built from the original keywords), no centroid function '
                     'modifies its arguments, the data / mask / error cutouts and the peak hint '
                     'handed to the centroid function for a source are those under that source\'s '
                     'own box (footprint under the small slices), and centroid_com weighs masked '
                     'and non-finite pixels '
                     'by exactly zero and every other pixel by its value; centroid_quadratic fits on a '
                     'full-size box inside the image that contains the peak pixel and returns the '
                     'stationary point (a maximum) of the fitted polynomial; both boxes are derived from the '
                     'verified _overlap_slices contract (over the assumed astropy window) and box sizes '
                     'are clipped per axis by as_pair (scalar and pair forms); py2intround (the pixel containing '
                     'a given xpeak / ypeak) rounds to the nearest integer with ties away from zero. Exactness on symmetric / '
                     'quadratic sources is checked bounded.',
                note='Gaussian fits bounded only'),
    'C18': dict(engine='effects+pyvc', technique=f'{_T} (frames, loop independence, residual = '
                                                 f'data - model data flow) + {_B}',
                text='Proved: make_model_image / make_residual_image modify neither the model nor '
                     'the table and the row loop carries only the declared accumulators; for array '
                     'input make_residual_image is, pixel by pixel, data minus the model image '
                     'made for the same shape, psf_shape and include_localbkg (non-finite data '
                     'stays non-finite); one table row adds, inside its window, the model at the '
                     'pixel plus that row\'s local background and leaves every other pixel alone; the window '
                     'is the row\'s model_shape box centred on its position, clipped to the image. Exact '
                     'superposition, order invariance, additivity and units are checked bounded.',
                note='model evaluation bounded only'),
    'C19': dict(engine='pyvc', technique=f'{_T} (monotone-prefix contract, coherence, frames) + '
                                         f'{_B}',
                text='Proved for all profiles: calc_radius_at_ee passes exactly the maximal strictly '
                     'increasing prefix to the interpolator; RadialProfile.profile * area = '
                     'difference of consecutive aperture sums with area = difference of overlap '
                     'areas and errors differenced in quadrature (a constant image yields the '
                     'constant); normalize / unnormalize keep caches '
                     'coherent structurally; the pixels a profile ignores are exactly the masked '
                     'ones and those non-finite in data or error; the mask argument is not '
                     'modified. Aperture '
                     'consistency and all <= 5-event normalisation histories are checked bounded.',
                note='PCHIP interpolates its knots (assumed); scaled-cache values bounded'),
    'C20': dict(engine='pyvc+coherence', technique=f'{_T} (to_polar scalar and array forms, '
                                                   f'configuration immutability, frames) + {_B}',
                text='Proved: the scalar and the vectorised ellipse coordinate transforms equal '
                     'one closed form (pointwise for arrays); update_sma / reset_sma step strictly '
                     'outwards / inwards and undo each other; an eps = 0 crossing rotates the angle '
                     'by a quarter turn within [0, pi); Ellipse never rebinds its '
                     'configuration and fit_image does not write the image; the geometry frame '
                     'obligations are refuted (known finding F22). Recovery of rendered ellipses '
                     'incl. fix_* flags with non-iterative outer isophotes is checked bounded.',
                note='iterative fitting has no inductive invariant within reach; known findings '
                     'F22, F26, F27'),
}

NOT_APPLICABLE = {}

NOTES = ('All checks: ./check Cxx --tier quick|thorough. Exit 0 held / 1 violation / 2 undecided / '
         '3 checker crash. Proof engines read /repo sources on every run under python3-vt; the real '
         'code (replays, bounded drivers) runs under /venv/bin/python. The evidence level of a run '
         'is "proof" only when every obligation is discharged; bounded driver counts are reported '
         'separately and never counted as proved. Known findings: known_findings.json.')
