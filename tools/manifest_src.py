"""Source of MANIFEST.json (edited by hand; tools/gen_manifest.py renders it)."""

ENGINES = [
    {'name': 'pyvc', 'path': 'vf/pyvc',
     'serves_properties': ['C01'],
     'kind_free_text': 'contract-based deductive verification: sidecar contracts on the real '
                       'functions, verification conditions generated from the AST of /repo on every '
                       'run (forward symbolic execution, modular calls via callee contracts), '
                       'discharged by z3 with cvc5 / z3-new as fallback; counter-models replayed on '
                       'the real code'},
    {'name': 'effects', 'path': 'vf/effects', 'serves_properties': [],
     'kind_free_text': 'deductive frame (modifies) / ownership / loop-independence verification by a '
                       'modular alias-and-write-effect analysis of the real source'},
    {'name': 'coherence', 'path': 'vf/coherence', 'serves_properties': [],
     'kind_free_text': 'class invariants for lazily evaluated objects: cache coherence, getter purity, '
                       'configuration immutability, per-call reset'},
    {'name': 'rtc', 'path': 'vf/rtc', 'serves_properties': [],
     'kind_free_text': 'bounded stand-in: run-time contract checking of the real functions against '
                       'independent spec oracles on stated, enumerated bounds; never counted as proved'},
]

CLAIMED = {
    'C01': dict(
        engine='pyvc', category='proof',
        technique='contract-based deductive verification (AST->VC, z3/cvc5)',
        text='Proof obligations over the real BoundingBox code: minimal box of from_float under the '
             'pixel-centre convention, overlap slices select exactly the common pixels (None iff '
             'none), union/intersection. Discharged for all inputs by z3.',
        note='floats as reals (A-real); compiled overlap kernels (.so) not covered by proof'),
}

CLAIMED['C10'] = dict(
    engine='effects', category='other',
    technique='contract-based frame verification (modifies={} for every public entry point) by a '
              'modular alias/write-effect analysis; bounded snapshot contracts as stand-in',
    text='One frame obligation per public entry point of photutils (~800): no in-place write '
         'reaches a caller-supplied object (parameters and constructor-supplied fields), callers '
         'checked against callee summaries. Level "other" because three obligations are refuted '
         '(known finding F22, Ellipse geometry) so discharged < obligations; everything else is '
         'discharged. Bounded deep-snapshot driver confirms on real runs.',
    note='sound relative to the numpy/astropy aliasing tables and declared frames listed in the '
         'evidence; external callees assumed not to mutate arguments (A-ext)')

_PENDING = 'check not built yet (work in progress in this session); see DESIGN.md section 10'
NOT_APPLICABLE = {f'C{i:02d}': _PENDING for i in range(1, 21) if f'C{i:02d}' not in CLAIMED}

NOTES = ('All checks: ./check Cxx --tier quick|thorough. Exit 0 held / 1 violation / 2 undecided / '
         '3 checker crash. Proof engines read /repo sources on every run under python3-vt; the real '
         'code (replays, bounded drivers) runs under /venv/bin/python.')
