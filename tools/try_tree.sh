#!/bin/bash
# Run one property's quick check against a scratch tree (e.g. a seeded worktree) without touching
# /repo or the committed evidence:  tools/try_tree.sh <tree> <Cxx> [more props...]
cd "$(dirname "$0")/.."
tree=$1; shift
for prop in "$@"; do
  out=vf/out/alt/$(basename $tree).$prop.txt; mkdir -p vf/out/alt
  VERIF_REPO=$tree ./check $prop > $out 2>&1; rc=$?
  echo "$(basename $tree) $prop exit=$rc violations=$(grep -c '^VIOLATION' $out) $(grep '^# failed' $out | cut -c10-120 | head -4 | tr '\n' ';')"
done
