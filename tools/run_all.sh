#!/bin/bash
# Run every check (tier = $1, default quick), a few at a time; summary on stdout.
cd "$(dirname "$0")/.."
TIER=${1:-quick}
mkdir -p vf/out/runs
ls vf/rtc/drivers | grep -o 'C[0-9]*' | sort -u | xargs -P ${2:-6} -I{} sh -c "./check {} --tier $TIER > vf/out/runs/{}.$TIER.out 2>&1; echo exit=\$? >> vf/out/runs/{}.$TIER.out"
for f in vf/out/runs/C*.$TIER.out; do echo "== $f"; grep -c '^KNOWN-FINDING' $f | sed 's/^/known-findings: /'; grep -v '^KNOWN-FINDING\|^# failed' $f | cut -c1-240 | tail -4; done
