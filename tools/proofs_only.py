#!/usr/bin/env python3-vt
"""Run only the proof engines (static, no /repo mutation) against a source tree.

usage: VERIF_REPO=<dir> PYTHONPATH=/verif python3-vt tools/proofs_only.py [label]
Prints obligations that are not discharged and compares with baseline_obligations.json.
"""
import json
import os
import sys

sys.path.insert(0, os.path.dirname(os.path.dirname(os.path.abspath(__file__))))
from vf import main  # noqa: E402
from vf.common import DISCHARGED  # noqa: E402

label = sys.argv[1] if len(sys.argv) > 1 else ''
base = json.load(open(os.path.join(os.path.dirname(os.path.dirname(os.path.abspath(__file__))),
                                   'baseline_obligations.json')))['by_property']
known = {k.get('key') for k in json.load(open(os.path.join(os.path.dirname(os.path.dirname(
    os.path.abspath(__file__))), 'known_findings.json')))['findings'] if k['status'] == 'open'}
tot = {'refuted': 0, 'lost': 0, 'missing': 0, 'discharged': 0}
for i in range(1, 21):
    prop = f'C{i:02d}'
    obs, _, crash = main.run_pyvc(prop, 'quick')
    for eng in ('effects', 'coherence'):
        o, _, c = main.run_engine(eng, prop, 'quick')
        obs += o
        crash = crash or c
    if crash:
        print(label, prop, 'CRASH', crash[-300:])
    got = {o['oid']: o for o in obs}
    for o in obs:
        if o['status'] == DISCHARGED:
            tot['discharged'] += 1
            continue
        if (o.get('key') or o['oid']) in known:
            continue
        kind = 'refuted' if o['status'] == 'refuted' else 'lost'
        tot[kind] += 1
        print(label, prop, o['status'].upper(), o['oid'], '|', o['detail'][:160])
    for oid in base.get(prop, []):
        if oid not in got:
            tot['missing'] += 1
            print(label, prop, 'MISSING (was discharged on the baseline)', oid)
print(label, 'SUMMARY', tot)
