"""Verdicts, known-findings matching, evidence files."""
import json
import os
import re

from .common import (DISCHARGED, ERROR, EVIDENCE, LOST, REFUTED, REPLAYS, UNKNOWN, VERIF, dump)

GLOBAL_TRUSTED = [
    'A-real: Python/C floats are treated as mathematical reals in pyvc obligations (rounding, '
    'overflow, NaN propagation and summation order are not modelled)',
    'the verifier itself: vf/pyvc (AST -> VC generator), vf/effects, vf/coherence, z3 5.1 / cvc5',
    'Python dynamics: no monkey-patching of the analysed classes at run time; getattr/setattr '
    'with computed names outside literal tuples make a function undecided',
    'lazyproperty stores its value in instance __dict__ under the attribute name (astropy)',
]


# Properties whose discharged obligations decide at least one full clause of the property
# statement for all inputs (level "proof" when every obligation is discharged).  For the others the
# obligations cover auxiliary clauses only and the run reports level "other" (or "exploration"
# when there is no obligation at all); the central clauses are then decided bounded.
PROOF_CORE = {
    'C01': 'minimal bounding box and exact overlap slices (None iff no common pixel)',
    'C02': 'results for many positions equal results one at a time (loop independence); exact '
           'common-pixel slices',
    'C04': 'detect_threshold equals background + nsigma*error pixel-wise; only finite, unmasked '
           'pixels strictly above the threshold are handed to the labeller; 4-/8-connectivity '
           'structure; a component is kept iff at least npixels pixels carry its label; kept labels '
           'become 1..N',
    'C05': 'every derived attribute equals that of a fresh object after any history (cache '
           'coherence invariant); reassign / relabel_consecutive have their documented '
           'set-theoretic effect on every label array; keep_labels / remove_masked_labels '
           'remove exactly the complement / the fully masked labels; missing_labels',
    'C06': 'never modifies the input segmentation image; the merged output does not depend on the '
           'order in which worker processes finish (keyed stores into a pre-sized list, pure '
           'workers, serial and parallel merge textually identical)',
    'C08': 'a sliced catalog is independent of its parent (ownership)',
    'C09': 'no result depends on access order or earlier calls (purity / configuration / reset '
           'invariants)',
    'C10': 'no public call modifies its arguments (frames)',
    'C11': 'boxes with too few good pixels: the documented exclusion rule; fill_value exactly on '
           'coverage-mask pixels; the statistics mask is the union of input, coverage and invalid '
           'masks (so masked values cannot enter)',
    'C13': 'the circular Gaussian equals the elliptical one with equal widths at any rotation, '
           'sigma- and FWHM-parametrised forms agree, linear in flux, non-negative, centred; '
           'ImagePSF returns fill_value outside its array and data*flux at its sample points; '
           'GriddedPSFModel uses the array centre as origin and the grid cell containing the position',
    'C14': '`brightest` keeps the N largest fluxes; find_peaks candidates are the unmasked '
           'non-border pixels above threshold that equal their neighbourhood maximum',
    'C17': 'centroid_sources acts per source, independent of the other positions; centroid_com '
           'ignores masked and non-finite pixel values; centroid_quadratic returns the maximum of '
           'the fitted polynomial on a full-size box around the peak pixel',
    'C20': 'the scalar and array forms of the ellipse coordinate transform agree (both equal '
           'one closed form); the semi-major axis steps strictly outwards then inwards (update_sma '
           '/ reset_sma); an eps = 0 crossing rotates the angle by a quarter turn',
    'C07': 'each row reads only its own label: the segment / total masks of cutout k mark exactly '
           'the pixels of the box that do not carry label k, are masked or are non-finite; '
           'segment_area and the bounding box are those of label k in its own slices; a source '
           'without an unmasked pixel is recognised as completely masked',
    'C12': 'the pixels handed to the fitter for a source are exactly the unmasked pixels of the '
           'fit_shape window centred on its initial position and clipped to the image, with their '
           'own coordinates and the data minus the local background there, and npixfit is their '
           'number; the fit mask is "input mask or non-finite"; flags follow the documented rules; '
           'rows are returned in id order',
    'C16': 'the pixel set, weights and values every statistic is computed from (no sigma '
           'clipping): cutout k is the data under aperture k minus its own local background; the '
           'total mask is "zero aperture weight, input mask or non-finite"; weights, weighted data '
           'and variances are the aperture weight times the value there and 0 elsewhere',
    'C18': 'leaves the input model and table unchanged; row-order independence of the loop state',
    'C19': 'the encircled-energy interpolators invert each other on the monotone part (maximal '
           'monotone prefix)',
}


def load_json(name, default):
    p = os.path.join(VERIF, name)
    if os.path.exists(p):
        return json.load(open(p))
    return default


def match_known(prop, key, known):
    for k in known:
        if k.get('property') != prop or k.get('status') != 'open':
            continue
        if k.get('key') == key:
            return k
        if k.get('key_re') and re.fullmatch(k['key_re'], key):
            return k
    return None


def sanitize(s):
    return re.sub(r'[^A-Za-z0-9_.-]+', '_', s)[-180:]


def finish(prop, tier, seed, obligations, infos, rtc, crashes, wall):
    known = load_json('known_findings.json', {'findings': []})['findings']
    baseline = set(load_json('baseline_obligations.json', {'discharged': []})['discharged'])
    lines = []
    violations = []       # (key, replay path, suffix)
    known_hits = []
    undecided = []

    # ---- proof obligations
    for ob in obligations:
        key = ob.get('key') or ob['oid']
        if ob['status'] == REFUTED:
            k = match_known(prop, key, known)
            if k is not None:
                known_hits.append((key, k['what']))
                ob['known_finding'] = True
                continue
            confirmed = ob.get('replay_status') == 'confirmed'
            explicit = ob['engine'] in ('effects', 'coherence')
            if confirmed:
                violations.append((key, ob['replay_file'], ''))
            elif explicit or ob['oid'] in baseline:
                violations.append((key, ob['replay_file'], ' no-failing-input-found'))
            else:
                undecided.append(f'{ob["oid"]}: refuted by the solver but the model does not '
                                 'replay on the real code and the obligation is not in the '
                                 'baseline (contract under development)')
        elif ob['status'] in (UNKNOWN, LOST, ERROR):
            undecided.append(f'{ob["oid"]}: {ob["status"]} {ob["detail"][:160]}')

    # ---- bounded driver failures
    rtc_fail_keys = {}
    if rtc:
        for f in rtc.get('failures', []):
            rtc_fail_keys.setdefault(f['key'], f)
        for key, f in rtc_fail_keys.items():
            k = match_known(prop, key, known)
            if k is not None:
                known_hits.append((key, k['what']))
                continue
            d = os.path.join(REPLAYS, prop)
            os.makedirs(d, exist_ok=True)
            path = os.path.join(d, 'rtc_' + sanitize(key) + '.json')
            dump(path, {'kind': 'rtc', 'property': prop, 'driver': rtc.get('driver', prop),
                        'key': key, 'what': f['what'], 'case': f['case']})
            # an aborted driver (exception / no return inside the library) names the failing call
            # and carries the stack, but no input to replay
            noinput = isinstance(f.get('case'), dict) and \
                f['case'].get('kind') in ('uncaught-exception', 'no-return')
            violations.append((key, os.path.relpath(path, VERIF),
                               ' no-failing-input-found' if noinput else ''))

    # a lost/unknown obligation is covered when the bounded driver of the property ran cleanly
    fallback_ok = bool(rtc) and not rtc.get('crashed') and rtc.get('evaluations', 0) > 0

    # ---- evidence
    n_ob = len(obligations)
    n_dis = sum(1 for o in obligations if o['status'] == DISCHARGED)
    lost = [o['oid'] for o in obligations if o['status'] in (LOST, UNKNOWN, ERROR)]
    by_backend = {}
    for o in obligations:
        if o['status'] == DISCHARGED:
            b = o.get('backend') or o['engine']
            by_backend[b] = by_backend.get(b, 0) + 1
    functions = sorted({f for o in obligations for f in o.get('functions', [])})
    trusted = list(GLOBAL_TRUSTED)
    for eng, info in infos.items():
        for a in (info or {}).get('assumed', []):
            trusted.append(a)
        for a in (info or {}).get('trusted', []):
            trusted.append(a)
    if infos.get('pyvc', {}).get('numpy_model') and any(o['engine'] == 'pyvc'
                                                        for o in obligations):
        trusted.append('numpy/builtins model (pyvc primitives): '
                       + ', '.join(infos['pyvc']['numpy_model']))
    samples = [{'obligation': o['oid'], 'statement': o['text'][:300], 'status': o['status'],
                'backend': o.get('backend', ''), 'time_s': o.get('time_s', 0)}
               for o in obligations[:3] + [o for o in obligations if o['status'] != DISCHARGED][:3]]
    coverage = {
        'obligations': n_ob, 'discharged': n_dis,
        'checker_cmd': f'./check {prop} --tier {tier}',
        'trusted_base': trusted,
        'functions_under_contract': functions,
        'by_backend': by_backend,
        'solver_time_s': round(sum(o.get('time_s', 0) for o in obligations), 3),
        'lost_or_undecided': lost,
        'known_findings_hit': [k for k, _ in known_hits],
        'engines': {k: {kk: vv for kk, vv in (v or {}).items()
                        if kk not in ('assumed', 'trusted', 'numpy_model')}
                    for k, v in infos.items()},
    }
    if rtc:
        coverage['bounded'] = {
            'label': 'bounded run-time contract checking of the real functions '
                     '(never counted as proved)',
            'driver': f'vf/rtc/drivers/{prop}.py', 'bounds': rtc.get('bounds', ''),
            'evaluations': rtc.get('evaluations', 0),
            'distinct_nontrivial': rtc.get('distinct_nontrivial', 0),
            'contracts_evaluated': rtc.get('contracts_evaluated', {}),
            'failures': len(rtc.get('failures', [])), 'wall_s': rtc.get('wall_s', 0),
            'notes': rtc.get('notes', []),
        }
        coverage['evaluations'] = rtc.get('evaluations', 0)
        coverage['distinct_nontrivial'] = rtc.get('distinct_nontrivial', 0)
        coverage['rule'] = rtc.get('rule', '')
        samples += rtc.get('samples', [])[:4]
    coverage['samples'] = samples or [{'note': 'no case explored'}]
    proof_clean = n_ob > 0 and n_dis == n_ob
    if proof_clean and prop in PROOF_CORE:
        level = 'proof'
        coverage['proved_clause'] = PROOF_CORE[prop]
    elif proof_clean:
        level = 'other'
        coverage['explanation'] = (
            f'all {n_ob} proof obligations are discharged, but they decide auxiliary clauses of '
            'the property only (see level_claimed in MANIFEST.json); the central clauses are '
            'decided by the bounded run-time contract driver, which is a stand-in and not a '
            'proof. Therefore this run does not claim level "proof".')
    elif n_ob > 0:
        level = 'other'
        coverage['explanation'] = (
            f'{n_dis} of {n_ob} proof obligations discharged; the others are refuted (known '
            f'findings: {len([1 for o in obligations if o.get("known_finding")])}), lost or '
            'undecided and are covered by the bounded driver where one exists; therefore this '
            'run does not claim level "proof".')
    else:
        level = 'exploration'
    if level == 'exploration' and not rtc:
        level = 'other'
        coverage['explanation'] = 'no obligations and no bounded driver ran'
    ev = {
        'property_id': prop, 'tier': tier, 'seed': seed, 'level': level, 'coverage': coverage,
        'assumptions': trusted, 'wall_s': round(wall, 2),
        'violations': len({v[0] for v in violations}),
    }
    dump(os.path.join(EVIDENCE, f'{prop}.json'), ev)

    # ---- output lines + exit code
    seen = set()
    for key, what in known_hits:
        if key in seen:
            continue
        seen.add(key)
        print(f'KNOWN-FINDING: property={prop} {key}: {what}')
    if crashes:
        for c in crashes:
            print('CHECKER-ERROR:', c[-1500:])
        print(f'RESULT property={prop} checker crash (exit 3)')
        return 3
    if violations:
        seen = set()
        for key, path, suffix in violations:
            if key in seen:
                continue
            seen.add(key)
            print(f'# failed: {key}')
            print(f'VIOLATION property={prop} replay={path}{suffix}')
        return 1
    if undecided and not fallback_ok:
        for u in undecided[:20]:
            print('UNDECIDED:', u)
        print(f'RESULT property={prop} undecided (exit 2)')
        return 2
    for u in undecided[:20]:
        print('NOTE (covered by bounded driver):', u)
    print(f'RESULT property={prop} held: level={level} obligations={n_ob} discharged={n_dis} '
          f'bounded_evaluations={(rtc or {}).get("evaluations", 0)} wall={wall:.1f}s')
    return 0
