"""Primitive functions known to the symbolic executor (the 'numpy/builtins model').

Every entry is part of the trusted base and is listed in the evidence (NUMPY_MODEL).
"""
import ast

import z3

from .values import (SArr, SBag, SFunc, SObj, SOpt, SSeq, SSet, SSlice, SStr, Unsupported, coerce2, concrete,
                     is_bool, is_intlike, is_num, is_reallike, is_z3, num_term, snap, snap_finite,
                     to_bool, to_z3)

import itertools as _it
_bv = _it.count()

# uninterpreted real functions; axioms are instantiated per application
_UF = {}


def uf(name, arity=1):
    if name not in _UF:
        _UF[name] = z3.Function(name, *([z3.RealSort()] * (arity + 1)))
    return _UF[name]


def real(x):
    x = num_term(x)
    return z3.ToReal(x) if z3.is_int(x) else x


def _lift1(ex, f, v, kind='real'):
    if isinstance(v, SBag):
        out = SBag(v.shape, v.pred, lambda p, g=v.val: f(g(p)), kind)
        out.mask_id = getattr(v, 'mask_id', None)
        return out
    if isinstance(v, SArr):
        out = SArr(v.shape, lambda idx, g=snap(v): f(g(idx)), kind)
        if kind != 'bool' and snap_finite(v) is not None:
            out.finite = snap_finite(v)       # NaN propagates through elementwise functions
        return out
    if isinstance(v, SSeq):
        return SSeq(v.length, lambda i, g=v.fn: f(g(i)), kind)
    return f(v)


def p_floor(ex, args, kw, st):
    def f(x):
        c = concrete(x)
        if isinstance(x, int) and not isinstance(x, bool):
            return x
        x = num_term(x)
        return x if z3.is_int(x) else z3.ToInt(x)
    return f(args[0])


def p_ceil(ex, args, kw, st):
    def f(x):
        if isinstance(x, int) and not isinstance(x, bool):
            return x
        x = num_term(x)
        return x if z3.is_int(x) else -z3.ToInt(-x)
    return f(args[0])


def np_floor(ex, args, kw, st):
    # numpy floor/ceil return floats: keep a Real-sorted integral value
    return _lift1(ex, lambda x: z3.ToReal(num_term(p_floor(ex, [x], {}, st)))
                  if not is_intlike(x) else x, args[0])


def np_ceil(ex, args, kw, st):
    return _lift1(ex, lambda x: z3.ToReal(num_term(p_ceil(ex, [x], {}, st)))
                  if not is_intlike(x) else x, args[0])


def np_round(ex, args, kw, st):
    """np.round / np.rint with no decimals: round half to even (IEEE), as a real-valued result."""
    if len(args) > 1 and concrete(args[1]) not in (None, 0):
        raise Unsupported('np.round with decimals')

    def f(x):
        if is_intlike(x):
            return x
        x = real(x)
        fl = z3.ToInt(x)                       # floor
        frac = x - z3.ToReal(fl)
        even = (fl % 2 == 0)
        r = z3.If(frac < z3.RealVal('1/2'), fl,
                  z3.If(frac > z3.RealVal('1/2'), fl + 1, z3.If(even, fl, fl + 1)))
        return z3.ToReal(r)
    return _lift1(ex, f, args[0])


def p_int(ex, args, kw, st):
    x = args[0]
    if isinstance(x, bool):
        return int(x)
    if is_intlike(x):
        return x
    if is_bool(x):
        return z3.If(to_bool(x), z3.IntVal(1), z3.IntVal(0))
    x = num_term(x)
    return z3.If(x >= 0, z3.ToInt(x), -z3.ToInt(-x))   # truncation toward zero


def p_float(ex, args, kw, st):
    return real(args[0])


def p_bool(ex, args, kw, st):
    return to_bool(args[0])


def p_abs(ex, args, kw, st):
    def f(x):
        if isinstance(x, (int, float)) and not isinstance(x, bool):
            return abs(x)
        x = num_term(x)
        return z3.If(x >= 0, x, -x)
    return _lift1(ex, f, args[0], getattr(args[0], 'kind', 'real'))


def _seq_args(args):
    if len(args) == 1 and isinstance(args[0], (tuple, list)):
        return list(args[0])
    return list(args)


def p_min(ex, args, kw, st):
    xs = _seq_args(args)
    if len(args) == 1 and isinstance(args[0], (SArr, SSeq)):
        raise Unsupported('min of a symbolic array')
    if all(isinstance(x, (int, float)) and not isinstance(x, bool) for x in xs):
        return min(xs)
    r = xs[0]
    for x in xs[1:]:
        a, b = coerce2(r, x)
        r = z3.If(b < a, b, a)
    return r


def p_max(ex, args, kw, st):
    xs = _seq_args(args)
    if len(args) == 1 and isinstance(args[0], (SArr, SSeq)):
        raise Unsupported('max of a symbolic array')
    if all(isinstance(x, (int, float)) and not isinstance(x, bool) for x in xs):
        return max(xs)
    r = xs[0]
    for x in xs[1:]:
        a, b = coerce2(r, x)
        r = z3.If(b > a, b, a)
    return r


def p_len(ex, args, kw, st):
    v = args[0]
    if isinstance(v, (tuple, list, dict, str)):
        return len(v)
    if isinstance(v, SSeq):
        return v.length
    if isinstance(v, SArr):
        return v.shape[0]
    if isinstance(v, SBag):
        # number of selected elements (a[mask], a.ravel())
        if getattr(v, 'all_selected', False):
            n = num_term(v.shape[0])
            for d in v.shape[1:]:
                n = n * num_term(d)
            return n
        return count_term(ex, SAgg('COUNT', v.shape, v.pred, lambda p: 1), st)
    if isinstance(v, SObj):
        c = ex.registry.lookup_method(v.cls, '__len__')
        if c is not None:
            return [(s2, r) for (s2, r) in ex.apply_contract(c, [v], {}, st)]
    raise Unsupported(f'len of {type(v).__name__}')


def p_isinstance(ex, args, kw, st):
    v, t = args
    names = []

    def flat(x):
        if isinstance(x, tuple) and x and x[0] in ('global', 'class'):
            names.append(x[1])
        elif isinstance(x, (tuple, list)):
            for y in x:
                flat(y)
        else:
            raise Unsupported('isinstance type')
    flat(t)
    res = False
    for n in names:
        n = n.split('.')[-1]
        if n in ('int', 'integer'):
            res = res or (is_intlike(v))
        elif n in ('float', 'floating'):
            res = res or is_reallike(v)
        elif n == 'bool':
            res = res or is_bool(v)
        elif n == 'str':
            res = res or isinstance(v, (str, SStr))
        elif n in ('tuple',):
            res = res or isinstance(v, tuple)
        elif n in ('list',):
            res = res or isinstance(v, list)
        elif n == 'ndarray':
            res = res or isinstance(v, (SArr, SSeq))
        elif n in ('Quantity', 'MaskedArray', 'NDData', 'SkyCoord'):
            res = res or (isinstance(v, SObj) and (v.cls.split('@')[0] == n
                                                   or ex.registry.is_subclass(v.cls, n)))
        else:
            res = res or (isinstance(v, SObj) and ex.registry.is_subclass(v.cls, n))
    return res


def p_slice(ex, args, kw, st):
    if len(args) == 1:
        return SSlice(None, args[0])
    if len(args) == 2:
        return SSlice(args[0], args[1])
    return SSlice(*args[:3])


def p_tuple(ex, args, kw, st):
    if not args:
        return ()
    v = args[0]
    if isinstance(v, (tuple, list)):
        return tuple(v)
    items = ex.concrete_iter(v)
    if items is None:
        raise Unsupported('tuple() of symbolic iterable')
    return tuple(items)


def p_set(ex, args, kw, st):
    """set(seq) for a symbolic integer sequence: x is a member iff it occurs.  The witness
    function w gives, for a member, a position where it occurs; the axiom "every element is a
    member" makes member(x) equivalent to "exists k: seq[k] == x" in every model."""
    if not args:
        return SSet(lambda x: z3.BoolVal(False))
    v = args[0]
    if isinstance(v, SSet):
        return v
    if isinstance(v, range):
        v = ('symrange', [v.start, v.stop] + ([v.step] if v.step != 1 else []))
    if isinstance(v, tuple) and len(v) == 2 and v[0] == 'symrange':
        ra = list(v[1])
        if len(ra) > 2:
            raise Unsupported('set of a stepped range')
        lo, hi = (0, ra[0]) if len(ra) == 1 else ra
        lo, hi = num_term(lo), num_term(hi)
        return SSet(lambda x: z3.And(num_term(x) >= lo, num_term(x) < hi))
    if isinstance(v, (tuple, list)) and all(is_intlike(x) for x in v):
        items = [num_term(x) for x in v]
        return SSet(lambda x: z3.Or(*[num_term(x) == t for t in items]) if items
                    else z3.BoolVal(False))
    if isinstance(v, SArr) and v.ndim == 1:
        f = snap(v)
        v = SSeq(v.shape[0], lambda i, f=f: f((i,)), v.kind)
    if not isinstance(v, SSeq) or v.kind != 'int':
        raise Unsupported('set() of this value')
    uid = next(_bv)
    n = num_term(v.length)
    w = z3.Function(f'set_w!{uid}', z3.IntSort(), z3.IntSort())
    k = z3.Int(f'bv!set{uid}k')

    def member(x, v=v, w=w, n=n):
        x = num_term(x)
        return z3.And(w(x) >= 0, w(x) < n, num_term(v.fn(w(x))) == x)
    elem = num_term(v.fn(k))
    st.fact(_forall_pat([k], z3.Implies(z3.And(k >= 0, k < n), member(elem)), elem))
    return SSet(member)


def set_to_seq(ex, sset, st):
    """list(S) / iteration order of a finite set: some enumeration r[0..m) without repetition
    that lists exactly the members (pos is its inverse)."""
    uid = next(_bv)
    m = fresh_int(f'nset{uid}')
    r = z3.Function(f'set_elem!{uid}', z3.IntSort(), z3.IntSort())
    pos = z3.Function(f'set_pos!{uid}', z3.IntSort(), z3.IntSort())
    k, x = z3.Int(f'bv!sl{uid}k'), z3.Int(f'bv!sl{uid}x')
    st.fact(m >= 0)
    st.fact(z3.ForAll([k], z3.Implies(z3.And(k >= 0, k < m),
                                      z3.And(sset.member(r(k)), pos(r(k)) == k)),
                      patterns=[r(k)]))
    st.fact(z3.ForAll([x], z3.Implies(sset.member(x),
                                      z3.And(pos(x) >= 0, pos(x) < m, r(pos(x)) == x)),
                      patterns=[pos(x)]))
    return SSeq(m, lambda q: r(num_term(q)), 'int')


def np_searchsorted(ex, args, kw, st):
    """np.searchsorted(a, v) (side='left') for a scalar v: the first index i with a[i] >= v.  The
    result is specified for a sorted a; that a is sorted (non-decreasing) is an obligation."""
    if kw.get('side', 'left') != 'left' or set(kw) - {'side'}:
        raise Unsupported('searchsorted options')
    a, v = args[:2]
    if isinstance(a, SArr) and a.ndim == 1:
        f = snap(a)
        a = SSeq(a.shape[0], lambda i, f=f: f((i,)), a.kind)
    if isinstance(v, SArr) and v.ndim == 1:
        fv = snap(v)
        v = SSeq(v.shape[0], lambda i, fv=fv: fv((i,)), v.kind)
    if not isinstance(a, SSeq) or not (is_num(v) or isinstance(v, SSeq)):
        raise Unsupported('searchsorted of these values')
    uid = next(_bv)
    n = num_term(a.length)
    k, k2 = z3.Int(f'bv!ss{uid}k'), z3.Int(f'bv!ss{uid}m')
    st.check('searchsorted: the array is sorted',
             z3.ForAll([k, k2], z3.Implies(z3.And(k >= 0, k <= k2, k2 < n),
                                           num_term(a.fn(k)) <= num_term(a.fn(k2)))))
    if isinstance(v, SSeq):
        # one insertion index per element of v, in the order of v
        idx = z3.Function(f'ss_idx!{uid}', z3.IntSort(), z3.IntSort())
        q = z3.Int(f'bv!ss{uid}q')
        inq = z3.And(q >= 0, q < num_term(v.length))
        vq = num_term(v.fn(q))
        st.fact(z3.ForAll([q], z3.Implies(inq, z3.And(idx(q) >= 0, idx(q) <= n))))
        st.fact(z3.ForAll([q, k], z3.Implies(z3.And(inq, k >= 0, k < idx(q)), num_term(a.fn(k)) < vq)))
        st.fact(z3.ForAll([q, k], z3.Implies(z3.And(inq, k >= idx(q), k < n), num_term(a.fn(k)) >= vq)))
        return SSeq(v.length, lambda i: idx(num_term(i)), 'int')
    i = fresh_int(f'ss{uid}')
    st.fact(z3.And(i >= 0, i <= n))
    st.fact(z3.ForAll([k], z3.Implies(z3.And(k >= 0, k < i), num_term(a.fn(k)) < num_term(v))))
    st.fact(z3.ForAll([k], z3.Implies(z3.And(k >= i, k < n), num_term(a.fn(k)) >= num_term(v))))
    return i


def np_maxmin2(which):
    """np.maximum / np.minimum(a, b): elementwise (scalars broadcast)."""
    def g(ex, args, kw, st):
        if kw or len(args) != 2:
            raise Unsupported(f'np.{which} with options')

        def f(x, y):
            x, y = coerce2(x, y)
            return z3.If(x >= y, x, y) if which == 'maximum' else z3.If(x <= y, x, y)
        a, b = args
        if isinstance(a, (SArr, SSeq, SBag)) or isinstance(b, (SArr, SSeq, SBag)):
            return ex.lift2(f, a, b)
        return f(a, b)
    return g


def np_extremum(meth):
    def g(ex, args, kw, st):
        if kw or len(args) != 1:
            raise Unsupported(f'np.{meth} with options')
        v = args[0]
        if isinstance(v, SArr) and v.ndim == 1:
            f = snap(v)
            v = SSeq(v.shape[0], lambda i, f=f: f((i,)), v.kind)
        if isinstance(v, SSeq):
            return arr_method(ex, v, meth, [], {}, st)
        raise Unsupported(f'np.{meth} of this value')
    return g


def p_hasattr(ex, args, kw, st):
    """hasattr(record, 'name') for a record whose fields are given by its type spec: a field or a
    contracted / defined member of the class."""
    v, name = args[:2]
    if not isinstance(v, SObj) or not isinstance(name, str):
        raise Unsupported('hasattr of this value')
    if name in v.fields:
        return True
    cls = v.cls.split('@')[0]
    if ex.registry.lookup_method(v.cls, name) is not None or \
            ex._find_method_def(cls, name) is not None or \
            ex._find_method_def(cls, name, want_property=True) is not None:
        return True
    return False


def p_getattr(ex, args, kw, st):
    """getattr(record, 'name') with a literal name: the field read `record.name`."""
    v, name = args[:2]
    if not isinstance(v, SObj) or not isinstance(name, str):
        raise Unsupported('getattr of this value')
    if name in v.fields:
        return v.fields[name]
    if len(args) == 3:
        return args[2]
    raise Unsupported(f'getattr: record {v.cls} has no field {name!r}')


def np_isscalar(ex, args, kw, st):
    v = args[0]
    if is_num(v) or isinstance(v, (bool, int, float, str, SStr)):
        return True
    if isinstance(v, (SArr, SSeq, SBag, tuple, list, dict, SObj)) or v is None:
        return False
    raise Unsupported('np.isscalar of this value')


def p_sorted(ex, args, kw, st):
    """sorted(S) for a finite set of integers: its members in strictly increasing order."""
    if kw or len(args) != 1 or not isinstance(args[0], SSet):
        raise Unsupported('sorted() of this value')
    seq = set_to_seq(ex, args[0], st)
    uid = next(_bv)
    k, m = z3.Int(f'bv!so{uid}k'), z3.Int(f'bv!so{uid}m')
    st.fact(z3.ForAll([k, m], z3.Implies(z3.And(k >= 0, k < m, m < num_term(seq.length)),
                                         num_term(seq.fn(k)) < num_term(seq.fn(m)))))
    return seq


def set_method(ex, sset, meth, args, kw, st):
    if meth in ('difference', 'union', 'intersection') and len(args) == 1 and not kw:
        other = p_set(ex, [args[0]], {}, st)
        op = {'difference': ast.Sub, 'union': ast.BitOr, 'intersection': ast.BitAnd}[meth]
        return ex.binop(op(), sset, other, st)
    raise Unsupported(f'set.{meth}')


def np_insert(ex, args, kw, st):
    """np.insert(seq, 0, value): the 1-D sequence with one value put in front."""
    if kw or len(args) != 3 or concrete(args[1]) != 0 or not is_num(args[2]):
        raise Unsupported('np.insert other than one value at position 0')
    v = args[0]
    if isinstance(v, SArr) and v.ndim == 1:
        f = snap(v)
        v = SSeq(v.shape[0], lambda i, f=f: f((i,)), v.kind)
    if not isinstance(v, SSeq):
        raise Unsupported('np.insert into this value')
    val = args[2]
    return SSeq(z3.simplify(num_term(v.length) + 1),
                lambda i, v=v: ex.ite(num_term(i) == 0, val, v.fn(num_term(i) - 1)), v.kind)


def p_list(ex, args, kw, st):
    if not args:
        return []
    v = args[0]
    if isinstance(v, SSeq):
        return v
    if isinstance(v, SSet):
        return set_to_seq(ex, v, st)
    return list(p_tuple(ex, args, kw, st))


def p_zip(ex, args, kw, st):
    if all(isinstance(a, (tuple, list)) for a in args):
        return list(zip(*args))
    cs = [ex.concrete_iter(a) for a in args]
    if all(c is not None for c in cs):
        return list(zip(*cs))
    # zip of symbolic sequences: a sequence of tuples (strict=True => equal lengths assumed
    # as an obligation)
    seqs = []
    ln = None
    for a in args:
        if isinstance(a, SArr) and a.ndim == 1:
            a = SSeq(a.shape[0], lambda i, f=a.fn: f((i,)), a.kind)
        if isinstance(a, SArr) and a.ndim == 2:
            a = SSeq(a.shape[0], lambda i, a=a: ex.index_arr(a, (i,), None), 'obj')
        if not isinstance(a, SSeq):
            raise Unsupported('zip of mixed iterables')
        if ln is None:
            ln = a.length
        elif kw.get('strict'):
            st.check('zip(strict=True) lengths equal', num_term(ln) == num_term(a.length))
        seqs.append(a)
    return SSeq(ln, lambda i: tuple(s.fn(i) for s in seqs), 'obj')


def p_range(ex, args, kw, st):
    cs = [concrete(a) for a in args]
    if all(c is not None for c in cs):
        return range(*cs)
    return ('symrange', args)


def p_enumerate(ex, args, kw, st):
    items = ex.concrete_iter(args[0])
    if items is None:
        seq = args[0]
        if isinstance(seq, SArr) and seq.ndim == 1:
            f = snap(seq)
            seq = SSeq(seq.shape[0], lambda i, f=f: f((i,)), seq.kind)
        if isinstance(seq, SSeq) and len(args) == 1 and not kw:
            out = SSeq(seq.length, lambda i, s_=seq: (num_term(i), s_.fn(i)), 'obj')
            out.enumerated = True          # element k is (k, seq[k])
            return out
        raise Unsupported('enumerate of symbolic iterable')
    start = concrete(kw.get('start', args[1] if len(args) > 1 else 0))
    return [(i + start, x) for i, x in enumerate(items)]


def p_exc(name):
    def f(ex, args, kw, st):
        return SStr(name)
    return f


def p_sqrt(ex, args, kw, st):
    def f(x):
        x = real(x)
        c = concrete(x)
        if c is not None and c >= 0:
            import fractions
            import math
            fr = fractions.Fraction(c)
            n, d = math.isqrt(fr.numerator), math.isqrt(fr.denominator)
            if n * n == fr.numerator and d * d == fr.denominator:
                return to_z3(fractions.Fraction(n, d))
        r = uf('sqrt')(x)
        st.fact(z3.Implies(x >= 0, z3.And(r >= 0, r * r == x)))
        return r
    return _lift1(ex, f, args[0])


def _trig_facts(st, t):
    s, c = uf('sin')(t), uf('cos')(t)
    st.fact(s * s + c * c == 1)
    st.fact(z3.And(s >= -1, s <= 1, c >= -1, c <= 1))
    # odd/even symmetry instances
    st.fact(uf('sin')(-t) == -s)
    st.fact(uf('cos')(-t) == c)


def p_sin(ex, args, kw, st):
    def f(x):
        t = real(x)
        if concrete(t) == 0:
            return z3.RealVal(0)
        _trig_facts(st, t)
        return uf('sin')(t)
    return _lift1(ex, f, args[0])


def p_cos(ex, args, kw, st):
    def f(x):
        t = real(x)
        if concrete(t) == 0:
            return z3.RealVal(1)
        _trig_facts(st, t)
        return uf('cos')(t)
    return _lift1(ex, f, args[0])


def p_uf1(name, facts=None):
    def g(ex, args, kw, st):
        def f(x):
            t = real(x)
            r = uf(name)(t)
            if facts:
                facts(st, t, r)
            return r
        return _lift1(ex, f, args[0])
    return g


def _exp_facts(st, t, r):
    st.fact(r > 0)


def _erf_facts(st, t, r):
    st.fact(z3.And(r > -1, r < 1))
    st.fact(uf('erf')(-t) == -r)


def _asin_facts(st, t, r):
    st.fact(z3.Implies(z3.And(t >= -1, t <= 1), uf('sin')(r) == t))


def p_hypot(ex, args, kw, st):
    a, b = args
    return ex.lift2(lambda x, y: p_sqrt(ex, [real(x) * real(x) + real(y) * real(y)], {}, st),
                    a, b) if isinstance(a, (SArr, SSeq)) or isinstance(b, (SArr, SSeq)) else \
        p_sqrt(ex, [real(a) * real(a) + real(b) * real(b)], {}, st)


def p_isfinite(ex, args, kw, st):
    # In Real mode every value is finite unless the array carries a finiteness predicate.
    v = args[0]
    if isinstance(v, SArr):
        pred = snap_finite(v)
        if pred is None:
            return SArr(v.shape, lambda idx: True, 'bool')
        return SArr(v.shape, pred, 'bool')
    return True


def p_isnan(ex, args, kw, st):
    v = args[0]
    if isinstance(v, SArr):
        pred = snap_finite(v)
        if pred is None:
            return SArr(v.shape, lambda idx: False, 'bool')
        # non-finite input elements are NaN or +-inf: isnan is its own predicate, implied finite
        return SArr(v.shape, lambda idx: z3.Not(to_bool(pred(idx))), 'bool')
    return False


def np_logical(op):
    def g(ex, args, kw, st):
        if op == 'not':
            return ex.unop(ast.Not(), args[0])
        a, b = args[:2]
        zop = z3.And if op == 'and' else z3.Or

        def f(x, y):
            return z3.simplify(zop(to_bool(x), to_bool(y)))
        if isinstance(a, (SArr, SSeq)) or isinstance(b, (SArr, SSeq)):
            r = ex.lift2(f, a, b)
            r.kind = 'bool'
            return r
        return f(a, b)
    return g


def np_arith(opcls):
    """np.add / np.subtract / np.multiply(a, b[, out=o]): elementwise; with out= the result is
    stored in place in `o` (same shape, as numpy requires) and `o` is returned."""
    def g(ex, args, kw, st):
        a, b = args[:2]
        out = kw.get('out', args[2] if len(args) > 2 else None)
        extra = set(kw) - {'out'}
        if extra:
            raise Unsupported(f'np arithmetic keyword {sorted(extra)}')
        r = ex.binop(opcls(), a, b, st)
        if out is None:
            return r
        if not isinstance(out, SArr) or not isinstance(r, SArr) or out.ndim != r.ndim:
            raise Unsupported('out= of this value')
        for d0, d1 in zip(out.shape, r.shape):
            st.check('out= array has the shape of the result', num_term(d0) == num_term(d1))
        ex.write_arr(out, None, r, st)
        return out
    return g


def np_zeros(fill, like=False):
    def g(ex, args, kw, st):
        if like:
            shape = args[0].shape
            kind = kw.get('dtype') or args[0].kind
        else:
            shape = args[0]
            if not isinstance(shape, (tuple, list)):
                shape = (shape,)
            kind = kw.get('dtype', args[1] if len(args) > 1 else 'real')
        if isinstance(kind, tuple):
            kind = kind[1].split('.')[-1]
        kind = {'bool': 'bool', 'int': 'int', 'float': 'real', 'real': 'real',
                'bool_': 'bool', 'float64': 'real'}.get(kind, 'real')
        val = {'bool': fill == 1, 'int': int(fill), 'real': z3.RealVal(fill)}[kind]
        return ex.new_array(tuple(shape), lambda idx: val, kind, 'zeros')
    return g


def np_full(ex, args, kw, st):
    shape, val = args[0], args[1]
    if not isinstance(shape, (tuple, list)):
        shape = (shape,)
    dt = kw.get('dtype')
    if isinstance(val, SArr):
        # np.full broadcasts an array fill value (same rank assumed and checked)
        if val.ndim != len(tuple(shape)):
            raise Unsupported('np.full with a fill array of another rank')
        for a, b in zip(val.shape, tuple(shape)):
            st.check('np.full: fill array has the requested shape', num_term(a) == num_term(b))
        vf = snap(val)
        if isinstance(dt, tuple) and dt and dt[0] == 'dtype' and dt[1] != 'float':
            cf = uf('cast_to_dtype', 1)
            return ex.new_array(tuple(shape), lambda idx: cf(real(vf(idx))), 'real', 'full')
        return ex.new_array(tuple(shape), lambda idx: vf(idx), val.kind, 'full')
    kind = 'bool' if is_bool(val) else ('int' if is_intlike(val) else 'real')
    if isinstance(dt, tuple) and dt and dt[0] == 'dtype' and dt[1] not in ('float',) \
            and not isinstance(val, bool):
        # the fill value is cast to a dtype that is not known to be float: the stored value is
        # some function of it (truncation for integer dtypes), not the value itself
        if dt[1] == 'int' and is_intlike(val):
            pass
        else:
            cast = uf('cast_to_dtype', 1)(real(val))
            return ex.new_array(tuple(shape), lambda idx: cast, 'real', 'full')
    return ex.new_array(tuple(shape), lambda idx: val, kind, 'full')


def np_where(ex, args, kw, st):
    if len(args) != 3:
        raise Unsupported('np.where with one argument')
    c, a, b = args

    fs = {id(v): snap(v) for v in (c, a, b) if isinstance(v, SArr)}

    def pick(v, idx):
        return fs[id(v)](idx) if isinstance(v, SArr) else v
    shape = next(v.shape for v in (c, a, b) if isinstance(v, SArr))
    kind = 'real'
    ks = [v.kind if isinstance(v, SArr) else ('bool' if is_bool(v) else
                                              'int' if is_intlike(v) else 'real') for v in (a, b)]
    kind = 'real' if 'real' in ks else ks[0]
    return SArr(shape, lambda idx: ex.ite(pick(c, idx), pick(a, idx), pick(b, idx)), kind)


def np_identity(ex, args, kw, st):
    return args[0]


def content_token(v):
    """Token of the contents of an array: its memory's identity, or -- for an unmodified copy --
    the token of what it was copied from (id_() in contracts is about *which data* reaches a
    callee; an unmodified copy carries the same data)."""
    if isinstance(v, SArr) and v.store is not None:
        return v.store.content_tok if getattr(v.store, 'content_tok', None) is not None \
            else v.store.tok
    if isinstance(v, SArr):
        return getattr(v, '_copy_tok', None)
    return None


def np_copy(ex, args, kw, st):
    v = args[0]
    if isinstance(v, SArr):
        out = ex.new_array(v.shape, snap(v), v.kind, 'copy')
        out.store.finite = snap_finite(v)
        out.store.content_tok = content_token(v)
        return out
    if isinstance(v, SSeq):
        return SSeq(v.length, v.fn, v.kind)
    if isinstance(v, list):
        return list(v)
    return v


def np_broadcast_to(ex, args, kw, st):
    v, shape = args[0], args[1]
    shape = tuple(shape)
    if isinstance(v, SArr):
        if v.ndim != len(shape):
            raise Unsupported('np.broadcast_to across dimensions')
        # same rank: numpy requires equal sizes (or size 1) per axis; equal sizes are assumed
        # here and checked as an obligation
        for a, b in zip(v.shape, shape):
            st.check('broadcast_to: array already has the requested shape',
                     num_term(a) == num_term(b))
        return v
    if is_num(v):
        return SArr(shape, lambda idx, v=v: v, 'real' if is_reallike(v) else 'int')
    raise Unsupported('np.broadcast_to of this value')


def np_arange(ex, args, kw, st):
    if len(args) != 1:
        raise Unsupported('np.arange with start/step')
    n = args[0]
    return SSeq(num_term(n), lambda i: num_term(i), 'int')


def np_argsort(ex, args, kw, st):
    """np.argsort of a finite 1-D sequence: a permutation of range(n) that lists the values in
    non-decreasing order (which permutation among ties is unspecified)."""
    f = args[0]
    if isinstance(f, SArr) and f.ndim == 1:
        fs = snap(f)
        if snap_finite(f) is not None:
            raise Unsupported('argsort of a sequence that may contain NaN')
        fn, n = (lambda i: fs((i,))), num_term(f.shape[0])
    elif isinstance(f, SSeq):
        fn, n = f.fn, num_term(f.length)
    else:
        raise Unsupported('np.argsort of this value')
    uid = next(_bv)
    perm = z3.Function(f'argsort!{uid}', z3.IntSort(), z3.IntSort())
    inv = z3.Function(f'argsort_inv!{uid}', z3.IntSort(), z3.IntSort())
    k, m = z3.Int(f'bv!as{uid}k'), z3.Int(f'bv!as{uid}m')
    rng = lambda x: z3.And(x >= 0, x < n)  # noqa: E731
    st.fact(z3.ForAll([k], z3.Implies(rng(k), rng(perm(k)))))
    st.fact(z3.ForAll([k, m], z3.Implies(z3.And(rng(k), rng(m), k != m), perm(k) != perm(m))))
    st.fact(z3.ForAll([k, m], z3.Implies(z3.And(rng(k), rng(m), k < m),
                                         real(fn(perm(k))) <= real(fn(perm(m))))))
    surj = z3.Implies(rng(k), z3.And(rng(inv(k)), perm(inv(k)) == k))
    # every row whose value is mentioned is some perm(q): instantiate on f(k)
    st.fact(_forall_pat([k], surj, real(fn(k))))
    return SSeq(n, lambda i: perm(num_term(i)), 'int')


def _flat_view(v):
    """(length term, element function of a flat index, 'kind') of a 1-D / 2-D array or sequence
    in C order -- used by order-insensitive specifications (np.unique)."""
    if isinstance(v, SSeq):
        return num_term(v.length), v.fn, v.kind
    if isinstance(v, SArr) and v.ndim == 1:
        f = snap(v)
        return num_term(v.shape[0]), (lambda i: f((i,))), v.kind
    if isinstance(v, SArr) and v.ndim == 2:
        f = snap(v)
        w = num_term(v.shape[1])
        n = num_term(v.shape[0]) * w
        return n, None, v.kind          # membership is stated over (i, j) pairs instead
    raise Unsupported('np.unique of this value')


def _forall_pat(vs, body, trig):
    """ForAll with an E-matching pattern when the trigger term is usable, else without."""
    try:
        if z3.is_app(trig) and trig.num_args() > 0 \
                and trig.decl().kind() == z3.Z3_OP_UNINTERPRETED:
            return z3.ForAll(vs, body, patterns=[trig])
    except z3.Z3Exception:
        pass
    return z3.ForAll(vs, body)


def np_unique(ex, args, kw, st):
    """np.unique(a): the distinct values of a in strictly increasing order (specified by
    membership both ways; NaN-free integer / finite data)."""
    if kw:
        raise Unsupported('np.unique with options')
    v = args[0]
    uid = next(_bv)
    kind = v.kind if isinstance(v, (SArr, SSeq)) else 'int'
    sort = {'int': z3.IntSort(), 'real': z3.RealSort()}.get(kind)
    if sort is None:
        raise Unsupported('np.unique of a boolean array')
    u = z3.Function(f'unique!{uid}', z3.IntSort(), sort)
    m = fresh_int(f'nunique{uid}')
    st.fact(m >= 0)
    k, k2 = z3.Int(f'bv!uq{uid}k'), z3.Int(f'bv!uq{uid}m')
    st.fact(z3.ForAll([k, k2], z3.Implies(z3.And(k >= 0, k < k2, k2 < m), u(k) < u(k2))))
    if isinstance(v, SArr) and v.ndim == 2:
        f = snap(v)
        i, j = z3.Int(f'bv!uq{uid}i'), z3.Int(f'bv!uq{uid}j')
        inb = z3.And(i >= 0, i < num_term(v.shape[0]), j >= 0, j < num_term(v.shape[1]))
        wi = z3.Function(f'unique_wi!{uid}', z3.IntSort(), z3.IntSort())
        wj = z3.Function(f'unique_wj!{uid}', z3.IntSort(), z3.IntSort())
        pos = z3.Function(f'unique_pos!{uid}', z3.IntSort(), z3.IntSort(), z3.IntSort())
        # every listed value occurs somewhere; every element is listed
        st.fact(z3.ForAll([k], z3.Implies(z3.And(k >= 0, k < m), z3.And(
            wi(k) >= 0, wi(k) < num_term(v.shape[0]), wj(k) >= 0, wj(k) < num_term(v.shape[1]),
            num_term(f((wi(k), wj(k)))) == u(k)))))
        elem = num_term(f((i, j)))
        st.fact(_forall_pat([i, j], z3.Implies(inb, z3.And(pos(i, j) >= 0, pos(i, j) < m,
                                                           u(pos(i, j)) == elem)), elem))
    else:
        n, fn, _ = _flat_view(v)
        w = z3.Function(f'unique_w!{uid}', z3.IntSort(), z3.IntSort())
        pos = z3.Function(f'unique_pos!{uid}', z3.IntSort(), z3.IntSort())
        i = z3.Int(f'bv!uq{uid}i')
        st.fact(z3.ForAll([k], z3.Implies(z3.And(k >= 0, k < m), z3.And(
            w(k) >= 0, w(k) < n, num_term(fn(w(k))) == u(k)))))
        elem = num_term(fn(i))
        st.fact(_forall_pat([i], z3.Implies(z3.And(i >= 0, i < n), z3.And(
            pos(i) >= 0, pos(i) < m, u(pos(i)) == elem)), elem))
    return SSeq(m, lambda q: u(num_term(q)), kind)


def fresh_int(name):
    from .symexec import fresh
    return fresh(name, 'int')


def seq_filter(ex, seq, mask, st):
    """seq[mask] for a 1-D sequence and a boolean sequence of the same length: the selected
    elements in their original order (an increasing position map g with an inverse h)."""
    uid = next(_bv)
    n = num_term(seq.length)
    st.check('boolean index has the length of the sequence', num_term(mask.length) == n)
    m = fresh_int(f'nsel{uid}')
    g = z3.Function(f'selpos!{uid}', z3.IntSort(), z3.IntSort())
    h = z3.Function(f'selinv!{uid}', z3.IntSort(), z3.IntSort())
    k, k2, j = z3.Int(f'bv!sf{uid}k'), z3.Int(f'bv!sf{uid}m'), z3.Int(f'bv!sf{uid}j')
    st.fact(z3.And(m >= 0, m <= n))
    st.fact(z3.ForAll([k], z3.Implies(z3.And(k >= 0, k < m), z3.And(
        g(k) >= 0, g(k) < n, to_bool(mask.fn(g(k)))))))
    st.fact(z3.ForAll([k, k2], z3.Implies(z3.And(k >= 0, k < k2, k2 < m), g(k) < g(k2))))
    st.fact(z3.ForAll([j], z3.Implies(z3.And(j >= 0, j < n, to_bool(mask.fn(j))), z3.And(
        h(j) >= 0, h(j) < m, g(h(j)) == j))))
    return SSeq(m, lambda q: seq.fn(g(num_term(q))), seq.kind)


def np_atleast_2d(ex, args, kw, st):
    v = args[0]
    if isinstance(v, SArr) and v.ndim == 2:
        return v          # numpy returns the array itself (same memory) for ndim >= 2
    raise Unsupported('np.atleast_2d of a non-2-D value')


class SAgg:
    """Uninterpreted reduction over an index box: kind(SUM|COUNT) of val(p) for p in box(shape)
    with pred(p).  Two aggregates are related only through their pointwise characterisation
    (trusted lemma L-sum: equal domain / predicate / values => equal numpy reductions)."""

    def __init__(self, kind, shape, pred, val):
        self.kind, self.shape, self.pred, self.val = kind, tuple(shape), pred, val


def _mentions_bound(terms, allowed):
    """Does any term contain a quantifier variable of the contract language ('bv!...') other than
    the allowed ones (free, i.e. not under a z3 binder of its own)?"""
    seen = set()
    todo = list(terms)
    while todo:
        t = todo.pop()
        if not is_z3(t) or t.get_id() in seen:
            continue
        seen.add(t.get_id())
        if z3.is_quantifier(t):
            continue          # variables bound inside are de Bruijn indices, not constants
        if z3.is_const(t) and t.decl().kind() == z3.Z3_OP_UNINTERPRETED:
            nm = str(t)
            if nm.startswith('bv!') and nm not in allowed:
                return True
        todo.extend(t.children())
    return False


def count_term(ex, agg, st):
    """An integer for a COUNT reduction: c = #{p in box : pred(p)}, known through
      0 <= c <= size of the box;   c == 0  <=>  no p in the box has pred(p);
      two counts over boxes of the same shape whose predicates agree pointwise are equal
    (the last is lemma L-sum; it is what links the count the code compares with the count a
    postcondition speaks about)."""
    for a, t in st.count_aggs:        # (aggregate, its integer on this path)
        if a is agg:
            return t
    uid = next(_bv)
    c = fresh_int(f'count{uid}')
    nd = len(agg.shape)
    vs = [z3.Int(f'bv!cn{uid}_{d}') for d in range(nd)]
    inb = _in_box(vs, agg.shape)
    size = num_term(agg.shape[0])
    for d in agg.shape[1:]:
        size = size * num_term(d)
    pv = to_bool(agg.pred(tuple(vs)))
    # the integer is one constant: inside a quantifier that is not skolemised it would have to be
    # a function of the bound variables
    own = {str(v) for v in vs}
    if _mentions_bound([pv, size], own):
        raise Unsupported('COUNT reduction under a quantifier that is not skolemised')
    st.fact(z3.And(c >= 0, c <= size))
    # exact value on tiny boxes (sound: it is the definition), which makes counter-models with
    # shapes up to 3 x 3 faithful, hence replayable
    if nd in (1, 2):
        dims = [num_term(d) for d in agg.shape]
        sizes = [(h,) for h in range(1, 4)] if nd == 1 else [(h, w) for h in range(1, 4) for w in range(1, 4)]
        for sz in sizes:
            cells = [tuple(p) for p in _it.product(*[range(k) for k in sz])]
            total = z3.Sum([z3.If(to_bool(agg.pred(tuple(z3.IntVal(x) for x in p))), 1, 0) for p in cells])
            st.fact(z3.Implies(z3.And(*[d == k for d, k in zip(dims, sz)]), c == total))
    st.fact(z3.Implies(c == 0, z3.ForAll(vs, z3.Implies(inb, z3.Not(pv)))))
    st.fact(z3.Implies(z3.ForAll(vs, z3.Implies(inb, z3.Not(pv))), c == 0))
    for other, oterm in st.count_aggs:
        if len(other.shape) != nd:
            continue
        same_shape = z3.And(*[num_term(x) == num_term(y) for x, y in zip(other.shape, agg.shape)])
        po = to_bool(other.pred(tuple(vs)))
        st.fact(z3.Implies(z3.And(same_shape, z3.ForAll(vs, z3.Implies(inb, po == pv))),
                           oterm == c))
    st.count_aggs.append((agg, c))
    return c


def np_count_nonzero(ex, args, kw, st):
    v = args[0]
    if isinstance(v, SArr):
        return SAgg('COUNT', v.shape, snap(v), lambda p: 1)
    raise Unsupported('count_nonzero')


def np_sum(ex, args, kw, st):
    v = args[0]
    if 'axis' in kw and kw['axis'] is not None:
        raise Unsupported('sum along an axis')
    if isinstance(v, SBag):
        return SAgg('SUM', v.shape, v.pred, v.val)
    if isinstance(v, SArr):
        return SAgg('SUM', v.shape, lambda p: True, snap(v))
    if isinstance(v, SAgg):
        return v
    raise Unsupported('np.sum of this value')


def cl_part(which):
    def g(ex, args, kw, st):
        v = args[0]
        idx = tuple(args[1:])
        if isinstance(v, SArr) and which == 'val':
            return v.fn(idx)
        if isinstance(v, SArr) and which == 'pred':
            return True
        if not isinstance(v, (SBag, SAgg)):
            raise Unsupported(f'{which} of {type(v).__name__}')
        return (v.pred if which == 'pred' else v.val)(idx)
    return g


def cl_shape_of(ex, args, kw, st):
    v = args[0]
    if isinstance(v, (SBag, SAgg, SArr)):
        return tuple(v.shape)
    raise Unsupported('shape_of')


def cl_is_nan(ex, args, kw, st):
    from .symexec import NAN
    return args[0] is NAN


def cl_kind_of(ex, args, kw, st):
    v = args[0]
    return getattr(v, 'kind', type(v).__name__)


def np_any(ex, args, kw, st):
    v = args[0]
    if isinstance(v, (SArr, SSeq)):
        return agg_any(ex, v, st)
    if isinstance(v, SBag):
        return agg_any(ex, SArr(v.shape, lambda p, v=v: z3.And(to_bool(v.pred(p)), to_bool(v.val(p))),
                                'bool'), st)
    return to_bool(v)


def np_nonzero(ex, args, kw, st):
    """np.nonzero(mask) of a 2-D boolean array: the row and column coordinates of its True
    pixels, as two selections over the same elements (order not modelled)."""
    from .symexec import mask_key
    m = args[0]
    if not (isinstance(m, SArr) and m.kind == 'bool' and m.ndim == 2):
        raise Unsupported('np.nonzero of this value')
    mf = snap(m)
    out = []
    for ax in range(2):
        b = SBag(m.shape, mf, (lambda p, ax=ax: num_term(p[ax])), 'int')
        b.mask_id = mask_key(m)
        b.coord = ax
        out.append(b)
    return tuple(out)


def np_all(ex, args, kw, st):
    v = args[0]
    if isinstance(v, (SArr, SSeq)):
        return agg_all(ex, v, st)
    return to_bool(v)


def _in_box(idx, shape):
    return z3.And(*[z3.And(num_term(i) >= 0, num_term(i) < num_term(n))
                    for i, n in zip(idx, shape)])


def agg_any(ex, v, st):
    """any(v): a fresh Bool b with  b <=> exists p in box: v(p)  (skolem + universal fact)."""
    from .symexec import fresh
    b = fresh('any', 'bool')
    if isinstance(v, SSeq):
        shape, fn = (v.length,), (lambda idx: v.fn(idx[0]))
    else:
        shape, fn = v.shape, snap(v)
    wit = tuple(fresh('w', 'int') for _ in shape)
    # b  =>  witness in box with v true
    st.fact(z3.Implies(b, z3.And(_in_box(wit, shape), to_bool(fn(wit)))))
    # not b => forall p in box: not v(p)
    qs = [z3.Int(f'q!{id(v)}!{k}') for k in range(len(shape))]
    st.fact(z3.Implies(z3.Not(b), z3.ForAll(qs, z3.Implies(_in_box(qs, shape),
                                                           z3.Not(to_bool(fn(tuple(qs))))))))
    return b


def agg_all(ex, v, st):
    if isinstance(v, SSeq):
        nv = SSeq(v.length, lambda i: z3.Not(to_bool(v.fn(i))), 'bool')
    else:
        nv = SArr(v.shape, lambda idx, f=snap(v): z3.Not(to_bool(f(idx))), 'bool')
    return z3.Not(agg_any(ex, nv, st))


def np_diff(ex, args, kw, st):
    v = args[0]
    if isinstance(v, SArr) and v.ndim == 1:
        v = SSeq(v.shape[0], lambda i, f=snap(v): f((i,)), v.kind)
    if not isinstance(v, SSeq):
        raise Unsupported('np.diff')
    n = num_term(v.length)
    return SSeq(z3.If(n > 0, n - 1, 0), lambda i: ex.binop(ast.Sub(), v.fn(num_term(i) + 1),
                                                           v.fn(i), st), v.kind)


def np_argmax_first_true(ex, args, kw, st):
    """np.argmax on a boolean sequence: index of the first True (0 if none) -- assumed contract."""
    from .symexec import fresh
    v = args[0]
    if not (isinstance(v, SSeq) and v.kind == 'bool'):
        raise Unsupported('np.argmax of non-boolean sequence')
    r = fresh('argmax', 'int')
    n = num_term(v.length)
    q = z3.Int(f'qa!{id(v)}')
    some = z3.Exists([q], z3.And(q >= 0, q < n, to_bool(v.fn(q))))
    st.fact(z3.And(r >= 0, z3.Or(r < n, z3.And(n == 0, r == 0))))
    st.fact(z3.ForAll([q], z3.Implies(z3.And(q >= 0, q < r), z3.Not(to_bool(v.fn(q))))))
    st.fact(z3.Implies(some, to_bool(v.fn(r))))
    st.fact(z3.Implies(z3.Not(some), r == 0))
    return r


def np_array(ex, args, kw, st):
    v = args[0]
    if isinstance(v, (SArr, SSeq)):
        return np_copy(ex, [v], kw, st)
    if isinstance(v, (tuple, list)):
        items = list(v)
        from .symexec import NAN
        if any(x is NAN for x in items) and all(x is NAN or is_num(x) for x in items):
            # NaN entries: value irrelevant, element marked non-finite
            nanpos = [k for k, x in enumerate(items) if x is NAN]
            vals = [z3.RealVal(0) if x is NAN else real(x) for x in items]
            out = np_array(ex, [tuple(vals)], kw, st)
            out.kind = 'real'
            out.finite = lambda idx, nanpos=nanpos: z3.And(*[num_term(idx[0]) != k for k in nanpos])
            return out
        if all(is_num(x) for x in items):
            kind = 'real' if any(is_reallike(x) for x in items) else 'int'

            def fn(idx, items=items):
                i = idx[0]
                c = concrete(i)
                if c is not None:
                    return items[c]
                r = items[-1]
                for k in range(len(items) - 2, -1, -1):
                    r = ex.ite(num_term(i) == k, items[k], r)
                return r
            return SArr((len(items),), fn, kind)
        if items and all(isinstance(x, (tuple, list)) for x in items):
            rows = [list(x) for x in items]

            def fn2(idx, rows=rows):
                i, j = concrete(idx[0]), concrete(idx[1])
                if i is None or j is None:
                    r = rows[-1][-1]
                    for a in range(len(rows) - 1, -1, -1):
                        for b in range(len(rows[a]) - 1, -1, -1):
                            if (a, b) == (len(rows) - 1, len(rows[-1]) - 1):
                                continue
                            r = ex.ite(z3.And(num_term(idx[0]) == a, num_term(idx[1]) == b),
                                       rows[a][b], r)
                    return r
                return rows[i][j]
            return SArr((len(rows), len(rows[0])), fn2, 'real')
    raise Unsupported('np.array of this value')


def np_prod(ex, args, kw, st):
    v = args[0]
    if isinstance(v, (tuple, list)) and all(is_num(x) for x in v) and not kw:
        r = 1
        for x in v:
            r = ex.binop(ast.Mult(), r, x, st)
        return r
    raise Unsupported('np.prod of this value')


def np_asarray(ex, args, kw, st):
    """np.asarray / asanyarray: the array itself (no copy) for arrays, a new array for tuples and
    lists of numbers."""
    v = args[0]
    if isinstance(v, (tuple, list)) and v and all(is_num(x) for x in v):
        return np_array(ex, [v], {}, st)
    return np_identity(ex, args, kw, st)


def np_atleast_1d(ex, args, kw, st):
    v = args[0]
    if isinstance(v, (SArr, SSeq)):
        return v
    return np_array(ex, [[v]], kw, st)


def np_transpose(ex, args, kw, st):
    v = args[0]
    if isinstance(v, (tuple, list)) and len(v) == 2 and all(isinstance(x, SSeq) for x in v):
        a, b = v
        return SArr((a.length, 2), lambda idx: ex.ite(num_term(idx[1]) == 0, a.fn(idx[0]),
                                                      b.fn(idx[0])), a.kind)
    if isinstance(v, SArr) and v.ndim == 2:
        return SArr((v.shape[1], v.shape[0]), lambda idx, f=snap(v): f((idx[1], idx[0])), v.kind)
    raise Unsupported('np.transpose')


def p_warn(ex, args, kw, st):
    return None


def p_interp(name):
    """External interpolator constructors: an opaque callable record holding its arguments
    (assumed contract: PCHIP interpolates its knots; nothing else is used)."""
    def g(ex, args, kw, st):
        return SObj('callable:' + name, {'x': args[0], 'y': args[1], **kw})
    return g


def np_clip(ex, args, kw, st):
    x, lo, hi = args[:3]
    if isinstance(x, (SArr, SSeq)):
        raise Unsupported('np.clip of an array')
    a, l_ = coerce2(x, lo)
    r = z3.If(a < l_, l_, a)
    r, h = coerce2(r, hi)
    return z3.If(r > h, h, r)


def np_ndim(ex, args, kw, st):
    v = args[0]
    if isinstance(v, SArr):
        return v.ndim
    if isinstance(v, SSeq):
        return 1
    return 0


def p_sum(ex, args, kw, st):
    v = args[0]
    items = ex.concrete_iter(v)
    if items is None:
        raise Unsupported('sum of symbolic iterable')
    r = 0
    for x in items:
        r = ex.binop(ast.Add(), r, x, st)
    return r


def p_all_py(ex, args, kw, st):
    items = ex.concrete_iter(args[0])
    if items is None:
        return np_all(ex, args, kw, st)
    return z3.simplify(z3.And(*[to_bool(x) for x in items])) if items else True


def p_any_py(ex, args, kw, st):
    items = ex.concrete_iter(args[0])
    if items is None:
        return np_any(ex, args, kw, st)
    return z3.simplify(z3.Or(*[to_bool(x) for x in items])) if items else False


def p_round_unsupported(ex, args, kw, st):
    raise Unsupported('round()')


# ---- contract-language helpers ------------------------------------------------------------
def cl_implies(ex, args, kw, st):
    a, b = args
    return z3.Implies(to_bool(a), to_bool(b))


def cl_iff(ex, args, kw, st):
    a, b = args
    return to_bool(a) == to_bool(b)


def cl_forall(ex, args, kw, st):
    """forall(lambda i, j: body, (lo, hi), (lo, hi))  -- bounds optional (None = unbounded)."""
    from .symexec import fresh
    fn = args[0]
    ranges = list(args[1:])
    import inspect
    n = len(ranges) if ranges else 1
    names = getattr(fn, 'argnames', None)
    # a real quantifier in every position: z3 skolemises per polarity itself (a manual skolem
    # constant would be unsound under negation, e.g. inside iff(...))
    skolem = getattr(ex, 'polarity', 0) == 1 and ex.goal_mode
    if skolem:
        # positive position of a goal: "for all i" is proved for fresh constants i; facts and
        # obligations produced while reading element i of lazily evaluated sequences are then
        # about ordinary constants (ex.polarity is reset so nested quantifiers stay quantifiers
        # unless they too are positive)
        vs = [fresh('sk', 'int') for k in range(n)]
    else:
        vs = [z3.Int(f'bv!{next(_bv)}') for k in range(n)]
    guard = []
    for v, r in zip(vs, ranges):
        if r is None:
            continue
        lo, hi = r
        if lo is not None:
            guard.append(v >= num_term(lo))
        if hi is not None:
            guard.append(v < num_term(hi))
    if skolem:
        from .symexec import SINK
        if SINK and guard:
            SINK[-1].guard_stack.append(z3.And(*guard))
            try:
                body = to_bool(fn.fn(*vs))
            finally:
                SINK[-1].guard_stack.pop()
        else:
            body = to_bool(fn.fn(*vs))
        return z3.Implies(z3.And(*guard), body) if guard else body
    body = to_bool(fn.fn(*vs))
    f = z3.Implies(z3.And(*guard), body) if guard else body
    return z3.ForAll(vs, f)


def cl_exists(ex, args, kw, st):
    """exists(lambda k: body, (lo, hi), ...): bounded existential over integers."""
    fn = args[0]
    ranges = list(args[1:])
    n = len(ranges) if ranges else 1
    vs = [z3.Int(f'bv!{next(_bv)}') for k in range(n)]
    guard = []
    for v, r in zip(vs, ranges):
        if r is None:
            continue
        lo, hi = r
        if lo is not None:
            guard.append(v >= num_term(lo))
        if hi is not None:
            guard.append(v < num_term(hi))
    pol = getattr(ex, 'polarity', 0)
    ex.polarity = 0
    try:
        body = to_bool(fn.fn(*vs))
    finally:
        ex.polarity = pol
    return z3.Exists(vs, z3.And(*(guard + [body])))


def cl_forall_real(ex, args, kw, st):
    """forall_real(lambda a, b: body): unbounded quantifier over reals (mathematical lemmas about
    uninterpreted functions, e.g. monotonicity of erf)."""
    fn = args[0]
    n = len(getattr(fn, 'argnames', None) or [0])
    vs = [z3.Real(f'bv!{next(_bv)}') for _ in range(n)]
    return z3.ForAll(vs, to_bool(fn.fn(*vs)))


def cl_isfinite_at(ex, args, kw, st):
    """isfinite_at(arr, i, j): the per-element finiteness predicate of a symbolic input array."""
    a = ex.unwrap(args[0], st, 'isfinite_at')
    idx = tuple(args[1:])
    pred = snap_finite(a)
    if pred is None:
        return True
    return pred(idx)


def cl_is_none(ex, args, kw, st):
    return args[0] is None


def cl_is_int(ex, args, kw, st):
    return is_intlike(args[0])


def cl_ite(ex, args, kw, st):
    return ex.ite(args[0], args[1], args[2])


def cl_sq(ex, args, kw, st):
    x = real(args[0])
    return x * x


def cl_uf(name):
    def g(ex, args, kw, st):
        return uf(name, len(args))(*[real(a) for a in args])
    return g


TABLE = {
    'math.floor': p_floor, 'math.ceil': p_ceil, 'np.floor': np_floor, 'np.ceil': np_ceil, 'np.round': np_round, 'np.rint': np_round,
    'np.around': np_round,
    'floor': p_floor, 'ceil': p_ceil,
    'int': p_int, 'float': p_float, 'bool': p_bool, 'abs': p_abs, 'np.abs': p_abs,
    'np.fabs': p_abs, 'fabs': p_abs, 'math.fabs': p_abs,
    'min': p_min, 'max': p_max, 'len': p_len, 'getattr': p_getattr, 'isinstance': p_isinstance, 'slice': p_slice,
    'tuple': p_tuple, 'list': p_list, 'set': p_set, 'sorted': p_sorted, 'np.insert': np_insert, 'np.isscalar': np_isscalar, 'hasattr': p_hasattr,
    'np.maximum': np_maxmin2('maximum'), 'np.minimum': np_maxmin2('minimum'), 'np.max': np_extremum('max'), 'np.min': np_extremum('min'),
    'np.amax': np_extremum('max'), 'np.amin': np_extremum('min'), 'np.searchsorted': np_searchsorted, 'zip': p_zip, 'range': p_range, 'enumerate': p_enumerate,
    'sum': p_sum, 'all': p_all_py, 'any': p_any_py, 'round': p_round_unsupported,
    'math.sqrt': p_sqrt, 'np.sqrt': p_sqrt, 'sqrt': p_sqrt,
    'math.sin': p_sin, 'np.sin': p_sin, 'sin': p_sin,
    'math.cos': p_cos, 'np.cos': p_cos, 'cos': p_cos,
    'math.exp': p_uf1('exp', _exp_facts), 'np.exp': p_uf1('exp', _exp_facts),
    'exp': p_uf1('exp', _exp_facts),
    'erf': p_uf1('erf', _erf_facts), 'math.erf': p_uf1('erf', _erf_facts),
    'asin': p_uf1('asin', _asin_facts), 'math.asin': p_uf1('asin', _asin_facts),
    'np.arcsin': p_uf1('asin', _asin_facts),
    'np.hypot': p_hypot, 'math.hypot': p_hypot,
    'np.isfinite': p_isfinite, 'np.isnan': p_isnan,
    'np.subtract': np_arith(ast.Sub), 'np.add': np_arith(ast.Add),
    'np.multiply': np_arith(ast.Mult),
    'np.logical_and': np_logical('and'), 'np.logical_or': np_logical('or'),
    'np.logical_not': np_logical('not'),
    'np.zeros': np_zeros(0), 'np.ones': np_zeros(1), 'np.zeros_like': np_zeros(0, True),
    'np.ones_like': np_zeros(1, True), 'np.full': np_full, 'np.where': np_where,
    'np.asarray': np_asarray, 'np.asanyarray': np_asarray, 'np.copy': np_copy,
    'np.array': np_array, 'np.atleast_1d': np_atleast_1d, 'np.transpose': np_transpose,
    'np.count_nonzero': np_count_nonzero, 'np.sum': np_sum, 'np.nansum': np_sum, 'np.any': np_any, 'np.nonzero': np_nonzero, 'np.all': np_all,
    'np.diff': np_diff, 'np.argmax': np_argmax_first_true,
    'PchipInterpolator': p_interp('PchipInterpolator'), 'np.ndim': np_ndim,
    'forall_real': cl_forall_real, 'np.prod': np_prod, 'np.unique': np_unique, 'np.argsort': np_argsort, 'np.arange': np_arange, 'np.broadcast_to': np_broadcast_to, 'np.atleast_2d': np_atleast_2d, 'np.clip': np_clip, 'spline': cl_uf('spline'),
    'np.deg2rad': p_uf1('deg2rad'), 'deg2rad_': cl_uf('deg2rad'), 'exp_': cl_uf('exp'),
    'erf_': cl_uf('erf'), 'sin_': cl_uf('sin'), 'cos_': cl_uf('cos'), 'sqrt_': cl_uf('sqrt'), 'asin_': cl_uf('asin'),
    'pi_': None,
    'np.float32': np_identity, 'np.float64': np_identity,
    'warnings.warn': p_warn, 'warnings.simplefilter': p_warn, 'warnings.filterwarnings': p_warn,
    # contract language
    'implies': cl_implies, 'iff': cl_iff, 'forall': cl_forall, 'exists': cl_exists, 'is_none': cl_is_none,
    'is_int': cl_is_int, 'ite': cl_ite, 'sq': cl_sq, 'isfinite_at': cl_isfinite_at,
    'sel': cl_part('pred'), 'val': cl_part('val'), 'shape_of': cl_shape_of, 'is_nan': cl_is_nan,
    'kind_of': cl_kind_of,
}
for _e in ('ValueError', 'TypeError', 'IndexError', 'KeyError', 'NotImplementedError',
           'RuntimeError', 'AstropyUserWarning', 'NoDetectionsWarning'):
    TABLE[_e] = p_exc(_e)

NUMPY_MODEL = sorted(k for k in TABLE if k.startswith(('np.', 'math.')))


def _pi(ex, args, kw, st):
    pi = z3.Real('pi')
    st.fact(z3.And(pi > z3.RealVal('3.14159'), pi < z3.RealVal('3.1416')))
    return pi


TABLE['pi_'] = _pi


_STR_CODES = {}


def str_code(s_):
    """Distinct integer for every distinct string constant (strings as arguments of
    uninterpreted specification functions)."""
    if s_ not in _STR_CODES:
        _STR_CODES[s_] = len(_STR_CODES) + 1
    return _STR_CODES[s_]


def cl_code(ex, args, kw, st):
    v = args[0]
    if isinstance(v, str):
        return str_code(v)
    if v is None:
        return 0
    if is_num(v):
        return v
    raise Unsupported('code_ of a non-constant string')


def cl_id(ex, args, kw, st):
    """id_(x): identity token of the memory of an array (0 for None): lets a specification say
    "the same array object was passed on"."""
    v = args[0]
    if v is None:
        return 0
    if isinstance(v, SArr) and content_token(v) is not None:
        t = content_token(v)
        st.fact(t >= 1)
        return t
    if isinstance(v, SArr):
        # a freshly computed array: some identity, nothing known about it (so it can never be
        # *proved* to be one of the caller's arrays)
        if getattr(v, '_tok', None) is None:
            v._tok = fresh_int('arrid_fresh')
        st.fact(v._tok >= 1)
        return v._tok
    raise Unsupported('id_ of a value without identity')


def _record(ex, args, kw, st):
    """record_('Class', field=value, ...): a record value in contract text (no constructor run)."""
    return SObj(args[0], dict(kw))


TABLE['record_'] = _record
for _n in ('apsum', 'aperr', 'aparea', 'modelimg', 'apvalues', 'bkgest', 'apphot', 'cgrid', 'egrid', 'rgrid', 'modelval',
           'apmask', 'medfilt', 'selfilt'):
    TABLE[_n + '_'] = cl_uf(_n)


def cl_code_psf(ex, args, kw, st):
    """code_psf_(shape): an injective real code of an optional pair (None -> 0)."""
    v = args[0]
    if isinstance(v, SOpt):
        return z3.If(v.none_if, z3.RealVal(0), cl_code_psf(ex, [v.value], kw, st))
    if v is None:
        return z3.RealVal(0)
    if isinstance(v, tuple) and len(v) == 2:
        return uf('pair_code', 2)(real(v[0]), real(v[1]))
    raise Unsupported('code_psf_ of this value')


TABLE['code_psf_'] = cl_code_psf
TABLE['id_'] = cl_id
TABLE['code_'] = cl_code


def lookup(name):
    return TABLE.get(name)


def list_method(ex, lst, meth, args, st):
    if meth == 'append':
        lst.append(args[0])
        return None
    if meth == 'extend':
        lst.extend(args[0])
        return None
    if meth == 'copy':
        return list(lst)
    if meth == 'index':
        return lst.index(args[0])
    raise Unsupported(f'list.{meth}')


def dict_method(ex, d, meth, args, kw, st):
    if meth == 'get':
        return d.get(concrete(args[0]), args[1] if len(args) > 1 else None)
    if meth == 'items':
        return list(d.items())
    if meth == 'keys':
        return list(d.keys())
    if meth == 'values':
        return list(d.values())
    if meth == 'copy':
        return dict(d)
    if meth == 'pop':
        return d.pop(concrete(args[0]), *(args[1:]))
    if meth == 'update':
        for a in args:
            if not isinstance(a, dict):
                raise Unsupported('dict.update with a non-dict')
            d.update(a)
        d.update(kw)
        return None
    raise Unsupported(f'dict.{meth}')


def arr_method(ex, v, meth, args, kw, st):
    if meth == 'copy':
        return np_copy(ex, [v], kw, st)
    if meth == 'nonzero' and not args and not kw:
        return np_nonzero(ex, [v], {}, st)
    if meth in ('ravel', 'flatten') and isinstance(v, SArr) and not args and not kw:
        # every element, as a flat collection (the order is not modelled: a bag)
        out = SBag(v.shape, lambda p: True, snap(v), v.kind)
        out.all_selected = True
        return out
    if meth == 'any':
        return agg_any(ex, v, st)
    if meth == 'all':
        return agg_all(ex, v, st)
    if meth == 'astype':
        t = args[0]
        kind = t[1].split('.')[-1] if isinstance(t, tuple) else str(t)
        kind = {'bool': 'bool', 'int': 'int', 'float': 'real'}.get(kind, 'real')
        if isinstance(v, SArr):
            if kind == 'real':
                out = SArr(v.shape, lambda idx, f=snap(v): real(f(idx)), 'real')
                out.finite = snap_finite(v)       # a float copy keeps the non-finite elements
                if v.kind in ('real', 'int'):
                    out._copy_tok = content_token(v)      # same values
                return out
            if kind == 'bool':
                out = SArr(v.shape, lambda idx, f=snap(v): to_bool(f(idx)), 'bool')
                if v.kind == 'bool':
                    out._copy_tok = content_token(v)
                return out
            if kind == 'int':
                # C-style truncation toward zero of every element
                return SArr(v.shape, lambda idx, f=snap(v): p_int(ex, [f(idx)], {}, st), 'int')
        raise Unsupported('astype')
    if meth == 'sum':
        return np_sum(ex, [v], kw, st)
    if meth in ('max', 'min') and isinstance(v, SSeq) and v.kind in ('int', 'real'):
        # extremum of a non-empty finite sequence: an element that bounds all the others
        from .symexec import fresh
        n = num_term(v.length)
        st.check(f'{meth}() of a non-empty sequence', n >= 1)
        r = fresh(meth, v.kind)
        w = fresh(meth + '_at', 'int')
        k = z3.Int(f'bv!{next(_bv)}')
        cmp = (lambda a, b: a >= b) if meth == 'max' else (lambda a, b: a <= b)
        st.fact(z3.Implies(n >= 1, z3.And(w >= 0, w < n, num_term(v.fn(w)) == r)))
        st.fact(z3.ForAll([k], z3.Implies(z3.And(k >= 0, k < n), cmp(r, num_term(v.fn(k))))))
        return r
    if meth == 'swapaxes':
        a, b = concrete(args[0]), concrete(args[1])
        if not isinstance(v, SArr) or v.ndim != 2 or a is None or b is None:
            raise Unsupported('swapaxes of this value')
        if a % 2 == b % 2:
            return v                       # swapping an axis with itself: the same view
        from .symexec import SwapStore, view_of
        if v.store is None or any(not k for k in v.keep) \
                or any(concrete(o) != 0 for o in v.off):
            raise Unsupported('swapaxes of a partial view')
        return view_of(SwapStore(v.store))
    raise Unsupported(f'array method {meth}')
