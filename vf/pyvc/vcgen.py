"""Obligation generation for one contract: extract the real function, run it symbolically,
build the verification conditions and discharge them."""
import ast
import itertools
import os
import time

import z3

from ..common import DISCHARGED, ERROR, LOST, REFUTED, REPO, UNKNOWN, Obligation, src_hash
from . import solve
from .contracts import make_symbolic
from .symexec import Executor, State
from .values import (SArr, SObj, SSeq, SSlice, Unsupported, concrete, is_z3, model_value, to_bool)


def load_source(c, repo=REPO, override=None):
    path = os.path.join(repo, c.file)
    if override is not None:
        text = override
    else:
        if not os.path.exists(path):
            return None, None
        text = open(path).read()
    if c.file.endswith('.pyx'):
        from .pyx_pre import pyx_to_py
        text = pyx_to_py(text)
    return text, path


def find_function(tree, qualname):
    """`Class.attr` is the first definition (the getter of a property); `Class.attr.setter` the
    definition decorated with `@attr.setter`."""
    parts = qualname.split('.')
    want_setter = parts[-1] == 'setter' and len(parts) >= 2
    if want_setter:
        parts = parts[:-1]
    body = tree.body
    node = None
    for i, p in enumerate(parts):
        found = None
        for n in body:
            if isinstance(n, (ast.FunctionDef, ast.ClassDef)) and n.name == p:
                if want_setter and i == len(parts) - 1 and isinstance(n, ast.FunctionDef) \
                        and not any(isinstance(d, ast.Attribute) and d.attr == 'setter'
                                    for d in n.decorator_list):
                    continue
                found = n
                break
        if found is None:
            return None
        node = found
        body = found.body
    return node if isinstance(node, ast.FunctionDef) else None


def module_constants(tree):
    """Module-level NAME = <numeric literal expr> assignments (e.g. FWHM_TO_SIGMA)."""
    out = {}
    for n in tree.body:
        if isinstance(n, ast.Assign) and len(n.targets) == 1 and isinstance(n.targets[0], ast.Name):
            try:
                v = ast.literal_eval(n.value)
            except Exception:
                if _is_pi_arith(n.value):
                    out[n.targets[0].id] = ('constexpr', n.value)
                continue
            if isinstance(v, (int, float, str, tuple)):
                out[n.targets[0].id] = v
    return out


def _is_pi_arith(node):
    """Arithmetic over numeric literals and np.pi / math.pi only (PI2 = np.pi / 2)."""
    if isinstance(node, ast.Constant):
        return isinstance(node.value, (int, float)) and not isinstance(node.value, bool)
    if isinstance(node, ast.Attribute):
        return isinstance(node.value, ast.Name) and node.value.id in ('np', 'math', 'numpy') \
            and node.attr == 'pi'
    if isinstance(node, ast.BinOp) and isinstance(node.op, (ast.Add, ast.Sub, ast.Mult, ast.Div)):
        return _is_pi_arith(node.left) and _is_pi_arith(node.right)
    if isinstance(node, ast.UnaryOp) and isinstance(node.op, (ast.USub, ast.UAdd)):
        return _is_pi_arith(node.operand)
    return False


def leaves(name, v, acc):
    """Collect (path, term) for the symbolic leaves of an input value."""
    if is_z3(v):
        acc.append((name, v))
    elif isinstance(v, SObj):
        for k, x in v.fields.items():
            leaves(f'{name}.{k}', x, acc)
    elif isinstance(v, (tuple, list)):
        for i, x in enumerate(v):
            leaves(f'{name}[{i}]', x, acc)
    elif isinstance(v, SSlice):
        leaves(f'{name}.start', v.start, acc)
        leaves(f'{name}.stop', v.stop, acc)
    elif isinstance(v, SSeq):
        leaves(f'{name}.len', v.length, acc)
        acc.append((f'{name}.seq', v))
    elif isinstance(v, SArr):
        for k, d in enumerate(v.shape):
            leaves(f'{name}.shape[{k}]', d, acc)
        acc.append((f'{name}.arr', v))


def model_to_json(m, inputs, maxlen=8):
    out = {}
    for path, t in inputs:
        if isinstance(t, SSeq):
            n = model_value(m, t.length)
            if isinstance(n, int) and 0 <= n <= maxlen:
                out[path] = [_js(model_value(m, to_term(t.fn(z3.IntVal(i))))) for i in range(n)]
            continue
        if isinstance(t, SArr):
            dims = [model_value(m, d) for d in t.shape]
            if all(isinstance(d, int) and 0 <= d <= maxlen for d in dims) and len(dims) == 2:
                out[path] = [[_js(model_value(m, to_term(t.fn((z3.IntVal(i), z3.IntVal(j))))))
                              for j in range(dims[1])] for i in range(dims[0])]
            continue
        out[path] = _js(model_value(m, t))
    return out


def to_term(v):
    from .values import to_z3
    return to_z3(v)


def _js(v):
    from fractions import Fraction
    if isinstance(v, Fraction):
        return {'frac': f'{v.numerator}/{v.denominator}', 'float': float(v)}
    return v


def _jsonable_spec(spec, reg):
    """A type spec as JSON-able data, record names expanded to their fields (for replay)."""
    if spec is None or isinstance(spec, (int, float, bool)):
        return spec
    if isinstance(spec, str):
        if spec in reg.records:
            return ['record', spec, {f: _jsonable_spec(t, reg) for f, t in reg.records[spec].items()}]
        return spec
    if isinstance(spec, dict):
        return {k: _jsonable_spec(v, reg) for k, v in spec.items()}
    if isinstance(spec, (tuple, list)):
        if spec and spec[0] == 'const':
            import json as _j
            _j.dumps(spec[1])            # must be plain data
            return ['const', spec[1]]
        return [_jsonable_spec(x, reg) for x in spec]
    raise TypeError(f'spec {spec!r}')


_BASE_CTX = None


def _baseline_context(key):
    """Fingerprint recorded in baseline_obligations.json for the block contract `key` (None if
    the baseline has none)."""
    global _BASE_CTX
    import os as _os0
    if _os0.environ.get('VERIF_RECORD_BASELINE'):
        return None                     # tools/update_baseline.py: record, do not compare
    if _BASE_CTX is None:
        _BASE_CTX = {}
        try:
            from ..common import VERIF
            import json as _json
            import os as _os
            d = _json.load(open(_os.path.join(VERIF, 'baseline_obligations.json')))
            for oid in d.get('discharged', []):
                if '/context:' in oid and oid.startswith('pyvc:'):
                    k, h = oid[len('pyvc:'):].rsplit('/context:', 1)
                    _BASE_CTX[k] = h
        except Exception:  # noqa: BLE001 - no baseline yet
            pass
    return _BASE_CTX.get(key)


def _exits_before(fdef, first_stmt):
    """Hash of the return statements of `fdef` that come before `first_stmt` in source order (not
    those of nested functions), each with the chain of `if` tests it sits under, and of the chain
    of `if` tests `first_stmt` itself sits under."""
    import hashlib
    items = []

    def walk(stmts, guards):
        for s_ in stmts:
            if s_ is first_stmt:
                items.append(('guards-of-the-block', tuple(guards)))   # the `if` tests it sits under
                return True
            if getattr(s_, 'lineno', 0) > first_stmt.lineno:
                return True
            if isinstance(s_, (ast.FunctionDef, ast.AsyncFunctionDef, ast.ClassDef)):
                continue
            if isinstance(s_, ast.Return):
                items.append((tuple(guards), ast.dump(s_.value) if s_.value is not None else ''))
            elif isinstance(s_, ast.If):
                t = ast.dump(s_.test)
                if walk(s_.body, guards + [t]) or walk(s_.orelse, guards + ['not ' + t]):
                    return True
            else:
                for fld in ('body', 'orelse', 'finalbody', 'handlers'):
                    sub = getattr(s_, fld, None)
                    if isinstance(sub, list) and sub and isinstance(sub[0], ast.stmt):
                        if walk(sub, guards):
                            return True
                    elif isinstance(sub, list):
                        for h in sub:
                            if isinstance(h, ast.ExceptHandler) and walk(h.body, guards):
                                return True
        return False
    walk(fdef.body, [])
    return hashlib.md5(repr(items).encode()).hexdigest()[:10]


class Verifier:
    def __init__(self, registry, repo=REPO, timeout_s=20):
        self.reg = registry
        self.repo = repo
        self.timeout_s = timeout_s
        self.repo_is_checked = True     # False while mutants are evaluated (source overridden)

    def verify(self, c, override_source=None):
        """Return list of Obligation for contract c."""
        t0 = time.time()
        base = f'pyvc:{getattr(c, "key", c.target)}'
        self.repo_is_checked = override_source is None
        text, path = load_source(c, self.repo, override_source)
        if text is None:
            return [Obligation(f'{base}/extract', c.props[0], 'pyvc', LOST,
                               detail=f'file {c.file} not found', functions=[c.target])]
        try:
            tree = ast.parse(text)
        except SyntaxError as e:
            return [Obligation(f'{base}/extract', c.props[0], 'pyvc', LOST,
                               detail=f'cannot parse {c.file}: {e}', functions=[c.target])]
        fdef = find_function(tree, c.qualname)
        if fdef is None:
            return [Obligation(f'{base}/extract', c.props[0], 'pyvc', LOST,
                               detail=f'{c.qualname} not found in {c.file}',
                               functions=[c.target])]
        consts = module_constants(tree)
        consts.update(c.consts)
        self.reg.current_tree = tree
        fhash = src_hash(ast.dump(fdef))
        obs = {}

        def ob(kind, text_):
            oid = f'{base}/{kind}'
            if oid not in obs:
                obs[oid] = Obligation(oid, c.props[0], 'pyvc', DISCHARGED, backend='',
                                      functions=[f'{c.target}#{fhash}'], text=text_)
            return obs[oid]

        if c.custom is not None:
            try:
                out = c.custom(self, c, fdef, consts, tree)
            except Unsupported as e:
                return [Obligation(f'{base}/subset', c.props[0], 'pyvc', LOST,
                                   detail=f'outside the verified subset: {e}',
                                   functions=[f'{c.target}#{fhash}'])]
            for o in out:
                if not o.functions:
                    o.functions = [f'{c.target}#{fhash}']
            return out
        # the in-body obligations exist for every contract (so that a body that starts to need one
        # is compared with a discharged baseline entry, not with nothing)
        ob('safety', 'in-body obligations: callee preconditions, index bounds, divisors, dtype '
                     'discipline')
        names = list(c.cases)
        combos = list(itertools.product(*[c.cases[n] for n in names])) or [()]
        cover_ok = False
        normal_paths = 0
        try:
            for combo in combos:
                case = dict(zip(names, combo))
                if c.relate:
                    r = self._verify_relational(c, fdef, consts, case, ob)
                elif c.block:
                    r = self._verify_block(c, fdef, consts, case, ob)
                elif c.stmt:
                    r = self._verify_stmt(c, fdef, consts, case, ob)
                else:
                    r = self._verify_case(c, fdef, consts, case, ob)
                cover_ok = cover_ok or r[0]
                normal_paths += r[1]
        except Unsupported as e:
            return [Obligation(f'{base}/subset', c.props[0], 'pyvc', LOST,
                               detail=f'outside the verified subset: {e}',
                               functions=[f'{c.target}#{fhash}'])]
        cov = ob('cover', 'requires is satisfiable and some path reaches a normal return')
        if not cover_ok or (normal_paths == 0 and c.ensures):
            cov.status = ERROR
            cov.detail = 'vacuous: precondition unsatisfiable or no feasible normal path'
        out = list(obs.values())
        dt = time.time() - t0
        for o in out:
            o.time_s = round(o.time_s or dt / max(1, len(out)), 4)
        return out

    def _goal(self, gex, text, est, ob, inputs, c, case):
        """Evaluate a postcondition as a goal: quantifiers in positive position are skolemised,
        and obligations raised while reading lazily evaluated elements become safety
        obligations under the reader's hypotheses."""
        from .symexec import SINK
        gex.polarity = 1
        SINK.append(est)
        nchk = len(est.lazy_checks)
        try:
            g = gex.eval_cl(text, est)
        finally:
            SINK.pop()
            gex.polarity = 0
        for lab, h2, f2 in est.lazy_checks[nchk:]:
            o = ob('safety', 'in-body obligations: callee preconditions, index bounds, divisors')
            self._discharge(o, est.hyps() + list(h2), f2, inputs, f'{lab} (element read by the '
                            'postcondition)', c, case)
        return g

    def _satisfiable(self, hyps, inputs):
        """Vacuity guard: the hypotheses have a model.  Quantified hypotheses can make the solver
        slow to *build* a model; a model of the hypotheses plus "every length / integer input is
        tiny" is a model of the hypotheses, so that easier query is tried first."""
        for hi in (1, 3):
            small = [z3.And(t >= 0, t <= hi) for path, t in inputs
                     if is_z3(t) and z3.is_int(t)]
            if small:
                r, _, _ = solve.check(list(hyps) + small, timeout_s=min(5, self.timeout_s))
                if r == 'sat':
                    return 'sat'
        r, _, _ = solve.check(list(hyps), timeout_s=self.timeout_s)
        return r

    def _param_nodes(self, fdef):
        a = fdef.args
        return [x.arg for x in a.posonlyargs + a.args + a.kwonlyargs]

    def _verify_case(self, c, fdef, consts, case, ob):
        st = State()
        ex = Executor(self.reg, consts)
        ex.loop_specs = c.loops
        inputs = []
        fparams = self._param_nodes(fdef)
        for name, spec in c.params.items():
            if name in case:
                v = case[name]
            else:
                v = make_symbolic(spec, name, self.reg, st)
            st.env[name] = v
            leaves(name, v, inputs)
        for name in c.params:
            if name not in fparams and name not in ('cls',):
                raise Unsupported(f'contract parameter {name} is not a parameter of the function')
        # defaults of parameters not mentioned by the contract
        defaults = self._defaults(fdef)
        for p in fparams:
            if p not in st.env:
                if p in defaults:
                    st.env[p] = defaults[p]
                elif p == 'cls':
                    st.env[p] = ('class', c.cls)
                else:
                    raise Unsupported(f'parameter {p} has no spec and no default')
        init_env = dict(st.env)
        # records are mutable: old_<name> is the record as it was on entry (its fields then)
        for k0, v0 in list(init_env.items()):
            if isinstance(v0, (SObj, dict)):
                from .symexec import _clone
                init_env['old_' + k0] = _clone(v0, {})      # deep: nested records as on entry
        # snapshot 'old' values of array inputs for frame postconditions
        for r in c.requires:
            st.assume(ex.eval_cl(r, st))
        pre = st.hyps()
        res = self._satisfiable(pre, inputs)
        if res != 'sat':
            return (False, 0)
        paths = ex.run_function(fdef, st, cls=c.cls)
        case_tag = ','.join(f'{k}={v!r}' for k, v in case.items())
        normal = 0
        listed_exc = {e for e, _ in c.raises}
        for pst, oc in paths:
            env0 = dict(init_env)
            # in-body checks
            for label, hyps, f in pst.checks:
                o = ob('safety', 'in-body obligations: callee preconditions, index bounds, '
                       'divisors')
                self._discharge(o, hyps, f, inputs, f'{label} [{case_tag}]', c, case)
            if oc[0] == 'raise':
                exc = oc[1]
                if exc in listed_exc:
                    for e, cond in c.raises:
                        if e != exc:
                            continue
                        o = ob(f'raises:{e}', f'raises {e} only if {cond}')
                        cst = State(env0)
                        g = ex.eval_cl(cond, cst)
                        self._discharge(o, pst.hyps(), g, inputs,
                                        f'raise {e} path [{case_tag}]', c, case)
                else:
                    o = ob('raises:unlisted', 'no exception other than the listed ones')
                    self._discharge(o, pst.hyps(), z3.BoolVal(False), inputs,
                                    f'unlisted exception {exc} [{case_tag}]', c, case)
                continue
            normal += 1
            # normal return: must not satisfy any raise condition
            for e, cond in c.raises:
                o = ob(f'raises:{e}', f'raises {e} whenever {cond}')
                cst = State(env0)
                g = ex.eval_cl(cond, cst)
                self._discharge(o, pst.hyps(), z3.Not(to_bool(g)), inputs,
                                f'normal path must have not({cond}) [{case_tag}]', c, case)
            for label, text in c.ensures:
                o = ob(f'ensures:{label}', text)
                est = State(dict(env0))
                # records are mutable: the postcondition sees this path's copy (post-state)
                for k0, v0 in env0.items():
                    v1 = pst.env.get(k0)
                    if isinstance(v0, SObj) and isinstance(v1, SObj) and v1.cls == v0.cls:
                        est.env[k0] = v1
                est.env['result'] = oc[1]
                est.env['final'] = pst.env      # post-state of locals (for frame clauses)
                est.facts = list(pst.facts)
                est.pc = list(pst.pc)
                gex = Executor(self.reg, consts)
                gex.goal_mode = True
                gex.cur_class = c.cls
                try:
                    g = self._goal(gex, text, est, ob, inputs, c, case)
                except Unsupported as e:
                    o.status = LOST if o.status == DISCHARGED else o.status
                    o.detail += f'postcondition not evaluable on this path: {e}; '
                    continue
                # facts added while evaluating the goal (sqrt axioms etc.) are sound hypotheses
                hyps = pst.hyps() + est.facts[len(pst.facts):]
                self._discharge(o, hyps, g, inputs, f'{label} [{case_tag}]', c, case)
        return (True, normal)

    def _verify_relational(self, c, fdef, consts, case, ob):
        """Relational contract by self-composition: the real function body is executed twice, on
        the inputs and on inputs derived from them by c.relate['second'] (CL expressions over
        the parameters and c.relate['extra'] variables); ensures relate `result` and `result2`.
        requires must hold for both argument vectors.  Both runs must agree on raising."""
        st = State()
        ex = Executor(self.reg, consts)
        ex.loop_specs = c.loops
        inputs = []
        fparams = self._param_nodes(fdef)
        for name, spec in list(c.params.items()) + list(c.relate.get('extra', {}).items()):
            v = case[name] if name in case else make_symbolic(spec, name, self.reg, st)
            st.env[name] = v
            leaves(name, v, inputs)
        defaults = self._defaults(fdef)
        for p in fparams:
            if p not in st.env:
                if p in defaults:
                    st.env[p] = defaults[p]
                elif p == 'cls':
                    st.env[p] = ('class', c.cls)
                else:
                    raise Unsupported(f'parameter {p} has no spec and no default')
        env1 = dict(st.env)
        env2 = dict(st.env)
        for name, text in c.relate.get('second', {}).items():
            env2[name] = ex.eval_cl(text, State(dict(env1))) if isinstance(text, str) else text
        for r in c.requires:
            st.assume(ex.eval_cl(r, st))
            s2 = State(dict(env2))
            st.assume(ex.eval_cl(r, s2))
            for f in s2.facts:
                st.fact(f)
        res = self._satisfiable(st.hyps(), inputs)
        if res != 'sat':
            return (False, 0)
        extra_names = set(c.relate.get('extra', {}))
        st1 = st.clone()
        for k in extra_names:
            st1.env.pop(k, None)
        st2 = st.clone()
        st2.env = {k: v for k, v in env2.items() if k not in extra_names}
        st2 = st2.clone()
        ex1 = Executor(self.reg, consts)
        ex1.loop_specs = c.loops
        paths1 = ex1.run_function(fdef, st1, cls=c.cls)
        ex2 = Executor(self.reg, consts)
        ex2.loop_specs = c.loops
        paths2 = ex2.run_function(fdef, st2, cls=c.cls)
        case_tag = ','.join(f'{k}={v!r}' for k, v in case.items())
        normal = 0
        for p1, oc1 in paths1:
            for p2, oc2 in paths2:
                hyps = p1.hyps() + p2.hyps()
                r1, r2 = oc1[0] == 'raise', oc2[0] == 'raise'
                if r1 or r2:
                    if r1 and r2 and oc1[1] == oc2[1]:
                        continue
                    o = ob('same-outcome', 'both runs raise the same exception or neither raises')
                    self._discharge(o, hyps, z3.BoolVal(False), inputs,
                                    f'run 1 {oc1[0]} {oc1[1] if r1 else ""} / run 2 {oc2[0]} '
                                    f'{oc2[1] if r2 else ""} [{case_tag}]', c, case)
                    continue
                s = z3.Solver()
                s.set('timeout', 2000)
                s.add(*hyps)
                if s.check() == z3.unsat:
                    continue
                normal += 1
                for label, text in c.ensures:
                    o = ob(f'ensures:{label}', text)
                    est = State(dict(env1))
                    est.env['result'] = oc1[1]
                    est.env['result2'] = oc2[1]
                    est.facts = list(p1.facts) + list(p2.facts)
                    est.pc = list(p1.pc) + list(p2.pc)
                    gex = Executor(self.reg, consts)
                    gex.goal_mode = True
                    gex.cur_class = c.cls
                    nf = len(est.facts)
                    try:
                        g = self._goal(gex, text, est, ob, inputs, c, case)
                    except Unsupported as e:
                        o.status = LOST if o.status == DISCHARGED else o.status
                        o.detail += f'postcondition not evaluable on this path pair: {e}; '
                        continue
                    self._discharge(o, hyps + est.facts[nf:], g, inputs, f'{label} [{case_tag}]',
                                    c, case)
        return (True, normal)

    def _verify_block(self, c, fdef, consts, case, ob):
        """Block contract: the statements of the real function from the first assignment of
        c.block[0] to the last assignment of c.block[1] (same statement list), executed from a
        state whose free variables are typed by c.params; ensures speak about the final values
        (plain names) and the initial ones (old_<name>)."""
        first, last = c.block[:2]
        nth = c.block[2] if len(c.block) > 2 else None   # end at the nth statement assigning `last`
        fnth = c.block[3] if len(c.block) > 3 else 0      # start at the fnth statement assigning `first`

        def assigns(stmt, name):
            tg = []
            if isinstance(stmt, ast.Assign):
                tg = stmt.targets
            elif isinstance(stmt, (ast.AugAssign, ast.AnnAssign)):
                tg = [stmt.target]
            if isinstance(stmt, ast.With):      # transparent context managers (st_With)
                return any(assigns(x, name) for x in stmt.body)
            if isinstance(stmt, ast.Try) and name == first:
                # a block may start at a try whose body makes the first assignment -- when the
                # block ends after the try (a block that lies wholly inside the try body is
                # anchored there, not at the try)
                inner = [y for y in ast.walk(stmt) if isinstance(y, ast.stmt) and y is not stmt]
                return any(assigns(x, name) for x in stmt.body) and \
                    not any(assigns(y, last) for y in inner if not isinstance(y, ast.Try))
            if isinstance(stmt, ast.Expr) and isinstance(stmt.value, ast.Call) \
                    and isinstance(stmt.value.func, ast.Attribute) \
                    and stmt.value.func.attr in ('append', 'extend') \
                    and isinstance(stmt.value.func.value, ast.Name) \
                    and stmt.value.func.value.id == name:
                return True                     # growing a list counts as assigning it
            return any(isinstance(x, ast.Name) and x.id == name for t in tg for x in ast.walk(t))
        found = None
        rename = {}
        if c.block_like and not any(isinstance(x, ast.stmt) and assigns(x, first)
                                    for x in ast.walk(fdef)):
            # the anchoring local was renamed: find the assignment whose right-hand side has the
            # recorded shape (names may be renamed consistently) and follow the new name
            pat = ast.parse(c.block_like, mode='eval').body
            for n in ast.walk(fdef):
                if isinstance(n, ast.Assign) and len(n.targets) == 1 and \
                        isinstance(n.targets[0], ast.Name):
                    m = _unify(pat, n.value, {})
                    if m is not None and len(set(m.values())) == len(m):
                        rename = dict(m)
                        rename[first] = n.targets[0].id
                        if last == first:
                            last = n.targets[0].id
                        first = n.targets[0].id
                        break
        # when the recorded shape of the first statement's right-hand side is found on an
        # assignment to `first` itself, that statement anchors the block (several statements of
        # the function may assign the name, e.g. in an outer statement list)
        anchor = None
        if c.block_like and not rename:
            pat = ast.parse(c.block_like, mode='eval').body
            for n in ast.walk(fdef):
                if isinstance(n, ast.Assign) and len(n.targets) == 1 and \
                        isinstance(n.targets[0], ast.Name) and n.targets[0].id == first and \
                        _unify(pat, n.value, {}) is not None:
                    anchor = n
                    break
        for n in ast.walk(fdef):
            for fld in ('body', 'orelse', 'finalbody'):
                lst = getattr(n, fld, None)
                if not isinstance(lst, list):
                    continue
                idx = [i for i, s_ in enumerate(lst) if isinstance(s_, ast.stmt)
                       and assigns(s_, first)]
                if anchor is not None:
                    idx = [i for i in idx if lst[i] is anchor or (
                        isinstance(lst[i], ast.With) and any(x is anchor for x in ast.walk(lst[i])))]
                if idx:
                    lo = idx[min(fnth, len(idx) - 1)] if anchor is None else idx[0]
                    his = [i for i in range(lo, len(lst))
                           if any(assigns(x, last) for x in ast.walk(lst[i])
                                  if isinstance(x, ast.stmt))]
                    if his:
                        end = his[-1] if nth is None else his[min(nth, len(his) - 1)]
                        found = lst[lo:end + 1]
                        break
            if found:
                break
        if not found:
            raise Unsupported(f'block {first}..{last} not found')
        if getattr(c, 'block_skip', 0):
            # the block proper starts after its anchor statement(s): what they compute is an input
            sk = c.block_skip
            found = found[sk:] if isinstance(sk, int) else \
                [x for i, x in enumerate(found) if i not in set(sk)]
            if not found:
                raise Unsupported(f'block {first}..{last} is empty after skipping')
        # A block contract says nothing about how control reaches the block.  Guard: the exits
        # (return statements with the tests they sit under) that precede the block are
        # fingerprinted; when they differ from the fingerprint recorded with the baseline the
        # contract is *lost* (its claim was made for another context), never silently kept.
        fp = _exits_before(fdef, found[0])
        base_fp = _baseline_context(getattr(c, 'key', c.target))
        if base_fp is not None and base_fp != fp and self.repo_is_checked:
            raise Unsupported('the exits of the function before the block changed since the '
                              'baseline: the block contract no longer speaks about this function')
        o = ob(f'context:{fp}', 'exits (returns and their guards) preceding the block: fingerprint '
               'recorded with the baseline')
        # replay recipe: the statements of the block as they stand in the real file, to be executed
        # on the counter-model's inputs in the module's own namespace
        try:
            self._block_recipe = {
                'kind': 'block', 'module': c.file[:-3].replace('/', '.'), 'qualname': c.qualname,
                'source': '\n'.join(ast.unparse(x) for x in found),
                'params': {k: _jsonable_spec(v, self.reg) for k, v in c.params.items()},
                'rename': dict(rename),
            }
        except Exception:  # noqa: BLE001 - a spec that cannot be serialised: no replay
            self._block_recipe = None
        st = State()
        ex = Executor(self.reg, consts)
        ex.cur_class = c.cls
        ex.loop_specs = c.loops
        inputs = []
        for name, spec in c.params.items():
            v = case[name] if name in case else make_symbolic(spec, name, self.reg, st)
            st.env[name] = v
            leaves(name, v, inputs)
        for r in c.requires:
            st.assume(ex.eval_cl(r, st))
        # renamed locals: the code reads the new names
        for k, actual in rename.items():
            if k in st.env and actual != k:
                st.env[actual] = st.env.pop(k)
        res = self._satisfiable(st.hyps(), inputs)
        if res != 'sat':
            return (False, 0)
        # initial values (arrays: snapshot of the element function) for frame / relation clauses
        from .values import SArr as _SArr, snap as _snap, snap_finite as _sf
        olds = {}
        inputs_alias = {}
        for k, v in list(st.env.items()):
            if isinstance(v, _SArr):
                o = _SArr(v.shape, _snap(v), v.kind)
                o.finite = _sf(v)
                olds['old_' + k] = o
                inputs_alias['__input_' + k] = v   # the caller's array itself (sees later writes)
            else:
                olds['old_' + k] = v
        # aliases live in the state so that path forks (which clone stores) keep them coherent
        st.env.update(inputs_alias)
        normal = 0
        case_tag = ','.join(f'{k}={v!r}' for k, v in case.items())
        for pst, oc in ex.exec_block(found, st):
            for label, hyps, f in pst.checks:
                o = ob('safety', 'in-body obligations: callee preconditions, index bounds')
                self._discharge(o, hyps, f, inputs, f'{label} [{case_tag}]', c, case)
            if oc[0] not in ('fall', 'continue'):
                continue
            normal += 1
            for label, text in c.ensures:
                o = ob(f'ensures:{label}', text)
                est = State(dict(pst.env))
                est.env.update(olds)
                # a block inside a loop body may end an iteration early: the postcondition can
                # tell the two ways of leaving the block apart
                est.env['leaves_by_continue'] = (oc[0] == 'continue')
                est.count_aggs = list(pst.count_aggs)
                for k in inputs_alias:
                    est.env[k[len('__input_'):] + '_input'] = pst.env[k]
                # the contract text speaks with the recorded names
                for k, actual in rename.items():
                    if actual == k:
                        continue
                    for pre, suf in (('', ''), ('old_', ''), ('', '_input')):
                        if pre + actual + suf in est.env:
                            est.env[pre + k + suf] = est.env[pre + actual + suf]
                est.facts, est.pc = list(pst.facts), list(pst.pc)
                gex = Executor(self.reg, consts)
                gex.goal_mode = True
                gex.cur_class = c.cls
                g = self._goal(gex, text, est, ob, inputs, c, case)
                hyps = pst.hyps() + est.facts[len(pst.facts):]
                self._discharge(o, hyps, g, inputs, f'{label} [{case_tag}]', c, case)
        return (True, normal)

    def _verify_stmt(self, c, fdef, consts, case, ob):
        """Statement contract: the value assigned to `c.stmt` inside the real function, with its
        free variables typed by c.params, satisfies the ensures (over `value`)."""
        node = None
        cands = [n for n in ast.walk(fdef)
                 if isinstance(n, ast.Assign) and len(n.targets) == 1
                 and isinstance(n.targets[0], ast.Name) and n.targets[0].id == c.stmt]
        if cands:
            node = cands[min(c.stmt_nth, len(cands) - 1)]
            if c.stmt_like and len(cands) > 1:
                # several assignments to the name (e.g. a default before the real one): take the
                # one whose right-hand side has the recorded shape
                pat0 = ast.parse(c.stmt_like, mode='eval').body
                for n in cands:
                    if _unify(pat0, n.value, {}) is not None:
                        node = n
                        break
        rename = {}
        if node is None and c.stmt_like:
            # the local may have been renamed: find the assignment whose right-hand side has the
            # recorded shape up to a consistent (injective) renaming of names
            pat = ast.parse(c.stmt_like, mode='eval').body
            for n in ast.walk(fdef):
                if isinstance(n, ast.Assign) and len(n.targets) == 1 and \
                        isinstance(n.targets[0], ast.Name):
                    m = _unify(pat, n.value, {})
                    if m is not None and len(set(m.values())) == len(m):
                        node, rename = n, m
                        break
        if node is None:
            raise Unsupported(f'assignment to {c.stmt} not found')
        # same context guard as for block contracts: the exits preceding the statement
        fp = _exits_before(fdef, node)
        base_fp = _baseline_context(getattr(c, 'key', c.target))
        if base_fp is not None and base_fp != fp and self.repo_is_checked:
            raise Unsupported('the exits of the function before the statement changed since the '
                              'baseline: the statement contract no longer speaks about this function')
        ob(f'context:{fp}', 'exits (returns and their guards) preceding the statement: fingerprint '
           'recorded with the baseline')
        try:
            self._block_recipe = {
                'kind': 'block', 'module': c.file[:-3].replace('/', '.'), 'qualname': c.qualname,
                'source': ast.unparse(node), 'value_name': node.targets[0].id,
                'params': {k: _jsonable_spec(v, self.reg) for k, v in c.params.items()},
                'rename': dict(rename) if isinstance(rename, dict) else {},
            }
        except Exception:  # noqa: BLE001
            self._block_recipe = None
        st = State()
        ex = Executor(self.reg, consts)
        ex.cur_class = c.cls
        inputs = []
        for name, spec in c.params.items():
            v = case[name] if name in case else make_symbolic(spec, name, self.reg, st)
            st.env[name] = v
            leaves(name, v, inputs)
        for cname, actual in rename.items():
            if cname in st.env and actual != cname:
                st.env[actual] = st.env[cname]
        free = {x.id for x in ast.walk(node.value) if isinstance(x, ast.Name)}
        for nm in free:
            if nm not in st.env and nm not in consts and nm not in ('np', 'math', 'u', 'True', 'False', 'None', 'float',
                                                                     'int', 'bool', 'len', 'abs', 'min', 'max',
                                                                     'slice', 'tuple', 'list', 'set', 'sorted', 'sum',
                                                                     'range', 'zip', 'enumerate', 'round', 'all', 'any'):
                raise Unsupported(f'free variable {nm} of the statement has no type in the '
                                  'contract')
        env0 = dict(st.env)
        for r in c.requires:
            st.assume(ex.eval_cl(r, st))
        res = self._satisfiable(st.hyps(), inputs)
        if res != 'sat':
            return (False, 0)
        normal = 0
        case_tag = ','.join(f'{k}={v!r}' for k, v in case.items())
        for s2, v in ex.eval(node.value, st):
            if isinstance(s2, tuple):
                continue
            normal += 1
            for label, hyps, f in s2.checks:
                o = ob('safety', 'in-body obligations: callee preconditions, index bounds')
                self._discharge(o, hyps, f, inputs, f'{label} [{case_tag}]', c, case)
            for label, text in c.ensures:
                o = ob(f'ensures:{label}', f'at `{c.stmt} = {ast.unparse(node.value)}`: {text}')
                est = State(dict(env0))
                est.env['value'] = v
                est.facts, est.pc = list(s2.facts), list(s2.pc)
                gex = Executor(self.reg, consts)
                gex.goal_mode = True
                gex.cur_class = c.cls
                g = self._goal(gex, text, est, ob, inputs, c, case)
                hyps = s2.hyps() + est.facts[len(s2.facts):]
                self._discharge(o, hyps, g, inputs, f'{label} [{case_tag}]', c, case)
        return (True, normal)

    def _defaults(self, fdef):
        a = fdef.args
        out = {}
        pos = a.posonlyargs + a.args
        for p, d in zip(pos[len(pos) - len(a.defaults):], a.defaults):
            try:
                out[p.arg] = ast.literal_eval(d)
            except Exception:
                pass
        for p, d in zip(a.kwonlyargs, a.kw_defaults):
            if d is not None:
                try:
                    out[p.arg] = ast.literal_eval(d)
                except Exception:
                    pass
        return out

    def _discharge(self, o, hyps, goal, inputs, what, c, case):
        if o.status in (REFUTED,):
            return
        goal = to_bool(goal)
        t0 = time.time()
        res, model, backend = solve.check(list(hyps) + [z3.Not(goal)], timeout_s=self.timeout_s,
                                          want_model=True, tag=o.oid)
        o.time_s += time.time() - t0
        if backend and backend not in o.backend.split('+'):
            o.backend = (o.backend + '+' + backend).strip('+')
        if res == 'unsat':
            return
        if res == 'sat':
            # prefer a small counter-model (shapes <= 6, other integers within +-12) for replay
            for cap in (3, 6):
                small = []
                for path, t in inputs:
                    if is_z3(t) and z3.is_int(t):
                        if 'shape' in path or path.endswith('.len'):
                            small.append(z3.And(t >= 0, t <= cap))
                        else:
                            small.append(z3.And(t >= -12, t <= 12))
                if not small:
                    break
                r2, m2, _ = solve.check(list(hyps) + [z3.Not(goal)] + small, timeout_s=5,
                                        want_model=True, tag=o.oid + f'_small{cap}')
                if r2 == 'sat' and m2 is not None:
                    model = m2
                    break
            o.status = REFUTED
            o.detail = f'counter-model for: {what}'
            try:
                o.model = model_to_json(model, inputs) if model is not None else {}
            except Exception as e:  # model extraction must not mask the refutation
                o.model = {'_error': str(e)}
            o.model['_case'] = {k: v for k, v in case.items()}
            if (c.block or c.stmt) and getattr(self, '_block_recipe', None) and not c.replay:
                o.replay = dict(self._block_recipe)
                o.replay['ensures'] = [list(x) for x in c.ensures]
                o.replay['requires'] = list(c.requires)
            if c.replay:
                # a few more counter-models (different scalar inputs): uninterpreted functions
                # (sin, asin, exp ...) may make the first one an artefact that does not replay
                alts = []
                scal = [t for path, t in inputs if is_z3(t) and (z3.is_int(t) or z3.is_real(t))]
                blocks = []
                cur = model
                for _ in range(4):
                    if cur is None or not scal:
                        break
                    blocks.append(z3.Or(*[t != cur.eval(t, model_completion=True)
                                          for t in scal]))
                    # push the next model away from degenerate values
                    spread = [z3.Or(t >= 1, t <= -1) for t in scal if z3.is_real(t)][:6]
                    r3, m3, _ = solve.check(list(hyps) + [z3.Not(goal)] + blocks + spread,
                                            timeout_s=5, want_model=True, tag=o.oid + '_alt')
                    if r3 != 'sat' or m3 is None:
                        r3, m3, _ = solve.check(list(hyps) + [z3.Not(goal)] + blocks,
                                                timeout_s=5, want_model=True,
                                                tag=o.oid + '_alt')
                    if r3 != 'sat' or m3 is None:
                        break
                    try:
                        mj = model_to_json(m3, inputs)
                        mj['_case'] = {k: v for k, v in case.items()}
                        alts.append(mj)
                    except Exception:  # noqa: BLE001
                        break
                    cur = m3
                o.model['_alternatives'] = alts
                o.replay = dict(c.replay)
                o.replay['ensures'] = [list(x) for x in c.ensures]
                o.replay['raises'] = [list(x) for x in c.raises]
                o.replay['requires'] = list(c.requires)
                if c.relate:
                    o.replay['relate'] = {'second': dict(c.relate.get('second', {})),
                                          'extra': sorted(c.relate.get('extra', {}))}
            return
        if o.status == DISCHARGED:
            o.status = UNKNOWN
            o.detail = f'solver returned unknown for: {what}'


def _unify(pat, node, m):
    """Structural match of two expression ASTs where Name ids may differ consistently."""
    if isinstance(pat, ast.Name) and isinstance(node, ast.Name):
        if pat.id in m:
            return m if m[pat.id] == node.id else None
        m = dict(m)
        m[pat.id] = node.id
        return m
    if type(pat) is not type(node):
        return None
    for f in pat._fields:
        a, b = getattr(pat, f, None), getattr(node, f, None)
        if f in ('ctx', 'lineno', 'col_offset', 'end_lineno', 'end_col_offset', 'kind'):
            continue
        if isinstance(a, list):
            if not isinstance(b, list) or len(a) != len(b):
                return None
            for x, y in zip(a, b):
                if isinstance(x, ast.AST):
                    m = _unify(x, y, m)
                    if m is None:
                        return None
                elif x != y:
                    return None
        elif isinstance(a, ast.AST):
            if not isinstance(b, ast.AST):
                return None
            m = _unify(a, b, m)
            if m is None:
                return None
        elif a != b:
            return None
    return m


def run_mutants(verifier, c):
    """Built-in mutants: each textual mutation of the real source must break an obligation.

    Returns (killed, total, survivors).  The mutation is applied in memory to the text of the
    function's file (inside the function's own source segment only)."""
    text, _ = load_source(c, verifier.repo)
    if text is None or c.file.endswith('.pyx') and False:
        return 0, 0, []
    raw = open(os.path.join(verifier.repo, c.file)).read()
    tree = ast.parse(raw) if not c.file.endswith('.pyx') else None
    seg = None
    if tree is not None:
        fdef = find_function(tree, c.qualname)
        if fdef is not None:
            lines = raw.splitlines(keepends=True)
            seg = (sum(len(x) for x in lines[:fdef.lineno - 1]),
                   sum(len(x) for x in lines[:fdef.end_lineno]))
    killed, survivors, total = 0, [], 0
    # a mutant counts as killed as soon as one obligation is not discharged: the obligations a
    # mutation makes hard are not worth the full solver budget
    saved_timeout = verifier.timeout_s
    verifier.timeout_s = min(saved_timeout, 10)
    try:
        return _run_mutants(verifier, c, raw, seg, killed, survivors, total)
    finally:
        verifier.timeout_s = saved_timeout


def _run_mutants(verifier, c, raw, seg, killed, survivors, total):
    for old, new in c.mutants:
        lo, hi = seg if seg else (0, len(raw))
        body = raw[lo:hi]
        if body.count(old) < 1:
            survivors.append(f'{old!r} not found (mutant not applicable)')
            total += 1
            continue
        mutated = raw[:lo] + body.replace(old, new, 1) + raw[hi:]
        total += 1
        obs = verifier.verify(c, override_source=mutated)
        if any(o.status != DISCHARGED for o in obs):
            killed += 1
        else:
            survivors.append(f'{old!r} -> {new!r}')
    return killed, total, survivors
