"""Forward symbolic execution of real Python function ASTs into z3 terms.

The executor enumerates paths (no merging).  Each path ends in an outcome
('return', value) | ('raise', exc-name) | ('fall', None).  Along a path it collects

* ``pc``      – the branch conditions taken,
* ``facts``   – assumptions imported from callee contracts / primitive axioms,
* ``checks``  – in-body proof obligations (callee preconditions, index bounds, divisors).

Semantics assumed (stated in DESIGN.md §4.2): Python ``int`` = unbounded Int, ``float`` = Real
(A-real), ``//`` and ``%`` only with a divisor proved positive, ``math.floor/ceil`` exact,
``int(x)`` truncation, ``round`` unsupported, short-circuit ``and/or``, chained comparisons.
"""
import ast
import itertools

import z3

from .values import (SArr, SBag, SExc, SFunc, SObj, SOpt, SSeq, SSet, SSlice, SStr, Unsupported, coerce2,
                     concrete, is_bool, is_intlike, is_num, is_reallike, is_z3, num_term, snap,
                     snap_finite, to_bool, to_z3)

_fresh = itertools.count()


class _Nan:
    def __repr__(self):
        return 'NAN'


NAN = _Nan()


def fresh(name, sort='int'):
    n = f'{name}!{next(_fresh)}'
    if sort == 'int':
        return z3.Int(n)
    if sort == 'real':
        return z3.Real(n)
    if sort == 'bool':
        return z3.Bool(n)
    raise Unsupported(f'fresh sort {sort}')


# Reader states for lazily evaluated element functions: while a goal (or a later statement) reads
# element i of a mapped sequence, the facts and obligations produced for that element go to the
# state on top of this stack.
SINK = []
_fw = __import__('itertools').count()


def _collect_stores(v, acc, seen=None):
    seen = set() if seen is None else seen
    if id(v) in seen:
        return
    seen.add(id(v))
    if isinstance(v, ArrStore):
        acc[id(v)] = v
    elif isinstance(v, SArr):
        if v.store is not None:
            acc[id(v.store)] = v.store
    elif isinstance(v, SObj):
        for x in v.fields.values():
            _collect_stores(x, acc, seen)
    elif isinstance(v, dict):
        for x in v.values():
            _collect_stores(x, acc, seen)
    elif isinstance(v, (list, tuple)):
        for x in v:
            _collect_stores(x, acc, seen)


def mask_key(m):
    """Identity of a boolean mask *and* of its current contents (a store is re-keyed by writes)."""
    st = getattr(m, 'store', None)
    return (id(m), id(st.fn) if st is not None else None)


def _bag_like(bag, val, kind):
    out = SBag(bag.shape, bag.pred, val, kind)
    out.mask_id = getattr(bag, 'mask_id', None)
    return out


class State:
    def __init__(self, env=None):
        self.env = dict(env or {})
        self.pc = []
        self.facts = []
        self.checks = []   # (label, formula) evaluated under pc at that point
        self.lazy_checks = []   # obligations of code evaluated lazily while this state reads
        self.guard_stack = []   # goal evaluation: guards (quantifier ranges, implies-antecedents)
        self.trace = []
        self.count_aggs = []    # COUNT reductions given an integer value on this path

    def clone(self, memo=None):
        memo = {} if memo is None else memo
        s = State()
        s.env = {k: _clone(v, memo) for k, v in self.env.items()}
        s.pc = list(self.pc)
        s.facts = list(self.facts)
        s.count_aggs = list(self.count_aggs)
        s.checks = list(self.checks)
        s.trace = list(self.trace)
        return s

    def assume(self, f):
        f = to_bool(f)
        if not z3.is_true(f):
            self.pc.append(f)

    def fact(self, f):
        f = to_bool(f)
        if not z3.is_true(f):
            self.facts.append(f)

    def check(self, label, f):
        self.checks.append((label, list(self.pc) + list(self.facts), to_bool(f)))

    def hyps(self):
        return list(self.pc) + list(self.facts)


def _clone(v, memo):
    if isinstance(v, SObj):
        if id(v) in memo:
            return memo[id(v)]
        o = SObj(v.cls, none_if=getattr(v, 'none_if', None))
        memo[id(v)] = o
        o.fields = {k: _clone(x, memo) for k, x in v.fields.items()}
        return o
    if isinstance(v, list):
        if id(v) in memo:
            return memo[id(v)]
        o = []
        memo[id(v)] = o
        o.extend(_clone(x, memo) for x in v)
        return o
    if isinstance(v, dict):
        if id(v) in memo:
            return memo[id(v)]
        o = {}
        memo[id(v)] = o
        for k, x in v.items():
            o[k] = _clone(x, memo)
        return o
    if isinstance(v, tuple):
        return tuple(_clone(x, memo) for x in v)
    if isinstance(v, SOpt):
        return SOpt(_clone(v.value, memo), v.none_if)
    if isinstance(v, SwapStore):
        if id(v) in memo:
            return memo[id(v)]
        o = SwapStore(_clone(v.base, memo))
        memo[id(v)] = o
        return o
    if isinstance(v, ArrStore):
        if id(v) in memo:
            return memo[id(v)]
        o = ArrStore(v.shape, v.fn, v.kind, v.name)
        o.finite = v.finite
        o.frozen = getattr(v, 'frozen', False)
        o.maybe_int = getattr(v, 'maybe_int', False)
        o.tok = v.tok
        o.content_tok = getattr(v, 'content_tok', None)
        memo[id(v)] = o
        return o
    if isinstance(v, SArr) and v.store is not None:
        return SArr(v.shape, None, v.kind, _clone(v.store, memo), v.off, v.keep)
    return v


class ArrStore:
    """Memory of an array: written in place through any view of it."""

    def __init__(self, shape, fn, kind, name='arr'):
        self.shape = tuple(shape)
        self.fn = fn
        self.kind = kind
        self.name = name
        self.finite = None    # per-element finiteness predicate (None = all finite)
        self.tok = z3.Int(f'arrid!{next(_fw)}')   # identity of the memory (id_() in contracts)
        self.content_tok = None   # token of the array this memory is an unmodified copy of


class SwapStore:
    """The memory of a 2-D array seen with its two axes swapped (`a.swapaxes(0, 1)`, `a.T` as an
    lvalue): reads and in-place writes go to the base store with the indices exchanged."""

    def __init__(self, base):
        self.base = base
        self.kind = base.kind
        self.name = base.name + '.T'

    @property
    def shape(self):
        return (self.base.shape[1], self.base.shape[0])

    @property
    def fn(self):
        bf = self.base.fn
        return lambda p, bf=bf: bf((p[1], p[0]))

    @fn.setter
    def fn(self, f):
        self.base.fn = lambda q, f=f: f((q[1], q[0]))

    @property
    def finite(self):
        bf = self.base.finite
        return None if bf is None else (lambda p, bf=bf: bf((p[1], p[0])))

    @finite.setter
    def finite(self, f):
        self.base.finite = None if f is None else (lambda q, f=f: f((q[1], q[0])))

    @property
    def frozen(self):
        return getattr(self.base, 'frozen', False)

    @property
    def maybe_int(self):
        return getattr(self.base, 'maybe_int', False)


def view_of(store, off=None, shape=None):
    return SArr(shape if shape is not None else store.shape, None, store.kind, store, off)


class Executor:
    """One executor per function under verification."""

    def __init__(self, registry, module_consts=None, max_paths=4000, solver_prune=True):
        self.registry = registry          # ContractRegistry (callee contracts, records)
        self.module_consts = module_consts or {}
        self.max_paths = max_paths
        self.npaths = 0
        self.solver_prune = solver_prune
        self.cur_class = None
        self.loop_specs = {}
        self.goal_mode = False
        self.cl_mode = False
        self.polarity = 0                 # +1 while evaluating a goal in positive position

    # ------------------------------------------------------------------ statements
    def run_function(self, fdef, state, cls=None):
        self.cur_class = cls
        outs = self.exec_block(fdef.body, state)
        res = []
        for st, oc in outs:
            if oc[0] in ('return', 'raise'):
                res.append((st, oc))
            elif oc[0] == 'fall':
                res.append((st, ('return', None)))
            else:
                raise Unsupported(f'loop control {oc[0]} escapes function')
        return res

    def exec_block(self, stmts, state):
        states = [(state, ('fall', None))]
        for stmt in stmts:
            nxt = []
            for st, oc in states:
                if oc[0] != 'fall':
                    nxt.append((st, oc))
                    continue
                nxt.extend(self.exec_stmt(stmt, st))
            states = nxt
            if len(states) > self.max_paths:
                raise Unsupported('path explosion')
        return states

    def feasible(self, st):
        if not self.solver_prune:
            return True
        s = z3.Solver()
        s.set('timeout', 2000)
        s.add(*st.hyps())
        return s.check() != z3.unsat

    def exec_stmt(self, node, st):
        m = getattr(self, 'st_' + type(node).__name__, None)
        if m is None:
            raise Unsupported(f'statement {type(node).__name__} at line {node.lineno}')
        return m(node, st)

    def st_Pass(self, node, st):
        return [(st, ('fall', None))]

    def st_Import(self, node, st):
        return [(st, ('fall', None))]

    st_ImportFrom = st_Import

    def st_Expr(self, node, st):
        if isinstance(node.value, ast.Constant):  # docstring
            return [(st, ('fall', None))]
        res = []
        for s2, _v in self.eval(node.value, st):
            res.append(s2 if isinstance(s2, tuple) else (s2, ('fall', None)))
        return res

    def st_Return(self, node, st):
        if node.value is None:
            return [(st, ('return', None))]
        out = []
        for s2, v in self.eval(node.value, st):
            if isinstance(s2, tuple):
                out.append(s2)
            else:
                out.append((s2, ('return', v)))
        return out

    def st_Raise(self, node, st):
        name = 'Exception'
        if node.exc is not None:
            e = node.exc
            if isinstance(e, ast.Call):
                e = e.func
            if isinstance(e, ast.Name):
                name = e.id
            elif isinstance(e, ast.Attribute):
                name = e.attr
        return [(st, ('raise', name))]

    def st_Assert(self, node, st):
        out = []
        for s2, v in self.eval(node.test, st):
            if isinstance(s2, tuple):
                out.append(s2)
                continue
            s2.check(f'assert@{node.lineno}', v)
            s2.assume(v)
            out.append((s2, ('fall', None)))
        return out

    def st_Assign(self, node, st):
        out = []
        for s2, v in self.eval(node.value, st):
            if isinstance(s2, tuple):
                out.append(s2)
                continue
            for tgt in node.targets:
                self.assign(tgt, v, s2)
            out.append((s2, ('fall', None)))
        return out

    def st_AnnAssign(self, node, st):
        if node.value is None:
            return [(st, ('fall', None))]
        return self.st_Assign(ast.Assign(targets=[node.target], value=node.value,
                                         lineno=node.lineno), st)

    def st_AugAssign(self, node, st):
        if (isinstance(node.target, ast.Subscript)
                and not isinstance(node.target.slice, (ast.Tuple, ast.Slice, ast.Constant,
                                                       ast.Name))):
            # the index expression is evaluated once (a[expr] op= v)
            tmp = f'__augidx{node.lineno}'
            r = self.eval(node.target.slice, st)
            if len(r) != 1 or isinstance(r[0][0], tuple):
                raise Unsupported('forking index in augmented assignment')
            st = r[0][0]
            st.env[tmp] = r[0][1]
            tgt = ast.Subscript(value=node.target.value, slice=ast.Name(id=tmp, ctx=ast.Load()),
                                ctx=ast.Store())
            node = ast.AugAssign(target=ast.copy_location(tgt, node.target), op=node.op,
                                 value=node.value, lineno=node.lineno,
                                 col_offset=node.col_offset)
            ast.fix_missing_locations(node)
        load = _as_load(node.target)
        out = []
        for s2, v in self.eval(ast.BinOp(left=load, op=node.op, right=node.value), st):
            if isinstance(s2, tuple):
                out.append(s2)
                continue
            cur = None
            if isinstance(node.target, ast.Name):
                cur = s2.env.get(node.target.id)
            if isinstance(cur, SArr) and isinstance(node.target, ast.Name):
                # in-place arithmetic: writes through the array's memory (aliases see it)
                cur = self.own_store(node.target.id, s2)
                self.write_arr(cur, None, v, s2)
            else:
                self.assign(node.target, v, s2)
            out.append((s2, ('fall', None)))
        return out

    def assign(self, tgt, v, st):
        if isinstance(tgt, ast.Name):
            st.env[tgt.id] = v
        elif isinstance(tgt, (ast.Tuple, ast.List)):
            items = self.unpack(v, len(tgt.elts))
            for t, x in zip(tgt.elts, items):
                self.assign(t, x, st)
        elif isinstance(tgt, ast.Attribute):
            objs = self.eval(tgt.value, st)
            if len(objs) != 1 or isinstance(objs[0][0], tuple):
                raise Unsupported('forking attribute target')
            obj = objs[0][1]
            if not isinstance(obj, SObj):
                raise Unsupported(f'attribute store on {type(obj).__name__}')
            obj.fields[tgt.attr] = v
        elif isinstance(tgt, ast.Subscript):
            objs = self.eval(tgt.value, st)
            if len(objs) != 1 or isinstance(objs[0][0], tuple):
                raise Unsupported('forking subscript target')
            obj = objs[0][1]
            if isinstance(obj, (list, dict)):
                ks = self.eval(tgt.slice, st)
                k = concrete(ks[0][1])
                if k is None:
                    raise Unsupported('symbolic list/dict store index')
                obj[k] = v
            elif isinstance(obj, SArr):
                if obj.store is None and isinstance(tgt.value, ast.Name):
                    obj = self.own_store(tgt.value.id, st)
                idx = self.eval_index(tgt.slice, st)
                if len(idx) == obj.ndim and idx and all(
                        isinstance(k, SBag) and getattr(k, 'coord', None) == ax
                        for ax, k in enumerate(idx)):
                    # a[ys, xs] = v with the coordinates of one selection (np.nonzero, possibly
                    # narrowed): the pixels of the selection themselves are written
                    b0 = idx[0]
                    for k in idx[1:]:
                        if k.pred is not b0.pred and (getattr(k, 'mask_id', None) is None
                                                      or k.mask_id != getattr(b0, 'mask_id', None)):
                            raise Unsupported('coordinate store with different selections')
                    st.check('coordinate selection has the shape of the array written', z3.And(*[
                        num_term(x) == num_term(y) for x, y in zip(b0.shape, obj.shape)]))
                    m = SArr(b0.shape, lambda p, b0=b0: to_bool(b0.pred(p)), 'bool')
                    if isinstance(v, SBag):
                        if v.pred is not b0.pred and (getattr(v, 'mask_id', None) is None
                                                      or v.mask_id != getattr(b0, 'mask_id', None)):
                            raise Unsupported('stored values selected differently from the target')
                        v = SArr(b0.shape, v.val, v.kind)
                    elif isinstance(v, (SArr, SSeq)):
                        raise Unsupported('coordinate store of a full array')
                    self.write_arr(obj, (m,), v, st)
                    return
                self.write_arr(obj, idx, v, st)
            elif isinstance(obj, SObj) and obj.cls == '__dict__':
                ks = self.eval(tgt.slice, st)
                obj.fields[concrete(ks[0][1])] = v
            else:
                raise Unsupported(f'subscript store on {type(obj).__name__}')
        else:
            raise Unsupported(f'assignment target {type(tgt).__name__}')

    def unpack(self, v, n):
        if isinstance(v, (tuple, list)):
            if len(v) != n:
                raise Unsupported('unpack length mismatch')
            return list(v)
        if isinstance(v, SArr) and v.ndim == 1 and concrete(v.shape[0]) == n:
            return [v.fn((k,)) for k in range(n)]
        if isinstance(v, SSeq) and concrete(v.length) == n:
            return [v.fn(k) for k in range(n)]
        raise Unsupported(f'cannot unpack {type(v).__name__}')

    def st_If(self, node, st):
        out = []
        for s2, c in self.eval(node.test, st):
            if isinstance(s2, tuple):
                out.append(s2)
                continue
            out.extend(self.branch(s2, c, node.body, node.orelse))
        return out

    def branch(self, st, c, body, orelse):
        c = z3.simplify(to_bool(c))
        out = []
        if z3.is_true(c):
            return self.exec_block(body, st)
        if z3.is_false(c):
            return self.exec_block(orelse, st) if orelse else [(st, ('fall', None))]
        s_then = st.clone()
        s_then.assume(c)
        s_else = st
        s_else.assume(z3.Not(c))
        if self.feasible(s_then):
            out.extend(self.exec_block(body, s_then))
        if self.feasible(s_else):
            out.extend(self.exec_block(orelse, s_else) if orelse else [(s_else, ('fall', None))])
        self.npaths += 1
        return out

    def st_With(self, node, st):
        # warnings.catch_warnings(), np.errstate(...): no effect on values
        for item in node.items:
            name = _dotted(item.context_expr.func) if isinstance(item.context_expr, ast.Call) \
                else _dotted(item.context_expr)
            if name not in ('warnings.catch_warnings', 'np.errstate', 'numpy.errstate'):
                raise Unsupported(f'with {name}')
        return self.exec_block(node.body, st)

    def st_For(self, node, st):
        if node.orelse:
            raise Unsupported('for-else')
        outs = []
        for s2, it in self.eval(node.iter, st):
            if isinstance(s2, tuple):
                outs.append(s2)
                continue
            items = self.concrete_iter(it)
            if items is None:
                spec = self.loop_specs.get(node.lineno) or self.loop_specs.get('for')
                if spec is None and isinstance(it, SSeq):
                    try:
                        outs.append(self.map_append_loop(node, s2.clone(), it))
                    except Unsupported as e1:
                        try:
                            outs.append(self.pointwise_loop(node, s2, it))
                        except Unsupported as e2:
                            raise Unsupported(f'{e1}; as a pointwise loop: {e2}')
                    continue
                if spec is None:
                    raise Unsupported(f'for over symbolic iterable at line {node.lineno} '
                                      '(needs a loop contract)')
                outs.extend(spec(self, node, s2, it))
                continue
            states = [(s2, ('fall', None))]
            for x in items:
                nxt = []
                for s3, oc in states:
                    if oc[0] == 'break' or oc[0] in ('return', 'raise'):
                        nxt.append((s3, oc))
                        continue
                    self.assign(node.target, x, s3)
                    nxt.extend(self.exec_block(node.body, s3))
                states = [(s, ('fall', None) if oc[0] == 'continue' else oc) for s, oc in nxt]
            outs.extend((s, ('fall', None) if oc[0] == 'break' else oc) for s, oc in states)
        return outs

    def map_append_loop(self, node, st, it):
        """`for x in seq: ...; out.append(e)` over a symbolic sequence with no loop-carried state:
        every list appended to becomes the sequence k -> e(seq[k]).

        Conditions (else Unsupported): the body is straight-line (assignments to local names,
        subscript stores, and exactly one `L.append(e)` per list L, each L a concrete list
        before the loop and mentioned nowhere else in the body); every local the body writes is
        written before it is read in an iteration (such names are removed from the state before
        an iteration runs and after the loop); a trial iteration at a fresh index writes no
        array that existed before the loop and sets no attribute."""
        body = node.body
        appends = {}        # list name -> index of the statement
        written = set()
        for i, stmt in enumerate(body):
            if isinstance(stmt, ast.Expr) and isinstance(stmt.value, ast.Call) \
                    and isinstance(stmt.value.func, ast.Attribute) \
                    and stmt.value.func.attr == 'append' \
                    and isinstance(stmt.value.func.value, ast.Name) \
                    and len(stmt.value.args) == 1 and not stmt.value.keywords:
                name = stmt.value.func.value.id
                if name in appends:
                    raise Unsupported('two appends to one list in a loop body')
                appends[name] = i
                continue
            if isinstance(stmt, ast.Assign):
                for t in stmt.targets:
                    for x in ast.walk(t):
                        if isinstance(x, ast.Attribute) and isinstance(x.ctx, ast.Store):
                            raise Unsupported('attribute store in a map loop')
                    if isinstance(t, ast.Name):
                        written.add(t.id)
                    elif isinstance(t, (ast.Tuple, ast.List)):
                        for e in t.elts:
                            if not isinstance(e, ast.Name):
                                raise Unsupported('complex target in a map loop')
                            written.add(e.id)
                    elif isinstance(t, ast.Subscript) and isinstance(t.value, ast.Name):
                        pass
                    else:
                        raise Unsupported('complex target in a map loop')
                continue
            raise Unsupported(f'statement {type(stmt).__name__} in a loop over a symbolic '
                              f'sequence at line {node.lineno} (needs a loop contract)')
        if not appends:
            raise Unsupported('loop over a symbolic sequence without an append')
        for t in ast.walk(node.target):
            if isinstance(t, ast.Name):
                written.add(t.id)
        for name, i in appends.items():
            if not isinstance(st.env.get(name), list):
                raise Unsupported(f'{name} is not a concrete list before the loop')
            for j, stmt in enumerate(body):
                for x in ast.walk(stmt):
                    if isinstance(x, ast.Name) and x.id == name and not (
                            j == i and x is stmt.value.func.value):
                        raise Unsupported(f'list {name} used inside the loop body')
            if name in written:
                raise Unsupported(f'list {name} rebound inside the loop body')

        def iteration(k, base):
            memo = {}
            s2 = base.clone(memo)
            for w in written:
                s2.env.pop(w, None)
            self.assign(node.target, it.fn(k), s2)
            vals = {}
            for i, stmt in enumerate(body):
                if i in appends.values():
                    name = [n for n, j in appends.items() if j == i][0]
                    vals[name] = self.eval1(stmt.value.args[0], s2)
                    continue
                outs = self.exec_stmt(stmt, s2)
                if len(outs) != 1 or outs[0][1][0] != 'fall':
                    raise Unsupported('loop body forks or leaves the loop')
                s2 = outs[0][0]
            return s2, vals, memo

        # trial iteration at a fresh index: structure, frame and safety obligations
        k = fresh('it', 'int')
        trial_base = st.clone()
        trial_base.assume(z3.And(k >= 0, k < num_term(it.length)))
        s2, vals, memo = iteration(k, trial_base)
        # stores reachable before the loop must be untouched: compare element functions
        pre = {}
        _collect_stores(trial_base.env, pre)
        post = {}
        _collect_stores(s2.env, post)
        # (the iteration cloned trial_base: map clone -> original through memo)
        for orig_id, cl in memo.items():
            if isinstance(cl, ArrStore) and orig_id in pre:
                if cl.fn is not pre[orig_id].fn or cl.finite is not pre[orig_id].finite:
                    raise Unsupported('loop body writes an array that exists before the loop')
        for lab, hyps, f in s2.checks[len(st.checks):]:
            st.checks.append((lab, hyps, f))
        nprefix = {name: list(st.env[name]) for name in appends}
        for name in appends:
            prefix = nprefix[name]

            def fn(i, name=name, prefix=prefix):
                c = concrete(i)
                if prefix:
                    if c is None:
                        raise Unsupported('symbolic index into a list with a concrete prefix')
                    if c < len(prefix):
                        return prefix[c]
                    i = c - len(prefix)
                s3, vals3, _ = iteration(i, st_snapshot)
                sink = SINK[-1] if SINK else None
                if sink is not None:
                    for lab, hyps, f in s3.checks[len(st_snapshot.checks):]:
                        sink.lazy_checks.append((lab, list(hyps) + list(sink.guard_stack), f))
                    for f in s3.facts[len(st_snapshot.facts):]:
                        sink.facts.append(f)
                return vals3[name]
            st.env[name] = SSeq(z3.simplify(num_term(it.length) + len(prefix)), fn, 'obj')
        for w in written:
            st.env.pop(w, None)
        st_snapshot = st.clone()
        for name in appends:
            st_snapshot.env[name] = nprefix[name]
        return (st, ('fall', None))

    def pointwise_loop(self, node, st, it):
        """`for k, x in enumerate(seq): ... A[k] op= e ... L.append(e)` with branches: every
        iteration touches only slot k of the arrays it updates and appends once to each list, so
        the loop is the pointwise map k -> (new A[k], appended values).

        Conditions (else Unsupported): the iterable is enumerate(seq) with target (k, x); the body
        consists of assignments to local names, `if` statements, `A[k] = e` / `A[k] op= e` for
        array names A that occur in the body *only* in that form with exactly the counter k as
        index (so distinct iterations touch distinct slots and never read another slot), and
        `L.append(e)` for lists L that occur only so; locals are written before read in an
        iteration; on every path of an iteration each list is appended to exactly once."""
        if getattr(it, 'enumerated', False):
            if not isinstance(node.target, ast.Tuple) or len(node.target.elts) != 2 \
                    or not isinstance(node.target.elts[0], ast.Name):
                raise Unsupported('loop over enumerate(...) without a (counter, element) target')
            kname = node.target.elts[0].id
        else:
            kname = None            # plain `for x in seq`: appends only, no per-slot arrays
        arrays, lists, written = set(), set(), set()

        def scan(stmts):
            for stmt in stmts:
                if isinstance(stmt, ast.If):
                    scan(stmt.body)
                    scan(stmt.orelse)
                elif isinstance(stmt, ast.Pass):
                    pass
                elif isinstance(stmt, ast.Expr) and isinstance(stmt.value, ast.Call) \
                        and isinstance(stmt.value.func, ast.Attribute) \
                        and stmt.value.func.attr == 'append' \
                        and isinstance(stmt.value.func.value, ast.Name) \
                        and len(stmt.value.args) == 1:
                    lists.add(stmt.value.func.value.id)
                elif isinstance(stmt, (ast.Assign, ast.AugAssign)):
                    tgts = stmt.targets if isinstance(stmt, ast.Assign) else [stmt.target]
                    for t in tgts:
                        if isinstance(t, ast.Name):
                            written.add(t.id)
                        elif isinstance(t, ast.Subscript) and isinstance(t.value, ast.Name) \
                                and isinstance(t.slice, ast.Name) and t.slice.id == kname:
                            arrays.add(t.value.id)
                        elif isinstance(t, (ast.Tuple, ast.List)) and all(
                                isinstance(e, ast.Name) for e in t.elts):
                            written.update(e.id for e in t.elts)
                        else:
                            raise Unsupported('store target in a pointwise loop')
                else:
                    raise Unsupported(f'statement {type(stmt).__name__} in a pointwise loop')
        scan(node.body)
        for t in ast.walk(node.target):
            if isinstance(t, ast.Name):
                written.add(t.id)
        if not arrays and not lists:
            raise Unsupported('pointwise loop without an output')
        # the arrays / lists occur nowhere else in the body
        for nm in arrays | lists:
            for x in ast.walk(ast.Module(body=node.body, type_ignores=[])):
                if isinstance(x, ast.Name) and x.id == nm:
                    ok = False
                    for y in ast.walk(ast.Module(body=node.body, type_ignores=[])):
                        if isinstance(y, ast.Subscript) and y.value is x and nm in arrays \
                                and isinstance(y.slice, ast.Name) and y.slice.id == kname \
                                and isinstance(y.ctx, ast.Store):
                            ok = True
                        if isinstance(y, ast.Attribute) and y.value is x and nm in lists \
                                and y.attr == 'append':
                            ok = True
                    if not ok:
                        raise Unsupported(f'{nm} is used in the loop body other than as its '
                                          'own output slot')
            if nm in written:
                raise Unsupported(f'{nm} rebound inside the loop body')
        for nm in arrays:
            v = st.env.get(nm)
            if not isinstance(v, SArr) or v.ndim != 1:
                raise Unsupported(f'{nm} is not a 1-D array before the loop')
            if v.store is None:
                self.own_store(nm, st)
        for nm in lists:
            if not isinstance(st.env.get(nm), list) or st.env[nm]:
                raise Unsupported(f'{nm} is not an empty list before the loop')
        n = num_term(it.length)
        base = st.clone()
        for w in written:
            base.env.pop(w, None)

        def iteration(k):
            """All paths of iteration k from the pre-loop state: [(condition, {array: slot value},
            {list: appended value}, state)]."""
            s2 = base.clone()
            self.assign(node.target, it.fn(k), s2)
            for nm in lists:
                s2.env[nm] = []
            npc = len(s2.pc)
            paths = self.exec_block(node.body, s2)
            out = []
            for ps, oc in paths:
                if oc[0] != 'fall':
                    raise Unsupported('loop body leaves the loop')
                cond = z3.And(*ps.pc[npc:]) if len(ps.pc) > npc else z3.BoolVal(True)
                avals = {nm: ps.env[nm].fn((num_term(k),)) for nm in arrays}
                lvals = {}
                for nm in lists:
                    if len(ps.env[nm]) != 1:
                        raise Unsupported(f'{nm} is not appended to exactly once on every path')
                    lvals[nm] = ps.env[nm][0]
                out.append((cond, avals, lvals, ps))
            return out

        def merged(k, kind, nm):
            paths = iteration(k)
            sink = SINK[-1] if SINK else None
            val = None
            if sink is not None:
                # what was learned (callee postconditions) and what must hold (callee
                # preconditions, bounds) while computing element k belongs to its reader; facts of a
                # branch hold under that branch's condition
                for cond, avals, lvals, ps in paths:
                    for lab, hyps, f in ps.checks[len(base.checks):]:
                        sink.lazy_checks.append((lab, list(hyps) + list(sink.guard_stack), f))
                    for f in ps.facts[len(base.facts):]:
                        sink.facts.append(z3.Implies(cond, f))
            vals = [(cond, (avals if kind == 'a' else lvals)[nm]) for cond, avals, lvals, ps in paths]
            return self.merge_branch_values(vals)

        # trial iteration: structure and in-body obligations at a fresh index
        k0 = fresh('it', 'int')
        tb = base
        base = base.clone()
        base.assume(z3.And(k0 >= 0, k0 < n))
        for cond, avals, lvals, ps in iteration(k0):
            for lab, hyps, f in ps.checks[len(base.checks):]:
                st.checks.append((lab, hyps, f))
        base = tb
        for nm in arrays:
            arr = st.env[nm]
            store = arr.store
            if getattr(store, 'frozen', False):
                raise Unsupported('pointwise update of an element of a sequence of arrays')
            st.check(f'{nm} has a slot for every iteration', num_term(arr.shape[0]) >= n)
            old = store.fn
            store.content_tok = None
            store.fn = (lambda p, old=old, nm=nm:
                        self.ite(z3.And(num_term(p[0]) >= 0, num_term(p[0]) < n),
                                 merged(num_term(p[0]), 'a', nm), old(p)))
        for nm in lists:
            st.env[nm] = SSeq(z3.simplify(n), (lambda i, nm=nm: merged(num_term(i), 'l', nm)), 'obj')
        for w in written:
            st.env.pop(w, None)
        return (st, ('fall', None))

    def merge_branch_values(self, vals):
        """One value from the values [(branch condition, value)] of the paths of an element
        computation: scalars by if-then-else; None on some branches and one record / array on the
        others gives an optional record / optional value."""
        if any(not is_num(v) for _, v in vals):
            if len(vals) == 1:
                return vals[0][1]
            nones = [c for c, v in vals if v is None]
            objs = [(c, v) for c, v in vals if isinstance(v, SObj)]
            if len(nones) + len(objs) == len(vals) and len(objs) == 1 and nones \
                    and getattr(objs[0][1], 'none_if', None) is None:
                o = objs[0][1]
                return SObj(o.cls, dict(o.fields), none_if=z3.simplify(z3.Or(*nones)))
            arrs = [(c, v) for c, v in vals if isinstance(v, SArr)]
            if len(nones) + len(arrs) == len(vals) and len(arrs) == 1 and nones:
                return SOpt(arrs[0][1], z3.simplify(z3.Or(*nones)))
            raise Unsupported('non-scalar value merged over the branches of an element')
        val = None
        for cond, v in reversed(vals):
            val = v if val is None else self.ite(cond, v, val)
        return val

    def eval_paths_merged(self, node, s2):
        """Evaluate an expression that may fork (conditional expression): (merged value,
        [(branch condition, state)])."""
        npc = len(s2.pc)
        res0 = self.eval(node, s2)
        res, raising = [], []
        for ps, x in res0:
            if isinstance(ps, tuple):
                # a raising sub-path ((state, ('raise', exc)), None): "the element expression does
                # not raise" is an obligation of whoever evaluates the element
                rs = ps[0]
                cond = z3.And(*rs.pc[npc:]) if len(rs.pc) > npc else z3.BoolVal(True)
                raising.append((ps[1][1], list(rs.pc[:npc]) + list(rs.facts), z3.Not(cond)))
                continue
            res.append((ps, x))
        if not res:
            raise Unsupported('element expression always raises')
        for exc, hyps, f in raising:
            # recorded on every surviving path state (they are what the caller reads checks from)
            for ps, _ in res:
                ps.checks.append((f'element expression does not raise {exc}', hyps, f))
        conds = [z3.And(*ps.pc[npc:]) if len(ps.pc) > npc else z3.BoolVal(True) for ps, _ in res]
        v = self.merge_branch_values([(c, x) for c, (_, x) in zip(conds, res)])
        return v, [(c, ps) for c, (ps, _) in zip(conds, res)]

    def st_While(self, node, st):
        spec = self.loop_specs.get(node.lineno) or self.loop_specs.get('while')
        if spec is None:
            raise Unsupported(f'while loop at line {node.lineno} needs a loop contract')
        return spec(self, node, st, None)

    def st_Break(self, node, st):
        return [(st, ('break', None))]

    def st_Continue(self, node, st):
        return [(st, ('continue', None))]

    def st_Try(self, node, st):
        # try/except around statements none of whose modelled paths raises: the handlers are dead
        # for the modelled behaviour (exceptions numpy would raise by itself are not modelled; the
        # safety obligations cover index and shape errors)
        if node.finalbody or node.orelse:
            raise Unsupported('try with else / finally')
        outs = self.exec_block(node.body, st)
        if any(oc[0] == 'raise' for _s, oc in outs):
            raise Unsupported('try body with an explicit raise')
        return outs

    def st_Delete(self, node, st):
        for t in node.targets:
            if isinstance(t, ast.Name):
                st.env.pop(t.id, None)
            elif isinstance(t, ast.Attribute):
                o = self.eval1(t.value, st)
                if not isinstance(o, SObj) or t.attr not in o.fields:
                    raise Unsupported('del of an attribute the record does not have')
                del o.fields[t.attr]
            else:
                raise Unsupported('del of non-name')
        return [(st, ('fall', None))]

    def st_FunctionDef(self, node, st):
        st.env[node.name] = ('localdef', node)
        return [(st, ('fall', None))]

    def concrete_iter(self, it):
        if isinstance(it, (tuple, list)):
            return list(it)
        if isinstance(it, range):
            return list(it)
        if isinstance(it, SArr) and it.ndim >= 1 and concrete(it.shape[0]) is not None:
            n = concrete(it.shape[0])
            if it.ndim == 1:
                return [it.fn((k,)) for k in range(n)]
            return [self.index_arr(it, (k,), None) for k in range(n)]
        if isinstance(it, SSeq) and concrete(it.length) is not None:
            return [it.fn(k) for k in range(concrete(it.length))]
        return None

    # ------------------------------------------------------------------ expressions
    def eval(self, node, st):
        """Return list of (state, value); a raising sub-path is (('state','raise'),) encoded as
        ((state, outcome), None)."""
        m = getattr(self, 'ex_' + type(node).__name__, None)
        if m is None:
            raise Unsupported(f'expression {type(node).__name__} at line '
                              f'{getattr(node, "lineno", "?")}')
        if self.polarity:
            # polarity of the position inside a goal (for skolemising positive quantifiers):
            # kept through and/or, flipped by not / implies-antecedent, unknown elsewhere
            pol = self.polarity
            if isinstance(node, (ast.BoolOp, ast.Call)):
                return m(node, st)
            self.polarity = -pol if (isinstance(node, ast.UnaryOp)
                                     and isinstance(node.op, ast.Not)) else 0
            try:
                return m(node, st)
            finally:
                self.polarity = pol
        return m(node, st)

    def eval1(self, node, st):
        """Evaluate an expression that must not fork."""
        r = self.eval(node, st)
        if len(r) != 1 or isinstance(r[0][0], tuple):
            raise Unsupported('expression forks where a single value is needed')
        return r[0][1]

    def eval_many(self, nodes, st):
        """Evaluate a list of expressions left to right, threading forks."""
        results = [(st, [])]
        for n in nodes:
            nxt = []
            for s, vals in results:
                if isinstance(s, tuple):
                    nxt.append((s, vals))
                    continue
                for s2, v in self.eval(n, s):
                    nxt.append((s2, vals + [v]))
            results = nxt
        return results

    def ex_Constant(self, node, st):
        return [(st, node.value)]

    def ex_Name(self, node, st):
        if node.id in st.env:
            return [(st, st.env[node.id])]
        if node.id in self.module_consts:
            c = self.module_consts[node.id]
            if isinstance(c, tuple) and len(c) == 2 and c[0] == 'constexpr':
                return self.eval(c[1], st)       # e.g. PI2 = np.pi / 2: evaluated where it is read
            return [(st, c)]
        if node.id in ('True', 'False', 'None'):
            return [(st, {'True': True, 'False': False, 'None': None}[node.id])]
        return [(st, ('global', node.id))]

    def ex_Tuple(self, node, st):
        return [(s, tuple(vals)) if not isinstance(s, tuple) else (s, None)
                for s, vals in self.eval_many(node.elts, st)]

    def ex_List(self, node, st):
        return [(s, list(vals)) if not isinstance(s, tuple) else (s, None)
                for s, vals in self.eval_many(node.elts, st)]

    def ex_Dict(self, node, st):
        if any(not (isinstance(k, ast.Constant) and isinstance(k.value, (str, int)))
               for k in node.keys):
            raise Unsupported('dict display with computed keys')
        return [(s, {k.value: v for k, v in zip(node.keys, vals)})
                if not isinstance(s, tuple) else (s, None)
                for s, vals in self.eval_many(node.values, st)]

    def ex_JoinedStr(self, node, st):
        return [(st, SStr())]

    def ex_Slice(self, node, st):
        parts = [node.lower or ast.Constant(None), node.upper or ast.Constant(None),
                 node.step or ast.Constant(None)]
        return [(s, SSlice(*vals)) if not isinstance(s, tuple) else (s, None)
                for s, vals in self.eval_many(parts, st)]

    def ex_IfExp(self, node, st):
        out = []
        for s2, c in self.eval(node.test, st):
            if isinstance(s2, tuple):
                out.append((s2, None))
                continue
            c = z3.simplify(to_bool(c))
            if z3.is_true(c):
                out.extend(self.eval(node.body, s2))
            elif z3.is_false(c):
                out.extend(self.eval(node.orelse, s2))
            else:
                a = s2.clone()
                a.assume(c)
                s2.assume(z3.Not(c))
                if self.feasible(a):
                    out.extend(self.eval(node.body, a))
                if self.feasible(s2):
                    out.extend(self.eval(node.orelse, s2))
        return out

    def ex_BoolOp(self, node, st):
        # short-circuit: value semantics only for boolean-valued operands
        is_and = isinstance(node.op, ast.And)
        results = [(st, None, True)]  # (state, accumulated bool term, alive)
        acc = [(st, [])]
        for sub in node.values:
            nxt = []
            for s, vals in acc:
                if isinstance(s, tuple):
                    nxt.append((s, vals))
                    continue
                if vals and not isinstance(vals[-1], (SArr, SSeq)):
                    last = z3.simplify(to_bool(vals[-1]))
                    if (is_and and z3.is_false(last)) or (not is_and and z3.is_true(last)):
                        nxt.append((s, vals))     # short-circuited
                        continue
                # operands after the first are evaluated only if not short-circuited:
                # evaluating them unconditionally is sound for pure expressions; an operand
                # that can raise is guarded by splitting on the prefix value.
                if vals and self._may_raise(sub):
                    prefix = self._combine(vals, is_and)
                    go = prefix if is_and else z3.Not(prefix)
                    a = s.clone()
                    a.assume(go)
                    s.assume(z3.Not(go))
                    if self.feasible(a):
                        for s2, v in self.eval(sub, a):
                            nxt.append((s2, vals + [v]))
                    if self.feasible(s):
                        nxt.append((s, vals + [z3.BoolVal(not is_and)]))
                else:
                    for s2, v in self.eval(sub, s):
                        nxt.append((s2, vals + [v]))
            acc = nxt
        out = []
        for s, vals in acc:
            if isinstance(s, tuple):
                out.append((s, None))
            else:
                out.append((s, self._combine(vals, is_and)))
        return out

    def _combine(self, vals, is_and):
        if all(isinstance(v, SArr) or is_bool(v) or is_num(v) or v is None for v in vals) and \
                any(isinstance(v, SArr) for v in vals):
            raise Unsupported('and/or on arrays')
        bs = [to_bool(v) for v in vals]
        return z3.simplify(z3.And(*bs) if is_and else z3.Or(*bs))

    def _may_raise(self, node):
        if self.cl_mode:
            return False
        for n in ast.walk(node):
            if isinstance(n, (ast.Call, ast.Subscript, ast.Div, ast.FloorDiv, ast.Mod)):
                return True
        return False

    def ex_UnaryOp(self, node, st):
        out = []
        for s, v in self.eval(node.operand, st):
            if isinstance(s, tuple):
                out.append((s, None))
                continue
            out.append((s, self.unop(node.op, v)))
        return out

    def unop(self, op, v):
        if isinstance(v, SBag):
            return _bag_like(v, lambda p, f=v.val: self.unop(op, f(p)), v.kind)
        if isinstance(v, SArr) and isinstance(op, (ast.USub, ast.UAdd)) \
                and snap_finite(v) is not None:
            out = SArr(v.shape, lambda idx, f=snap(v): self.unop(op, f(idx)), v.kind)
            out.finite = snap_finite(v)
            return out
        if isinstance(v, SArr):
            return SArr(v.shape, lambda idx, f=snap(v): self.unop(op, f(idx)),
                        'bool' if isinstance(op, (ast.Not, ast.Invert)) and v.kind == 'bool'
                        else v.kind)
        if isinstance(v, SSeq):
            return SSeq(v.length, lambda i, f=v.fn: self.unop(op, f(i)), v.kind)
        if isinstance(op, ast.Not):
            return z3.simplify(z3.Not(to_bool(v)))
        if isinstance(op, ast.USub):
            if isinstance(v, (int, float)) and not isinstance(v, bool):
                return -v
            return -num_term(v)
        if isinstance(op, ast.UAdd):
            return v
        if isinstance(op, ast.Invert):
            if is_bool(v):
                return z3.simplify(z3.Not(to_bool(v)))
            raise Unsupported('bitwise invert of integer')
        raise Unsupported(f'unary {type(op).__name__}')

    def ex_BinOp(self, node, st):
        out = []
        for s, vals in self.eval_many([node.left, node.right], st):
            if isinstance(s, tuple):
                out.append((s, None))
                continue
            out.append((s, self.binop(node.op, vals[0], vals[1], s)))
        return out

    def binop(self, op, a, b, st):
        if isinstance(a, SSet) and isinstance(b, SSet):
            if isinstance(op, ast.Sub):
                return SSet(lambda x: z3.And(a.member(x), z3.Not(b.member(x))))
            if isinstance(op, ast.BitOr):
                return SSet(lambda x: z3.Or(a.member(x), b.member(x)))
            if isinstance(op, ast.BitAnd):
                return SSet(lambda x: z3.And(a.member(x), b.member(x)))
            raise Unsupported('set operator')
        # containers
        if isinstance(op, ast.Add) and isinstance(a, (tuple, list)) and isinstance(b, type(a)):
            return a + b
        if isinstance(op, ast.Mult) and isinstance(a, (tuple, list)) and isinstance(b, int):
            return a * b
        if isinstance(a, (SArr, SSeq, SBag)) or isinstance(b, (SArr, SSeq, SBag)):
            if isinstance(op, (ast.Mult, ast.Pow)):
                # machine arithmetic: products / powers of an array that may hold narrow
                # integers wrap around silently; the real-number model is only valid after a
                # conversion to float
                for v in (a, b):
                    if isinstance(v, SArr) and v.store is not None \
                            and getattr(v.store, 'maybe_int', False) and not (
                                isinstance(op, ast.Mult) and is_bool(b if v is a else a)):
                        st.check('array of unknown (possibly narrow integer) dtype is converted '
                                 'to float before it is multiplied / squared', z3.BoolVal(False))
            if isinstance(op, (ast.Div, ast.FloorDiv, ast.Mod)):
                # numpy elementwise division never raises (it yields inf/nan, which the
                # real-number model cannot represent): instead of a lazily emitted scalar
                # check, prove eagerly that no selected element of the divisor is zero
                quiet = State()
                quiet.facts = st.facts
                self._array_divisor_check(b, st)
                return self.lift2(lambda x, y: self.binop(op, x, y, quiet), a, b, op)
            return self.lift2(lambda x, y: self.binop(op, x, y, st), a, b, op)
        if isinstance(a, SStr) or isinstance(b, SStr) or isinstance(a, str) or isinstance(b, str):
            if isinstance(op, (ast.Add, ast.Mod)):
                return SStr()
        if isinstance(op, (ast.BitAnd, ast.BitOr, ast.BitXor)):
            if is_bool(a) and is_bool(b):
                x, y = to_bool(a), to_bool(b)
                return z3.simplify({ast.BitAnd: z3.And, ast.BitOr: z3.Or,
                                    ast.BitXor: z3.Xor}[type(op)](x, y))
            raise Unsupported('bitwise op on integers')
        if not (is_num(a) and is_num(b)):
            raise Unsupported(f'binary {type(op).__name__} on {type(a).__name__}, '
                              f'{type(b).__name__}')
        # constant folding keeps terms small and exact
        if not is_z3(a) and not is_z3(b) and not isinstance(op, (ast.Div, ast.Pow)):
            try:
                if isinstance(a, float) or isinstance(b, float):
                    raise TypeError
                return {ast.Add: lambda: a + b, ast.Sub: lambda: a - b, ast.Mult: lambda: a * b,
                        ast.FloorDiv: lambda: a // b, ast.Mod: lambda: a % b}[type(op)]()
            except (KeyError, TypeError, ZeroDivisionError):
                pass
        x, y = coerce2(a, b)
        if isinstance(op, ast.Add):
            return x + y
        if isinstance(op, ast.Sub):
            return x - y
        if isinstance(op, ast.Mult):
            return x * y
        if isinstance(op, ast.Div):
            if z3.is_int(x):
                x = z3.ToReal(x)
            if z3.is_int(y):
                y = z3.ToReal(y)
            st.check('division by zero', y != 0)
            return x / y
        if isinstance(op, ast.FloorDiv):
            if z3.is_int(x) and z3.is_int(y):
                st.check('floor-division divisor > 0', y > 0)
                return x / y          # z3 Int division is floor division for y > 0
            st.check('floor-division divisor > 0', y > 0)
            if z3.is_int(x):
                x = z3.ToReal(x)
            if z3.is_int(y):
                y = z3.ToReal(y)
            return z3.ToReal(z3.ToInt(x / y))
        if isinstance(op, ast.Mod):
            if z3.is_int(x) and z3.is_int(y):
                st.check('modulo divisor > 0', y > 0)
                return x % y
            raise Unsupported('float modulo')
        if isinstance(op, ast.Pow):
            e = concrete(b)
            if isinstance(e, int) and 0 <= e <= 4:
                r = z3.IntVal(1) if z3.is_int(x) else z3.RealVal(1)
                for _ in range(e):
                    r = r * x
                return r
            if e is not None and e == 0.5:
                return self.prim_sqrt(x, st)
            raise Unsupported('general power')
        raise Unsupported(f'binary {type(op).__name__}')

    def _array_divisor_check(self, b, st):
        label = 'array divisor non-zero (numpy would yield inf/nan, outside the real model)'
        if isinstance(b, SBag):
            p = tuple(fresh('dvi', 'int') for _ in b.shape)
            guard = [z3.And(x >= 0, x < num_term(n)) for x, n in zip(p, b.shape)]
            guard.append(to_bool(b.pred(p)))
            y = b.val(p)
        elif isinstance(b, SArr):
            p = tuple(fresh('dvi', 'int') for _ in b.shape)
            guard = [z3.And(x >= 0, x < num_term(n)) for x, n in zip(p, b.shape)]
            y = snap(b)(p)
        elif isinstance(b, SSeq):
            p = fresh('dvi', 'int')
            guard = [z3.And(p >= 0, p < num_term(b.length))]
            y = b.fn(p)
        else:
            guard, y = [], b
        st.check(label, z3.Implies(z3.And(*guard) if guard else z3.BoolVal(True),
                                   num_term(y) != 0))

    def lift2(self, f, a, b, op=None):
        if isinstance(a, SBag) or isinstance(b, SBag):
            bag = a if isinstance(a, SBag) else b
            other = b if isinstance(a, SBag) else a
            def bkind(x):
                if isinstance(x, SBag):
                    return x.kind
                return 'bool' if is_bool(x) else ('int' if is_intlike(x) else 'real')
            kinds = {bkind(a), bkind(b)}
            if isinstance(op, (ast.Div, ast.Pow)) or 'real' in kinds:
                rk = 'real'
            elif isinstance(op, (ast.BitAnd, ast.BitOr, ast.BitXor)) and kinds == {'bool'}:
                rk = 'bool'
            elif op is None:
                rk = 'real'
            else:
                rk = 'int'
            if isinstance(a, SBag) and isinstance(b, SBag):
                if a.pred is not b.pred and (getattr(a, 'mask_id', None) is None
                                             or a.mask_id != getattr(b, 'mask_id', None)):
                    raise Unsupported('arithmetic on bags selected by different masks')
                return _bag_like(a, lambda p: f(a.val(p), b.val(p)), rk)
            if isinstance(other, (SArr, SSeq)):
                raise Unsupported('bag combined with a full array')
            if bag is a:
                return _bag_like(bag, lambda p: f(bag.val(p), other), rk)
            return _bag_like(bag, lambda p: f(other, bag.val(p)), rk)
        kind = None
        if isinstance(op, (ast.Div,)):
            kind = 'real'

        def k(v):
            if isinstance(v, (SArr, SSeq)):
                return v.kind
            if is_bool(v):
                return 'bool'
            if is_intlike(v):
                return 'int'
            return 'real'
        if kind is None:
            ks = {k(a), k(b)}
            kind = 'real' if 'real' in ks else ('int' if 'int' in ks else 'bool')
            if op is not None and isinstance(op, (ast.Add, ast.Sub, ast.Mult)) and kind == 'bool':
                kind = 'int'
        if isinstance(a, SSeq) or isinstance(b, SSeq):
            ln = a.length if isinstance(a, SSeq) else b.length
            fa = a.fn if isinstance(a, SSeq) else (lambda i: a)
            fb = b.fn if isinstance(b, SSeq) else (lambda i: b)
            return SSeq(ln, lambda i: f(fa(i), fb(i)), kind)
        sa = a.shape if isinstance(a, SArr) else ()
        sb = b.shape if isinstance(b, SArr) else ()
        nd = max(len(sa), len(sb))
        shape = sa if len(sa) == nd else sb   # same-shape or scalar broadcast only

        fa = snap(a) if isinstance(a, SArr) else None
        fb = snap(b) if isinstance(b, SArr) else None

        def el(v, fv, idx):
            if fv is None:
                return v
            if v.ndim == nd:
                return fv(idx)
            return fv(idx[nd - v.ndim:])     # trailing-axis broadcast
        out = SArr(shape, lambda idx: f(el(a, fa, idx), el(b, fb, idx)), kind)
        # NaN propagation: an element computed from a non-finite operand is non-finite
        na = snap_finite(a) if isinstance(a, SArr) else None
        nb = snap_finite(b) if isinstance(b, SArr) else None
        if na is not None or nb is not None:
            def fin(idx, na=na, nb=nb):
                cs = []
                if na is not None:
                    cs.append(to_bool(na(idx if a.ndim == nd else idx[nd - a.ndim:])))
                if nb is not None:
                    cs.append(to_bool(nb(idx if b.ndim == nd else idx[nd - b.ndim:])))
                return z3.And(*cs) if len(cs) > 1 else cs[0]
            out.finite = fin
        return out

    def ex_Compare(self, node, st):
        out = []
        nodes = [node.left] + list(node.comparators)
        for s, vals in self.eval_many(nodes, st):
            if isinstance(s, tuple):
                out.append((s, None))
                continue
            terms = []
            for op, a, b in zip(node.ops, vals, vals[1:]):
                terms.append(self.compare(op, a, b, s))
            if len(terms) == 1:
                out.append((s, terms[0]))
            elif any(isinstance(t, (SArr, SSeq)) for t in terms):
                raise Unsupported('chained comparison of arrays')
            else:
                out.append((s, z3.simplify(z3.And(*[to_bool(t) for t in terms]))))
        return out

    def compare(self, op, a, b, st):
        from . import prims as _pr
        if isinstance(a, _pr.SAgg) and a.kind == 'COUNT':
            a = _pr.count_term(self, a, st)
        if isinstance(b, _pr.SAgg) and b.kind == 'COUNT':
            b = _pr.count_term(self, b, st)
        if isinstance(op, (ast.Is, ast.IsNot)):
            if (a is None or b is None) and isinstance(b if a is None else a, (SObj, SOpt)) \
                    and getattr(b if a is None else a, 'none_if', None) is not None:
                cond = (b if a is None else a).none_if
                return z3.Not(cond) if isinstance(op, ast.IsNot) else cond
            if a is None or b is None:
                other = b if a is None else a
                r = other is None
            elif isinstance(a, bool) or isinstance(b, bool):
                r = a is b
            elif any(isinstance(x, tuple) and len(x) == 2 and x[0] == 'global' for x in (a, b)) \
                    and any(isinstance(x, (SArr, SSeq, SObj)) or is_num(x) for x in (a, b)):
                r = False       # a module-level singleton (np.ma.nomask) is not a data value
            else:
                raise Unsupported('identity comparison')
            return (not r) if isinstance(op, ast.IsNot) else r
        if isinstance(op, (ast.In, ast.NotIn)):
            if isinstance(b, (tuple, list)):
                if isinstance(a, str):
                    r = a in b
                    return (not r) if isinstance(op, ast.NotIn) else r
                if is_num(a):
                    r = z3.Or(*[to_bool(self.compare(ast.Eq(), a, x, st)) for x in b]) \
                        if b else z3.BoolVal(False)
                    return z3.Not(r) if isinstance(op, ast.NotIn) else r
            if isinstance(b, dict) and isinstance(a, str):
                r = a in b
                return (not r) if isinstance(op, ast.NotIn) else r
            if isinstance(b, SObj) and b.cls == '__dict__' and isinstance(a, str):
                r = a in b.fields
                return (not r) if isinstance(op, ast.NotIn) else r
            raise Unsupported('membership test')
        if isinstance(a, SBag) or isinstance(b, SBag):
            r = self.lift2(lambda x, y: self.compare(op, x, y, st), a, b)
            r.kind = 'bool'
            return r
        if isinstance(a, (SArr, SSeq)) or isinstance(b, (SArr, SSeq)):
            r = self.lift2(lambda x, y: self.compare(op, x, y, st), a, b)
            r.kind = 'bool'
            fin = getattr(r, 'finite', None)
            if isinstance(r, SArr) and fin is not None:
                # IEEE comparisons with NaN: every ordering / equality test is False, != is True
                # (non-finite elements are modelled as NaN; +-inf inputs are outside the model)
                cmp = r._fn
                if isinstance(op, ast.NotEq):
                    r._fn = lambda idx: z3.Or(z3.Not(to_bool(fin(idx))), to_bool(cmp(idx)))
                else:
                    r._fn = lambda idx: z3.And(to_bool(fin(idx)), to_bool(cmp(idx)))
                r.finite = None
            return r
        if isinstance(a, str) or isinstance(b, str):
            if isinstance(a, str) and isinstance(b, str):
                r = a == b
                return r if isinstance(op, ast.Eq) else (not r)
            if isinstance(op, ast.Eq):
                return False
            if isinstance(op, ast.NotEq):
                return True
        if a is None or b is None:
            r = a is None and b is None
            if isinstance(op, ast.Eq):
                return r
            if isinstance(op, ast.NotEq):
                return not r
            raise Unsupported('ordering comparison with None')
        if isinstance(a, tuple) and isinstance(b, tuple):
            if isinstance(op, (ast.Eq, ast.NotEq)):
                if len(a) != len(b):
                    r = z3.BoolVal(False)
                else:
                    r = z3.And(*[to_bool(self.compare(ast.Eq(), x, y, st))
                                 for x, y in zip(a, b)]) if a else z3.BoolVal(True)
                return z3.simplify(r if isinstance(op, ast.Eq) else z3.Not(r))
            raise Unsupported('tuple ordering')
        if isinstance(a, SObj) and isinstance(b, SObj) and isinstance(op, (ast.Eq, ast.NotEq)):
            keys = sorted(set(a.fields) | set(b.fields))
            r = z3.And(*[to_bool(self.compare(ast.Eq(), a.fields[k], b.fields[k], st))
                         for k in keys])
            return z3.simplify(r if isinstance(op, ast.Eq) else z3.Not(r))
        if isinstance(a, SSlice) and isinstance(b, SSlice) and isinstance(op, ast.Eq):
            return z3.simplify(z3.And(to_bool(self.compare(op, a.start, b.start, st)),
                                      to_bool(self.compare(op, a.stop, b.stop, st))))
        if is_bool(a) and is_bool(b) and isinstance(op, (ast.Eq, ast.NotEq)):
            r = to_bool(a) == to_bool(b)
            return z3.simplify(r if isinstance(op, ast.Eq) else z3.Not(r))
        if not (is_num(a) and is_num(b)):
            raise Unsupported(f'comparison of {type(a).__name__} and {type(b).__name__}')
        x, y = coerce2(a, b)
        r = {ast.Eq: lambda: x == y, ast.NotEq: lambda: x != y, ast.Lt: lambda: x < y,
             ast.LtE: lambda: x <= y, ast.Gt: lambda: x > y, ast.GtE: lambda: x >= y}[type(op)]()
        return z3.simplify(r)

    def ex_Attribute(self, node, st):
        out = []
        for s, v in self.eval(node.value, st):
            if isinstance(s, tuple):
                out.append((s, None))
                continue
            out.extend(self.getattr(v, node.attr, s, node))
        return out

    def getattr(self, v, attr, st, node=None):
        v = self.unwrap(v, st, f'attribute {attr}')
        if isinstance(v, SObj) and getattr(v, 'none_if', None) is not None and not self.cl_mode:
            st.check(f'attribute {attr} of a value that may be None', z3.Not(v.none_if))
        if isinstance(v, SObj):
            if attr in v.fields:
                return [(st, v.fields[attr])]
            if attr == '__dict__':
                return [(st, v.fields.setdefault('__dict__', SObj('__dict__')))]
            if attr == '__class__':
                return [(st, ('class', v.cls))]
            # property / lazyproperty with a contract -> modular use of its contract
            c = self.registry.lookup_method(v.cls, attr)
            if c is not None and c.is_property:
                return self.apply_contract(c, [v], {}, st)
            if c is not None:
                return [(st, ('bound', v, attr))]
            # a helper method of the same class without a contract of its own is part of the
            # implementation of the function under verification: its body is executed
            fd = self._find_method_def(v.cls, attr)
            if fd is not None:
                return [(st, ('inline_method', v, fd))]
            pd = self._find_method_def(v.cls, attr, want_property=True)
            if pd is not None:
                # a plain property without a contract: its getter is part of the implementation
                outs = self.call_method_inline(pd, v, [], {}, st)
                return [(o[0], o[1]) for o in outs]
            raise Unsupported(f'unknown attribute {v.cls}.{attr}')
        if isinstance(v, tuple) and len(v) == 2 and v[0] == 'global':
            if f'{v[1]}.{attr}' in ('np.pi', 'math.pi', 'numpy.pi'):
                pi = z3.Real('pi')
                st.fact(z3.And(pi > z3.RealVal('3.14159'), pi < z3.RealVal('3.1416')))
                return [(st, pi)]
            if f'{v[1]}.{attr}' in ('np.nan', 'math.nan', 'numpy.nan'):
                return [(st, NAN)]
            if f'{v[1]}.{attr}' in ('np.inf', 'math.inf'):
                raise Unsupported('infinity constant')
            return [(st, ('global', f'{v[1]}.{attr}'))]
        if isinstance(v, tuple) and len(v) == 2 and v[0] == 'dtype':
            if attr == 'kind':
                k = {'int': 'i', 'float': 'f', 'bool': 'b'}.get(v[1])
                if k is None:
                    raise Unsupported('kind of an unknown dtype')
                return [(st, k)]
            raise Unsupported(f'dtype attribute {attr}')
        if isinstance(v, tuple) and len(v) == 2 and v[0] == 'class':
            if attr == '__name__':
                return [(st, v[1])]
            return [(st, ('global', f'{v[1]}.{attr}'))]
        if isinstance(v, SArr):
            if attr == 'shape':
                return [(st, tuple(v.shape))]
            if attr == 'ndim':
                return [(st, v.ndim)]
            if attr == 'dtype':
                # float unless the array may arrive in another representation
                mi = v.store is not None and getattr(v.store, 'maybe_int', False)
                return [(st, ('dtype', 'unknown' if mi else
                              {'real': 'float', 'int': 'int', 'bool': 'bool'}[v.kind]))]
            if attr == 'size':
                n = 1
                for d in v.shape:
                    n = self.binop(ast.Mult(), n, d, st)
                return [(st, n)]
            if attr == 'T' and v.ndim == 2:
                # NOTE: a transposed view is modelled as a value (reads only)
                return [(st, SArr((v.shape[1], v.shape[0]),
                                  lambda idx, f=snap(v): f((idx[1], idx[0])), v.kind))]
            if attr in ('sum', 'any', 'all', 'copy', 'astype', 'min', 'max', 'ravel', 'swapaxes', 'nonzero'):
                return [(st, ('arrmethod', v, attr))]
        if isinstance(v, SSeq):
            if attr == 'size':
                return [(st, v.length)]
            if attr == 'shape':
                return [(st, (v.length,))]
            if attr in ('sum', 'any', 'all', 'copy', 'max', 'min'):
                return [(st, ('arrmethod', v, attr))]
        if isinstance(v, SBag) and attr in ('sum',):
            return [(st, ('arrmethod', v, attr))]
        if isinstance(v, SSlice) and attr in ('start', 'stop', 'step'):
            return [(st, getattr(v, attr))]
        if isinstance(v, list) and attr in ('append', 'extend', 'copy', 'index'):
            return [(st, ('listmethod', v, attr))]
        if isinstance(v, SSet) and attr in ('difference', 'union', 'intersection'):
            return [(st, ('setmethod', v, attr))]
        if isinstance(v, dict) and attr in ('get', 'items', 'keys', 'values', 'copy', 'pop', 'update'):
            return [(st, ('dictmethod', v, attr))]
        raise Unsupported(f'attribute {attr} of {type(v).__name__}')

    def ex_Subscript(self, node, st):
        out = []
        for s, v in self.eval(node.value, st):
            if isinstance(s, tuple):
                out.append((s, None))
                continue
            v = self.unwrap(v, s, 'subscript')
            if isinstance(v, (SArr,)):
                idx = self.eval_index(node.slice, s)
                out.append((s, self.index_arr(v, idx, s)))
                continue
            if isinstance(v, SBag):
                # sub-selection of a bag by a boolean bag over the same selection
                k = self.unwrap(self.eval1(node.slice, s), s, 'index')
                if not (isinstance(k, SBag) and k.kind == 'bool') or (
                        k.pred is not v.pred and (getattr(k, 'mask_id', None) is None
                                                  or k.mask_id != getattr(v, 'mask_id', None))):
                    raise Unsupported('subscript of a selection by something else than a boolean '
                                      'selection over the same elements')
                sub = SBag(v.shape, lambda p, v=v, k=k: z3.And(to_bool(v.pred(p)), to_bool(k.val(p))),
                           v.val, v.kind)
                sub.mask_id = ('sub', getattr(v, 'mask_id', None), id(k))
                if hasattr(v, 'coord'):
                    sub.coord = v.coord
                out.append((s, sub))
                continue
            for s2, k in self.eval(node.slice, s):
                if isinstance(s2, tuple):
                    out.append((s2, None))
                    continue
                out.append((s2, self.subscript(v, k, s2)))
        return out

    def unwrap(self, v, st, what):
        """The value of an optional (SOpt); using it where it may be None is an obligation."""
        if isinstance(v, SOpt):
            if not self.cl_mode:
                st.check(f'{what} of a value that may be None', z3.Not(v.none_if))
            return v.value
        return v

    def eval_index(self, node, st):
        if isinstance(node, ast.Tuple):
            return tuple(self.unwrap(self.eval1(e, st), st, 'index') for e in node.elts)
        v = self.unwrap(self.eval1(node, st), st, 'index')
        if isinstance(v, tuple):
            return v
        return (v,)

    def subscript(self, v, k, st):
        if isinstance(v, tuple) and len(v) == 2 and isinstance(v[0], str) and v[0] == 'global' \
                and v[1] in ('np.mgrid', 'numpy.mgrid'):
            # np.mgrid[ys, xs] for two unit-step slices: the row and column coordinates of the
            # window, yy[j, i] = ys.start + j, xx[j, i] = xs.start + i
            if not (isinstance(k, tuple) and len(k) == 2 and all(
                    isinstance(x, SSlice) and x.step is None and x.start is not None
                    and x.stop is not None for x in k)):
                raise Unsupported('np.mgrid of this index')
            ys, xs = k
            shape = (z3.simplify(num_term(ys.stop) - num_term(ys.start)),
                     z3.simplify(num_term(xs.stop) - num_term(xs.start)))
            st.check('np.mgrid: slices are not reversed',
                     z3.And(num_term(shape[0]) >= 0, num_term(shape[1]) >= 0))
            yy = SArr(shape, lambda p: num_term(ys.start) + num_term(p[0]), 'int')
            xx = SArr(shape, lambda p: num_term(xs.start) + num_term(p[1]), 'int')
            return (yy, xx)
        if isinstance(v, (tuple, list)):
            if isinstance(k, SSlice):
                a, b, c = concrete(k.start), concrete(k.stop), concrete(k.step)
                if (k.start is not None and a is None) or (k.stop is not None and b is None):
                    raise Unsupported('symbolic slice of a tuple')
                return v[slice(a, b, c)]
            i = concrete(k)
            if i is None:
                raise Unsupported('symbolic index into a python sequence')
            return v[i]
        if isinstance(v, dict):
            return v[concrete(k)]
        if isinstance(v, SObj) and v.cls == '__dict__':
            return v.fields[concrete(k)]
        if isinstance(v, SObj) and isinstance(k, str):
            # a table row / mapping-like record read by column name
            if k not in v.fields:
                raise Unsupported(f'record {v.cls} has no column {k!r}')
            return v.fields[k]
        if isinstance(v, SSeq):
            if isinstance(k, SSlice):
                return self.slice_seq(v, k, st)
            if isinstance(k, SSeq) and k.kind == 'bool':
                from . import prims as _pr
                return _pr.seq_filter(self, v, k, st)
            if is_intlike(k):
                ki = num_term(k)
                ci = concrete(ki)
                if ci is not None and ci < 0:
                    ki = v.length + ci
                st.check('sequence index in bounds', z3.And(ki >= 0, ki < v.length))
                return v.fn(ki)
        raise Unsupported(f'subscript of {type(v).__name__}')

    def slice_seq(self, v, k, st):
        if k.step is not None and concrete(k.step) == -1 and k.start is None and k.stop is None:
            n = num_term(v.length)          # seq[::-1]
            return SSeq(v.length, lambda i, f=v.fn: f(n - 1 - num_term(i)), v.kind)
        if k.step is not None and concrete(k.step) != 1:
            raise Unsupported('strided slice')
        n = v.length
        lo = 0 if k.start is None else self._norm_bound(k.start, n)
        hi = n if k.stop is None else self._norm_bound(k.stop, n)
        lo_t, hi_t = num_term(lo), num_term(hi)
        # numpy/python clip slices silently: model the clipping exactly
        lo_c = z3.If(lo_t < 0, 0, z3.If(lo_t > n, n, lo_t))
        hi_c = z3.If(hi_t < 0, 0, z3.If(hi_t > n, n, hi_t))
        ln = z3.If(hi_c > lo_c, hi_c - lo_c, 0)
        return SSeq(z3.simplify(ln), lambda i, f=v.fn, lo_c=lo_c: f(num_term(i) + lo_c), v.kind)

    def _norm_bound(self, b, n):
        c = concrete(b)
        if c is not None:
            return c if c >= 0 else n + c
        t = num_term(b)
        return z3.If(t < 0, n + t, t)

    # ---- arrays
    def index_arr(self, a, idx, st):
        """Basic indexing (ints and slices) -> element or view; boolean mask -> bag."""
        if len(idx) == 1 and isinstance(idx[0], SArr) and idx[0].kind == 'bool':
            m = idx[0]
            mf = snap(m)
            bag = SBag(a.shape, mf, snap(a), a.kind)
            bag.mask_id = mask_key(m)
            return bag
        if len(idx) == 1 and isinstance(idx[0], (SArr, SSeq)) and a.ndim == 1 \
                and idx[0].kind == 'int':
            # integer-array ("fancy") read of a 1-D table: a value array shaped like the index
            ix = idx[0]
            af = snap(a)
            n = a.shape[0]
            if isinstance(ix, SArr):
                xf = snap(ix)
                p = tuple(fresh('fi', 'int') for _ in ix.shape)
                guard = z3.And(*[z3.And(x >= 0, x < num_term(d)) for x, d in zip(p, ix.shape)])
                if st is not None:
                    st.check('fancy index within bounds',
                             z3.Implies(guard, z3.And(num_term(xf(p)) >= 0,
                                                      num_term(xf(p)) < num_term(n))))
                return SArr(ix.shape, lambda q: af((xf(q),)), a.kind)
            p = fresh('fi', 'int')
            if st is not None:
                st.check('fancy index within bounds',
                         z3.Implies(z3.And(p >= 0, p < num_term(ix.length)),
                                    z3.And(num_term(ix.fn(p)) >= 0,
                                           num_term(ix.fn(p)) < num_term(n))))
            return SSeq(ix.length, lambda q: af((ix.fn(q),)), a.kind)
        if len(idx) == 1 and isinstance(idx[0], tuple):
            idx = idx[0]
        if len(idx) == a.ndim and a.ndim >= 2 and all(isinstance(k, SArr) and k.kind == 'int'
                                                       for k in idx):
            # a[Y, X] with integer index arrays of one common shape (np.mgrid coordinates): the
            # array shaped like the indices whose element q is a[Y[q], X[q]]
            fs = [snap(k) for k in idx]
            shp = idx[0].shape
            if any(len(k.shape) != len(shp) for k in idx):
                raise Unsupported('index arrays of different rank')
            q = tuple(fresh('fi', 'int') for _ in shp)
            guard = z3.And(*[z3.And(x >= 0, x < num_term(d)) for x, d in zip(q, shp)])
            if st is not None:
                for k in idx[1:]:
                    st.check('index arrays have one shape',
                             z3.And(*[num_term(x) == num_term(y) for x, y in zip(k.shape, shp)]))
                st.check('fancy index within bounds', z3.Implies(guard, z3.And(*[
                    z3.And(num_term(f(q)) >= 0, num_term(f(q)) < num_term(n))
                    for f, n in zip(fs, a.shape)])))
            af = snap(a)
            out = SArr(shp, lambda p, af=af, fs=fs: af(tuple(num_term(f(p)) for f in fs)), a.kind)
            fin = snap_finite(a)
            if fin is not None:
                out.finite = lambda p, fin=fin, fs=fs: fin(tuple(num_term(f(p)) for f in fs))
            return out
        if len(idx) == a.ndim and a.ndim >= 2 and all(isinstance(k, SBag) and k.kind == 'int'
                                                       for k in idx):
            # a[yy, xx] with coordinate bags selected by one mask: the bag of a at those pixels
            b0 = idx[0]
            mid = getattr(b0, 'mask_id', None)
            for k in idx[1:]:
                both_all = getattr(k, 'all_selected', False) and getattr(b0, 'all_selected', False)
                if len(k.shape) != len(b0.shape) or (not both_all and (
                        getattr(k, 'mask_id', None) != mid or (mid is None and k.pred is not b0.pred))):
                    raise Unsupported('coordinate bags selected by different masks')
                if st is not None:
                    st.check('index bags have one shape', z3.And(*[
                        num_term(x) == num_term(y) for x, y in zip(k.shape, b0.shape)]))
            q = tuple(fresh('fi', 'int') for _ in b0.shape)
            guard = z3.And(*[z3.And(x >= 0, x < num_term(d)) for x, d in zip(q, b0.shape)])
            if st is not None:
                st.check('fancy index within bounds',
                         z3.Implies(z3.And(guard, to_bool(b0.pred(q))), z3.And(*[
                             z3.And(num_term(k.val(q)) >= 0, num_term(k.val(q)) < num_term(n))
                             for k, n in zip(idx, a.shape)])))
            af = snap(a)
            vals = [k.val for k in idx]
            out = _bag_like(b0, lambda p, af=af, vals=vals: af(tuple(num_term(v(p)) for v in vals)),
                            a.kind)
            if getattr(b0, 'all_selected', False):
                out.all_selected = True
            return out
        if len(idx) > a.ndim:
            raise Unsupported('too many indices')
        if len(idx) == 1 and a.ndim == 1 and isinstance(idx[0], SSlice) \
                and concrete(idx[0].step) == -1 and idx[0].start is None and idx[0].stop is None:
            # a[::-1] of a 1-D array, modelled as a value (reads only; it has no identity, so an
            # in-place write through it is Unsupported rather than silently lost)
            n = num_term(a.shape[0])
            af = snap(a)
            out = SArr(a.shape, lambda p, af=af: af((n - 1 - num_term(p[0]),)), a.kind)
            fin = snap_finite(a)
            if fin is not None:
                out.finite = lambda p, fin=fin: fin((n - 1 - num_term(p[0]),))
            return out
        offs, shape, keep = [], [], []
        for ax, k in enumerate(idx):
            n = a.shape[ax]
            if isinstance(k, SSlice):
                if k.step is not None and concrete(k.step) != 1:
                    raise Unsupported('strided array slice')
                lo = 0 if k.start is None else self._norm_bound(k.start, n)
                hi = n if k.stop is None else self._norm_bound(k.stop, n)
                lo_t, hi_t = num_term(lo), num_term(hi)
                # numpy clips slice bounds silently: modelled exactly
                lo_c = z3.simplify(z3.If(lo_t < 0, 0, z3.If(lo_t > n, n, lo_t)))
                hi_c = z3.simplify(z3.If(hi_t < 0, 0, z3.If(hi_t > n, n, hi_t)))
                offs.append(lo_c)
                shape.append(z3.simplify(z3.If(hi_c > lo_c, hi_c - lo_c, 0)))
                keep.append(True)
            elif is_intlike(k):
                kt = num_term(k)
                c = concrete(kt)
                if c is not None and c < 0:
                    kt = num_term(n) + c
                if st is not None:
                    st.check('array index in bounds', z3.And(kt >= 0, kt < num_term(n)))
                offs.append(kt)
                keep.append(False)
            else:
                raise Unsupported(f'array index of type {type(k).__name__}')
        for ax in range(len(idx), a.ndim):
            offs.append(0)
            shape.append(a.shape[ax])
            keep.append(True)
        if not any(keep):
            return a.fn(tuple(offs))
        if a.store is not None:
            # compose with the view: dims of `a` are the kept dims of its store
            noff, nkeep = list(a.off), list(a.keep)
            k = 0
            for d in range(len(a.off)):
                if a.keep[d]:
                    noff[d] = z3.simplify(num_term(a.off[d]) + num_term(offs[k]))
                    nkeep[d] = keep[k]
                    k += 1
            return SArr(shape, None, a.kind, a.store, noff, nkeep)
        f0 = a._fn

        def fn(j, f0=f0, offs=tuple(offs), keep=tuple(keep)):
            it = iter(j)
            full = tuple((num_term(next(it)) + o) if kp else o for o, kp in zip(offs, keep))
            return f0(full)
        return SArr(shape, fn, a.kind)

    def own_store(self, name, st):
        """Give a value array bound to a local name an identity so it can be written in place."""
        v = st.env.get(name)
        if isinstance(v, SArr) and v.store is None:
            store = ArrStore(v.shape, v._fn, v.kind, name)
            store.finite = getattr(v, 'finite', None)
            nv = view_of(store)
            st.env[name] = nv
            return nv
        return v

    def write_arr(self, a, idx, v, st):
        """In-place store a[idx] = v through the store of ``a`` (aliasing preserved)."""
        if a.store is None:
            raise Unsupported('in-place write to an array without identity')
        store = a.store
        if getattr(store, 'frozen', False):
            raise Unsupported('in-place write to an element of a symbolic sequence of arrays')
        if idx is not None and len(idx) == 1 and isinstance(idx[0], (SArr, SSeq)) \
                and idx[0].kind == 'int':
            return self.fancy_write(a, idx[0], v, st)
        old = store.fn
        oldfin = store.finite
        store.content_tok = None        # written: no longer a copy of anything
        target = a if idx is None or (len(idx) == 1 and isinstance(idx[0], SArr)
                                      and idx[0].kind == 'bool') else None
        mask = None
        if target is None:
            sub = self.index_arr(a, idx, st)
            if isinstance(sub, SArr):
                target = sub
            else:
                # single element: build a 0-d "view" by hand
                tgt_off = []
                k = 0
                for d in range(len(a.off)):
                    if a.keep[d]:
                        kt = num_term(idx[k])
                        c = concrete(kt)
                        if c is not None and c < 0:
                            kt = num_term(a.shape[k]) + c
                        tgt_off.append(z3.simplify(num_term(a.off[d]) + kt))
                        k += 1
                    else:
                        tgt_off.append(a.off[d])
                target = SArr((), None, a.kind, store, tgt_off, [False] * len(tgt_off))
        elif idx is not None:
            mask = snap(idx[0])
        toff, tkeep, tshape = target.off, target.keep, target.shape

        def local(p):
            return tuple(num_term(pd) - num_term(o) for pd, o, kp in zip(p, toff, tkeep) if kp)

        def inside(p):
            cs = []
            k = 0
            for pd, o, kp in zip(p, toff, tkeep):
                if kp:
                    cs.append(z3.And(num_term(pd) >= num_term(o),
                                     num_term(pd) < num_term(o) + num_term(tshape[k])))
                    k += 1
                else:
                    cs.append(num_term(pd) == num_term(o))
            if mask is not None:
                cs.append(to_bool(mask(local(p))))
            return z3.And(*cs) if cs else z3.BoolVal(True)
        vf = None
        if isinstance(v, SArr):
            vf = snap(v)
            vfin = snap_finite(v)
        elif isinstance(v, SBag):
            if mask is None or getattr(v, 'mask_id', None) != mask_key(idx[0]):
                raise Unsupported('masked store of a bag selected by a different mask')
            vf = v.val
            vfin = None

        def newv(p):
            if vf is not None:
                return vf(local(p))
            return v
        if v is NAN:
            # value becomes non-finite: the numeric value is irrelevant, finiteness flips
            fin0 = oldfin or (lambda p: z3.BoolVal(True))
            store.finite = lambda p, fin0=fin0: z3.And(z3.Not(inside(p)), to_bool(fin0(p)))
            return
        store.fn = lambda p, old=old: self.ite(inside(p), newv(p), old(p))
        if oldfin is not None:
            if vf is not None and isinstance(v, SArr) and vfin is not None:
                store.finite = lambda p: self.ite(inside(p), vfin(local(p)), oldfin(p))
            else:
                store.finite = lambda p: z3.Or(inside(p), to_bool(oldfin(p)))
        elif vf is not None and isinstance(v, SArr) and vfin is not None:
            # non-finite values stored into an array that was finite everywhere
            store.finite = lambda p: self.ite(inside(p), vfin(local(p)), z3.BoolVal(True))

    def fancy_write(self, a, ix, v, st):
        """table[S] = V for a 1-D table with identity, S a 1-D integer sequence, V a scalar or a
        sequence of the same length.  numpy stores in order, so for a repeated index the last
        store wins: new(q) = V(w(q)) if q occurs in S, else old(q), where w(q) is the last
        position of q in S (an uninterpreted function constrained by quantified facts)."""
        if a.ndim != 1 or any(not kp for kp in a.keep) or concrete(a.off[0]) != 0:
            raise Unsupported('integer-array store into a view')
        store = a.store
        if isinstance(ix, SArr):
            if ix.ndim != 1:
                raise Unsupported('integer-array store with a multi-dimensional index')
            xs = snap(ix)
            sfn, n = (lambda k: xs((k,))), ix.shape[0]
        else:
            sfn, n = ix.fn, ix.length
        n = num_term(n)
        old = store.fn
        k = fresh('fk', 'int')
        st.check('fancy store index within bounds',
                 z3.Implies(z3.And(k >= 0, k < n),
                            z3.And(num_term(sfn(k)) >= 0,
                                   num_term(sfn(k)) < num_term(store.shape[0]))))
        uid = next(_fw)

        def member(q):
            kk = z3.Int(f'bv!fw{uid}')
            return z3.Exists([kk], z3.And(kk >= 0, kk < n, num_term(sfn(kk)) == num_term(q)))
        if isinstance(v, (SArr, SSeq)):
            if isinstance(v, SArr):
                if v.ndim != 1:
                    raise Unsupported('integer-array store of a multi-dimensional value')
                vs = snap(v)
                vfn, vn = (lambda j: vs((j,))), v.shape[0]
            else:
                vfn, vn = v.fn, v.length
            st.check('fancy store: value length equals index length', num_term(vn) == n)
            w = z3.Function(f'lastpos!{uid}', z3.IntSort(), z3.IntSort())
            q, j = z3.Int(f'bv!fq{uid}'), z3.Int(f'bv!fj{uid}')
            st.fact(z3.ForAll([q], z3.Implies(
                member(q),
                z3.And(w(q) >= 0, w(q) < n, num_term(sfn(w(q))) == q,
                       z3.ForAll([j], z3.Implies(z3.And(j > w(q), j < n),
                                                 num_term(sfn(j)) != q))))))
            store.content_tok = None
            store.fn = lambda p, old=old: self.ite(member(p[0]), vfn(w(num_term(p[0]))), old(p))
        elif is_num(v):
            store.content_tok = None
            store.fn = lambda p, old=old: self.ite(member(p[0]), v, old(p))
        else:
            raise Unsupported('integer-array store of this value')

    def ite(self, c, a, b):
        c = z3.simplify(to_bool(c))
        if z3.is_true(c):
            return a
        if z3.is_false(c):
            return b
        if is_bool(a) and is_bool(b):
            return z3.If(c, to_bool(a), to_bool(b))
        x, y = coerce2(a, b)
        return z3.If(c, x, y)

    def new_array(self, shape, fn, kind, name='tmp'):
        st = ArrStore(shape, fn, kind, name)
        return view_of(st)

    # ------------------------------------------------------------------ calls
    def ex_Lambda(self, node, st):
        def fn(*args, node=node, st=st):
            s2 = st.clone()
            for a, v in zip(node.args.args, args):
                s2.env[a.arg] = v
            r = self.eval1(node.body, s2)
            # definitional facts made while evaluating the body (the integer of a COUNT
            # reduction, ...) belong to whoever evaluates the lambda
            sink = SINK[-1] if SINK else st
            for f in s2.facts[len(st.facts):]:
                sink.facts.append(f)
            for ca in s2.count_aggs[len(st.count_aggs):]:
                sink.count_aggs.append(ca)
            return r
        f = SFunc(fn, 'lambda')
        f.argnames = [a.arg for a in node.args.args]
        return [(st, f)]

    def ex_ListComp(self, node, st):
        if len(node.generators) != 1 or node.generators[0].ifs:
            raise Unsupported('complex comprehension')
        gen = node.generators[0]
        it = self.eval1(gen.iter, st)
        items = self.concrete_iter(it)
        if items is not None:
            out = []
            for x in items:
                s2 = st  # comprehension variables are local; bodies here are pure
                self.assign(gen.target, x, s2)
                out.append(self.eval1(node.elt, s2))
            return [(st, out)]
        # map over a symbolic sequence (or zip of sequences): elementwise, no loop-carried state
        if isinstance(it, SSeq):
            def fn(i, it=it):
                s2 = st.clone()
                self.assign(gen.target, it.fn(i), s2)
                v, branches = self.eval_paths_merged(node.elt, s2)
                # obligations raised inside the element (callee preconditions) and the facts
                # learned there (callee postconditions) belong to whoever reads element i; what
                # a branch of a conditional element learned holds under that branch's condition
                sink = SINK[-1] if SINK else st
                for cond, ps in branches:
                    for lab, hyps, f in ps.checks[len(st.checks):]:
                        if SINK:
                            sink.lazy_checks.append((lab, list(hyps) + list(sink.guard_stack), f))
                        else:
                            sink.checks.append((lab, hyps, f))
                    for f in ps.facts[len(st.facts):]:
                        sink.facts.append(z3.Implies(cond, f))
                return v
            # the obligations of the element expression hold for every index: collect them now,
            # at a fresh index, whether or not a postcondition ever reads an element
            k = fresh('lc', 'int')
            t0 = st.clone()
            t0.assume(z3.And(k >= 0, k < num_term(it.length)))
            n0 = len(t0.checks)
            try:
                self.assign(gen.target, it.fn(k), t0)
                _, branches0 = self.eval_paths_merged(node.elt, t0)
                for _c, ps in branches0:
                    for lab, hyps, f in ps.checks[n0:]:
                        st.checks.append((lab, hyps, f))
            except Unsupported:
                raise
            return [(st, SSeq(it.length, fn, 'obj'))]
        raise Unsupported('comprehension over unsupported iterable')

    def ex_GeneratorExp(self, node, st):
        return self.ex_ListComp(node, st)

    def ex_Call(self, node, st):
        # evaluate callee
        fname = _dotted(node.func)
        if fname == 'implies' and len(node.args) == 2:
            pol = self.polarity
            self.polarity = -pol
            try:
                a = self.eval1(node.args[0], st)
            finally:
                self.polarity = pol
            a = z3.simplify(to_bool(a))
            if z3.is_false(a):
                return [(st, z3.BoolVal(True))]
            if SINK and self.polarity == 1:
                SINK[-1].guard_stack.append(a)
                try:
                    b = self.eval1(node.args[1], st)
                finally:
                    SINK[-1].guard_stack.pop()
            else:
                b = self.eval1(node.args[1], st)
            return [(st, z3.Implies(a, to_bool(b)))]
        if self.polarity and fname != 'forall':
            # any other function: its arguments are in unknown polarity
            pol = self.polarity
            self.polarity = 0
            try:
                return self._ex_Call(node, st, fname)
            finally:
                self.polarity = pol
        return self._ex_Call(node, st, fname)

    def _ex_Call(self, node, st, fname):
        if fname == 'ite' and len(node.args) == 3:
            a = z3.simplify(to_bool(self.eval1(node.args[0], st)))
            if z3.is_true(a):
                return self.eval(node.args[1], st)
            if z3.is_false(a):
                return self.eval(node.args[2], st)
        if any(isinstance(a, ast.Starred) for a in node.args):
            raise Unsupported('star-args in call')
        out = []
        arg_nodes = list(node.args) + [k.value for k in node.keywords]
        fvals = self.eval(node.func, st) if not isinstance(node.func, ast.Name) or \
            node.func.id in st.env else [(st, ('global', node.func.id))]
        for s0, fv in fvals:
            if isinstance(s0, tuple):
                out.append((s0, None))
                continue
            for s, vals in self.eval_many(arg_nodes, s0):
                if isinstance(s, tuple):
                    out.append((s, None))
                    continue
                args = vals[:len(node.args)]
                kwargs = {}
                for k, v in zip(node.keywords, vals[len(node.args):]):
                    if k.arg is None:           # **mapping: a dict with constant string keys
                        if not isinstance(v, dict) or any(not isinstance(x, str) for x in v):
                            raise Unsupported('** of a value that is not a dict of names')
                        kwargs.update(v)
                    else:
                        kwargs[k.arg] = v
                out.extend(self.call(fv, fname, args, kwargs, s, node))
        return out

    def call(self, fv, fname, args, kwargs, st, node):
        from . import prims
        if isinstance(fv, SFunc):
            if getattr(fv, 'needs_state', False):
                return [(st, fv.fn(st, *args, **kwargs))]
            return [(st, fv.fn(*args, **kwargs))]
        if isinstance(fv, SObj) and fv.cls.startswith('callable:'):
            return [(st, SObj('applied:' + fv.cls[9:], {'fn': fv, 'args': tuple(args)}))]
        if isinstance(fv, tuple) and fv and fv[0] == 'listmethod':
            return [(st, prims.list_method(self, fv[1], fv[2], args, st))]
        if isinstance(fv, tuple) and fv and fv[0] == 'setmethod':
            return [(st, prims.set_method(self, fv[1], fv[2], args, kwargs, st))]
        if isinstance(fv, tuple) and fv and fv[0] == 'dictmethod':
            return [(st, prims.dict_method(self, fv[1], fv[2], args, kwargs, st))]
        if isinstance(fv, tuple) and fv and fv[0] == 'arrmethod':
            return [(st, prims.arr_method(self, fv[1], fv[2], args, kwargs, st))]
        if isinstance(fv, tuple) and fv and fv[0] == 'bound':
            _, obj, meth = fv
            c = self.registry.lookup_method(obj.cls, meth, args=list(args), kwargs=kwargs)
            if c.kind == 'staticmethod':
                return self.apply_contract(c, list(args), kwargs, st)
            return self.apply_contract(c, [obj] + list(args), kwargs, st)
        if isinstance(fv, tuple) and fv and fv[0] == 'localdef':
            return self.call_local(fv[1], args, kwargs, st)
        if isinstance(fv, tuple) and fv and fv[0] == 'inline_method':
            return self.call_method_inline(fv[2], fv[1], args, kwargs, st)
        name = fv[1] if isinstance(fv, tuple) and fv and fv[0] == 'global' else fname
        if isinstance(fv, tuple) and fv and fv[0] == 'class':
            name = fv[1]
        if name == 'cls' and self.cur_class:
            name = self.cur_class
        p = prims.lookup(name)
        if p is not None:
            r = p(self, args, kwargs, st)
            if isinstance(r, list) and r and isinstance(r[0], tuple) and len(r[0]) == 2 \
                    and isinstance(r[0][0], (State, tuple)):
                return r
            return [(st, r)]
        fnode = self._module_function(name)
        if fnode is not None and prims.lookup(name) is None and \
                self.registry.lookup_callable(name, self.cur_class) is None:
            # an uncontracted private helper of the module under verification: its body is part
            # of the verified text (executed, depth-limited), like a helper method
            return self.call_function_inline(fnode, args, kwargs, st)
        real = self._import_alias(name)
        c = None
        if real is not None:
            c = self.registry.lookup_callable(real, self.cur_class)
        if c is None:
            c = self.registry.lookup_callable(name, self.cur_class)
        if c is not None:
            return self.apply_contract(c, args, kwargs, st)
        raise Unsupported(f'call to {name!r} (no primitive and no contract)')

    def _module_function(self, name):
        tree = getattr(self.registry, 'current_tree', None)
        if tree is None or '.' in name or not name.startswith('_'):
            return None
        for n in tree.body:
            if isinstance(n, ast.FunctionDef) and n.name == name and not n.decorator_list:
                return n
        return None

    def call_function_inline(self, fnode, args, kwargs, st):
        marker = ast.Name(id='staticmethod', ctx=ast.Load())
        fnode2 = ast.FunctionDef(name=fnode.name, args=fnode.args, body=fnode.body,
                                 decorator_list=[marker], returns=None, type_comment=None)
        return self.call_method_inline(fnode2, None, args, kwargs, st)

    def _import_alias(self, name):
        """`from photutils.x import real as name` at the top of the module under verification:
        the call goes to the contract of `real` (an alias never changes which function runs)."""
        tree = getattr(self.registry, 'current_tree', None)
        if tree is None or '.' in name:
            return None
        for n in tree.body:
            if isinstance(n, ast.ImportFrom) and (n.module or '').startswith('photutils'):
                for a in n.names:
                    if a.asname == name and a.name != name:
                        return a.name
        return None

    def _find_method_def(self, cls, name, want_property=False):
        tree = getattr(self.registry, 'current_tree', None)
        if tree is None:
            return None
        for n in ast.walk(tree):
            if isinstance(n, ast.ClassDef) and n.name in (cls, self.cur_class):
                for m in n.body:
                    if isinstance(m, ast.FunctionDef) and m.name == name:
                        decs = {_dotted(d) if not isinstance(d, ast.Call) else _dotted(d.func)
                                for d in m.decorator_list}
                        if want_property:
                            return m if decs == {'property'} else None
                        if decs & {'property', 'lazyproperty', 'classmethod'}:
                            return None
                        return m
        return None

    def call_method_inline(self, fnode, selfobj, args, kwargs, st):
        """Execute the body of an uncontracted helper method of the class under verification
        (depth-limited); the helper sees only its own parameters."""
        depth = getattr(self, '_inline_depth', 0)
        if depth >= 2:
            raise Unsupported('nested helper inlining too deep')
        decs = {_dotted(d) if not isinstance(d, ast.Call) else _dotted(d.func)
                for d in fnode.decorator_list}
        names = [a.arg for a in fnode.args.args]
        if 'staticmethod' not in decs:
            args = [selfobj] + list(args)
        if len(args) > len(names) or fnode.args.vararg or fnode.args.kwarg:
            raise Unsupported('helper call signature')
        saved = st.env
        env = {}
        defaults = fnode.args.defaults
        for p, d in zip(names[len(names) - len(defaults):], defaults):
            try:
                env[p] = ast.literal_eval(d)
            except Exception:  # noqa: BLE001
                pass
        for n, a in zip(names, args):
            env[n] = a
        for k, v in kwargs.items():
            if k not in names:
                raise Unsupported('helper keyword')
            env[k] = v
        if any(n not in env for n in names):
            raise Unsupported('helper argument missing')
        # the caller's locals travel with the state (one clone memo per fork keeps the aliasing
        # between the helper's arguments and the caller's variables)
        env['__vf_caller_env'] = saved
        st.env = env
        self._inline_depth = depth + 1
        try:
            results = self.exec_block(fnode.body, st)
        finally:
            self._inline_depth = depth
            if st.env is env:
                st.env = saved
        outs = []
        for s2, oc in results:
            # the caller's locals are restored (arrays are shared objects, so in-place effects
            # of the helper on its arguments are kept)
            caller = saved if s2 is st else s2.env.get('__vf_caller_env')
            if caller is None:
                raise Unsupported('helper body forks')
            s2.env = caller
            if oc[0] == 'raise':
                outs.append(((s2, oc), None))
            elif oc[0] == 'return':
                outs.append((s2, oc[1]))
            else:
                outs.append((s2, None))
        return outs

    def call_local(self, fnode, args, kwargs, st):
        """Call of a function defined inside the function under verification: its body is part
        of the verified text, so it is executed (not abstracted); locals do not leak."""
        saved = dict(st.env)
        names = [a.arg for a in fnode.args.args]
        if len(args) > len(names) or fnode.args.vararg or fnode.args.kwarg:
            raise Unsupported('nested function call signature')
        for n, a in zip(names, args):
            st.env[n] = a
        for k, v in kwargs.items():
            st.env[k] = v
        outs = []
        for s2, oc in self.exec_block(fnode.body, st):
            local = set(s2.env) - set(saved)
            for k in list(s2.env):
                if k in saved:
                    # assignments inside the nested function are local unless declared nonlocal
                    pass
            env_after = dict(saved)
            s2.env = env_after
            if oc[0] == 'raise':
                outs.append(((s2, oc), None))
            elif oc[0] == 'return':
                outs.append((s2, oc[1]))
            else:
                outs.append((s2, None))
        return outs

    def apply_contract(self, c, args, kwargs, st):
        """Modular call: assert requires, havoc result, assume ensures (callee body not used)."""
        from .contracts import bind_args, make_symbolic
        is_init = c.name == '__init__'
        if is_init:
            args = [None] + list(args)      # placeholder for self
        env = bind_args(c, args, kwargs)
        cst = State(env)
        cst.pc = list(st.pc)
        cst.facts = list(st.facts)
        sub = Executor(self.registry, self.module_consts)
        sub.cur_class = c.cls
        for i, r in enumerate(c.requires):
            f = sub.eval_cl(r, cst)
            st.check(f'precondition[{i}] of {c.qualname}: {r}', f)
        outs = []
        # exceptional outcomes
        live = st
        for exc, cond in c.raises:
            f = z3.simplify(to_bool(sub.eval_cl(cond, cst)))
            if z3.is_false(f):
                continue
            r = live.clone()
            r.assume(f)
            if self.feasible(r):
                outs.append(((r, ('raise', exc)), None))
            live.assume(z3.Not(f))
        if not self.feasible(live):
            return outs
        # result shape alternatives: returns = [(condition, type spec), ...] forks on the condition
        alts = c.returns if isinstance(c.returns, list) else [(None, c.returns)]
        if c.mutates:
            raise Unsupported('callee with mutation frame')
        for cond, spec in alts:
            cur = live if len(alts) == 1 else live.clone()
            if cond is not None:
                f = z3.simplify(to_bool(sub.eval_cl(cond, cst)))
                if z3.is_false(f):
                    continue
                cur.assume(f)
                if not self.feasible(cur):
                    continue
            res = make_symbolic(spec, f'{c.name}_ret', self.registry, cur)
            cst2 = State(dict(env))
            cst2.env['result'] = res
            if is_init:
                cst2.env['self'] = res
            cst2.pc, cst2.facts = list(cur.pc), list(cur.facts)
            sub.goal_mode = False
            for e in c.ensures:
                cur.fact(sub.eval_cl(e[1] if isinstance(e, tuple) else e, cst2))
            outs.append((cur, res))
        return outs

    # ------------------------------------------------------------------ contract language
    def eval_cl(self, text, st):
        """Evaluate a contract-language expression (Python expression syntax) symbolically."""
        node = ast.parse(text.strip(), mode='eval').body
        old = self.cl_mode
        self.cl_mode = True
        try:
            return self.eval1(node, st)
        finally:
            self.cl_mode = old

    # ------------------------------------------------------------------ primitives used above
    def prim_sqrt(self, x, st):
        x = num_term(x)
        if z3.is_int(x):
            x = z3.ToReal(x)
        c = concrete(x)
        r = fresh('sqrt', 'real')
        st.fact(z3.Implies(x >= 0, z3.And(r >= 0, r * r == x)))
        return r


def _dotted(node):
    if isinstance(node, ast.Name):
        return node.id
    if isinstance(node, ast.Attribute):
        b = _dotted(node.value)
        return f'{b}.{node.attr}' if b else node.attr
    return ''


def _as_load(t):
    t2 = ast.parse(ast.unparse(t), mode='eval').body
    return t2
