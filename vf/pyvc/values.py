"""Symbolic value domain of the pyvc engine (python3-vt: stdlib + z3)."""
from fractions import Fraction

import z3


class Unsupported(Exception):
    """Construct outside the verified subset: the function is *undecided*, never a violation."""


class SObj:
    """A record (object with named fields); mutable within one path."""

    def __init__(self, cls, fields=None, none_if=None):
        self.cls = cls
        self.fields = dict(fields or {})
        # optional value: z3 Bool "this value is None" (fields are meaningless when it holds)
        self.none_if = none_if

    def __repr__(self):
        return f'SObj({self.cls}, {self.fields})'


class SOpt:
    """An optional non-record value: `value`, or None when the z3 Bool `none_if` holds."""

    def __init__(self, value, none_if):
        self.value = value
        self.none_if = none_if

    def __repr__(self):
        return f'SOpt({self.value!r})'


class SSet:
    """A finite set of integers given by its membership predicate (x -> z3 Bool).  Only built
    from sequences by set(), difference, union and intersection, hence finite."""

    def __init__(self, member):
        self.member = member


class SSlice:
    def __init__(self, start, stop, step=None):
        self.start, self.stop, self.step = start, stop, step

    def __repr__(self):
        return f'SSlice({self.start}, {self.stop}, {self.step})'


class SSeq:
    """1-D sequence / array of symbolic length: length term + element function."""

    def __init__(self, length, fn, kind='real', name=None):
        self.length = length
        self.fn = fn
        self.kind = kind  # 'int' | 'real' | 'bool' | 'obj'
        self.name = name

    def __repr__(self):
        return f'SSeq(len={self.length}, kind={self.kind})'


class SArr:
    """N-d array as shape terms + element function (index tuple -> value).

    A *value* array has ``store is None`` and an immutable element function ``_fn``.
    A *view* has a ``store`` (the memory it aliases), per-store-dimension offsets ``off`` and a
    ``keep`` flag per store dimension (False = that dimension was fixed by an integer index).
    Reads through a view are dynamic (they see later in-place writes, as numpy views do); every
    value-producing operation snapshots its operands with ``snap``.
    """

    def __init__(self, shape, fn, kind='real', store=None, off=None, keep=None):
        self.shape = tuple(shape)
        self._fn = fn
        self.kind = kind
        self.store = store
        if store is not None:
            self.off = tuple(off) if off is not None else tuple(0 for _ in store.shape)
            self.keep = tuple(keep) if keep is not None else tuple(True for _ in store.shape)
        else:
            self.off = self.keep = None

    def to_store(self, idx):
        it = iter(idx)
        return tuple((num_term(next(it)) + o) if kp else o for o, kp in zip(self.off, self.keep))

    def fn(self, idx):
        if self.store is not None:
            return self.store.fn(self.to_store(idx))
        return self._fn(idx)

    @property
    def ndim(self):
        return len(self.shape)

    def __repr__(self):
        return f'SArr(shape={self.shape}, kind={self.kind}, view={self.store is not None})'


def snap(v):
    """Element function of an array *as of now* (immune to later in-place writes)."""
    if isinstance(v, SArr):
        if v.store is not None:
            sfn = v.store.fn
            return lambda idx, sfn=sfn, v=v: sfn(v.to_store(idx))
        return v._fn
    if isinstance(v, SSeq):
        return v.fn
    raise TypeError(type(v))


def snap_finite(v):
    """Per-element finiteness predicate of an array as of now (None = every element finite)."""
    if isinstance(v, SArr):
        if v.store is not None and v.store.finite is not None:
            f = v.store.finite
            return lambda idx, f=f, v=v: f(v.to_store(idx))
        return getattr(v, 'finite', None)
    return None


class SBag:
    """Result of boolean-mask indexing a[m]: the multiset {val(p) : p in box(shape), pred(p)}."""

    def __init__(self, shape, pred, val, kind='real'):
        self.shape = tuple(shape)
        self.pred = pred
        self.val = val
        self.kind = kind


class SStr:
    """Opaque string (f-strings, messages)."""

    def __init__(self, text='<str>'):
        self.text = text

    def __repr__(self):
        return f'SStr({self.text!r})'


class SExc:
    def __init__(self, name, args=()):
        self.name = name
        self.args = args


class SFunc:
    """A callable known to the engine (lambda in a contract, or a named primitive)."""

    def __init__(self, fn, name='<fn>'):
        self.fn = fn
        self.name = name


# ---------------------------------------------------------------------------------------------
# z3 helpers

def is_z3(v):
    return isinstance(v, z3.ExprRef)


def is_bool(v):
    return isinstance(v, bool) or (is_z3(v) and z3.is_bool(v))


def is_intlike(v):
    if isinstance(v, bool):
        return False
    return isinstance(v, int) or (is_z3(v) and z3.is_int(v))


def is_reallike(v):
    return isinstance(v, (float, Fraction)) or (is_z3(v) and z3.is_real(v))


def is_num(v):
    return is_intlike(v) or is_reallike(v) or is_bool(v)


def to_z3(v):
    if is_z3(v):
        return v
    if isinstance(v, bool):
        return z3.BoolVal(v)
    if isinstance(v, int):
        return z3.IntVal(v)
    if isinstance(v, float):
        if v != v or v in (float('inf'), float('-inf')):
            raise Unsupported('non-finite float constant')
        fr = Fraction(v)  # exact binary value of the literal
        # literals such as 0.1 are meant as decimals in Real mode
        dec = Fraction(repr(v))
        if dec != fr and float(dec) == v:
            fr = dec
        return z3.RealVal(f'{fr.numerator}/{fr.denominator}')
    if isinstance(v, Fraction):
        return z3.RealVal(f'{v.numerator}/{v.denominator}')
    raise Unsupported(f'cannot convert {type(v).__name__} to a term')


def to_bool(v):
    """Python truthiness of a symbolic scalar."""
    if isinstance(v, bool):
        return z3.BoolVal(v)
    if v is None:
        return z3.BoolVal(False)
    if is_z3(v):
        if z3.is_bool(v):
            return v
        if z3.is_int(v) or z3.is_real(v):
            return v != 0
    if isinstance(v, (int, float, Fraction)):
        return z3.BoolVal(v != 0)
    if isinstance(v, (tuple, list, str)):
        return z3.BoolVal(len(v) > 0)
    if isinstance(v, (SObj, SFunc, SSlice)):
        return z3.BoolVal(True)
    raise Unsupported(f'truth value of {type(v).__name__}')


def num_term(v):
    """Numeric z3 term (bools become 0/1)."""
    t = to_z3(v)
    if z3.is_bool(t):
        return z3.If(t, z3.IntVal(1), z3.IntVal(0))
    return t


def coerce2(a, b):
    a, b = num_term(a), num_term(b)
    if z3.is_real(a) and z3.is_int(b):
        b = z3.ToReal(b)
    elif z3.is_int(a) and z3.is_real(b):
        a = z3.ToReal(a)
    return a, b


def simplify(v):
    return z3.simplify(v) if is_z3(v) else v


def concrete(v):
    """Return a Python constant if the term is a literal, else None."""
    if isinstance(v, (bool, int, float, Fraction, str)) or v is None:
        return v
    if is_z3(v):
        v = z3.simplify(v)
        if z3.is_int_value(v):
            return v.as_long()
        if z3.is_rational_value(v):
            return Fraction(v.numerator_as_long(), v.denominator_as_long())
        if z3.is_true(v):
            return True
        if z3.is_false(v):
            return False
    return None


def model_value(m, t):
    """Python value of term t in model m (ints, Fractions, bools)."""
    v = m.eval(t, model_completion=True)
    if z3.is_int_value(v):
        return v.as_long()
    if z3.is_rational_value(v):
        return Fraction(v.numerator_as_long(), v.denominator_as_long())
    if z3.is_algebraic_value(v):
        a = v.approx(20)
        return Fraction(a.numerator_as_long(), a.denominator_as_long())
    if z3.is_true(v):
        return True
    if z3.is_false(v):
        return False
    return str(v)
