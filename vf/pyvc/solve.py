"""SMT discharge: z3 (wheel) first; on unknown the same query goes to /usr/bin/cvc5 and z3-new
as SMT-LIB text.  `unknown` everywhere stays unknown (never success, never a violation)."""
import os
import re
import shutil
import subprocess
import tempfile
import time

import z3

from ..common import OUT

STATS = {'queries': 0, 'z3': 0, 'z3-ackermann-nlsat': 0, 'cvc5': 0, 'z3cli': 0, 'unknown': 0, 'time_s': 0.0}


def _has_nonlinear_or_quant(fs):
    return True


def check(formulas, timeout_s=20, want_model=False, tag=''):
    """Return (result, model, backend); result in {'sat','unsat','unknown'}."""
    t0 = time.time()
    STATS['queries'] += 1
    s = z3.Solver()
    quick = min(2.0, timeout_s)
    s.set('timeout', int(quick * 1000))
    for f in formulas:
        s.add(f)
    r = s.check()
    backend = 'z3'
    res = str(r)
    model = None
    if r == z3.unknown:
        # non-linear real arithmetic under uninterpreted functions: nlsat after Ackermann
        res2, be2 = _ackermann_nlsat(formulas, timeout_s)
        if res2 == 'unsat':
            STATS[be2] += 1
            STATS['time_s'] += time.time() - t0
            return 'unsat', None, be2
        if timeout_s > quick:
            s = z3.Solver()          # a fresh solver: a second check() would be incremental
            s.set('timeout', int(timeout_s * 1000))
            for f in formulas:
                s.add(f)
            r = s.check()
            res = str(r)
    if r == z3.sat:
        model = s.model() if want_model else None
        STATS['z3'] += 1
    elif r == z3.unsat:
        STATS['z3'] += 1
    else:
        res2, be2 = _external(s, timeout_s * 3, tag)
        if res2 in ('sat', 'unsat'):
            res, backend = res2, be2
            STATS[be2 if be2 in STATS else 'cvc5'] += 1
        else:
            STATS['unknown'] += 1
            res = 'unknown'
    STATS['time_s'] += time.time() - t0
    return res, model, backend


def _ackermann_nlsat(formulas, timeout_s):
    """Quantifier-free queries with uninterpreted functions over non-linear real arithmetic:
    replace every UF application by a fresh constant, add the congruence axioms pairwise
    (Ackermann reduction) and decide the pure arithmetic query with nlsat.  Only `unsat` is used:
    the reduction is a relaxation of the original query, so `unsat` carries over."""
    goal = z3.And(*[f for f in formulas]) if formulas else z3.BoolVal(True)
    apps = {}
    bad = [False]

    def walk(t, seen):
        if t.get_id() in seen:
            return
        seen.add(t.get_id())
        if z3.is_quantifier(t):
            bad[0] = True
            return
        if z3.is_app(t):
            d = t.decl()
            if d.kind() == z3.Z3_OP_UNINTERPRETED and t.num_args() > 0:
                apps.setdefault(d.name(), []).append(t)
            for ch in t.children():
                walk(ch, seen)

    walk(goal, set())
    if bad[0] or not apps:
        return 'unknown', ''
    # innermost first so that nested applications are rewritten consistently
    allapps = sorted({a.get_id(): a for v in apps.values() for a in v}.values(),
                     key=lambda a: len(a.sexpr()))
    if len(allapps) > 60:
        return 'unknown', ''
    subs = []
    fresh = {}
    for i, a in enumerate(allapps):
        fresh[a.get_id()] = z3.Const(f'ack!{i}', a.sort())
    def rew(t):
        for a in reversed(allapps):          # outermost first
            t = z3.substitute(t, (a, fresh[a.get_id()]))
        return t
    cong = []
    for name, lst in apps.items():
        uniq = list({a.get_id(): a for a in lst}.values())
        for i in range(len(uniq)):
            for j in range(i + 1, len(uniq)):
                a, b = uniq[i], uniq[j]
                if a.decl().arity() != b.decl().arity():
                    continue
                eqs = [rew(x) == rew(y) for x, y in zip(a.children(), b.children())]
                cong.append(z3.Implies(z3.And(*eqs), fresh[a.get_id()] == fresh[b.get_id()]))
    try:
        sv = z3.Tactic('qfnra-nlsat').solver()
        sv.set('timeout', int(timeout_s * 1000))
        sv.add(rew(goal))
        for c in cong:
            sv.add(c)
        r = sv.check()
    except z3.Z3Exception:
        return 'unknown', ''
    if r == z3.unsat:
        return 'unsat', 'z3-ackermann-nlsat'
    return 'unknown', ''


def smt2_of(s, logic=None):
    text = s.to_smt2()
    return text


def _run(cmd, text, timeout):
    try:
        p = subprocess.run(cmd, input=text, capture_output=True, text=True, timeout=timeout)
    except (subprocess.TimeoutExpired, OSError):
        return 'unknown'
    out = p.stdout.strip().splitlines()
    for line in out:
        line = line.strip()
        if line in ('sat', 'unsat'):
            return line
    return 'unknown'


def _external(s, timeout_s, tag):
    text = smt2_of(s)
    os.makedirs(os.path.join(OUT, 'smt'), exist_ok=True)
    fn = os.path.join(OUT, 'smt', re.sub(r'[^A-Za-z0-9_.-]+', '_', tag)[-150:] + '.smt2')
    try:
        with open(fn, 'w') as f:
            f.write(text)
    except OSError:
        pass
    if shutil.which('cvc5'):
        # z3's to_smt2 emits no set-logic; cvc5 needs one
        t2 = '(set-logic ALL)\n' + text
        r = _run(['cvc5', f'--tlimit={int(timeout_s * 1000)}', '--nl-cov', '--lang=smt2'], t2,
                 timeout_s + 5)
        if r in ('sat', 'unsat'):
            return r, 'cvc5'
    if shutil.which('z3-new'):
        r = _run(['z3-new', '-in', f'-T:{int(timeout_s)}'], text, timeout_s + 5)
        if r in ('sat', 'unsat'):
            return r, 'z3cli'
    return 'unknown', ''


def confirm_sat_external(formulas, timeout_s=30):
    """Second-solver confirmation of a `sat` answer (used before reporting without replay)."""
    s = z3.Solver()
    for f in formulas:
        s.add(f)
    r, be = _external(s, timeout_s, 'confirm')
    return r, be
