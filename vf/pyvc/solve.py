"""SMT discharge: z3 (wheel) first; on unknown the same query goes to /usr/bin/cvc5 and z3-new
as SMT-LIB text.  `unknown` everywhere stays unknown (never success, never a violation)."""
import os
import re
import shutil
import subprocess
import tempfile
import time

import z3

from ..common import OUT

STATS = {'queries': 0, 'z3': 0, 'cvc5': 0, 'z3cli': 0, 'unknown': 0, 'time_s': 0.0}


def _has_nonlinear_or_quant(fs):
    return True


def check(formulas, timeout_s=20, want_model=False, tag=''):
    """Return (result, model, backend); result in {'sat','unsat','unknown'}."""
    t0 = time.time()
    STATS['queries'] += 1
    s = z3.Solver()
    s.set('timeout', int(timeout_s * 1000))
    for f in formulas:
        s.add(f)
    r = s.check()
    backend = 'z3'
    res = str(r)
    model = None
    if r == z3.sat:
        model = s.model() if want_model else None
        STATS['z3'] += 1
    elif r == z3.unsat:
        STATS['z3'] += 1
    else:
        res2, be2 = _external(s, timeout_s * 3, tag)
        if res2 in ('sat', 'unsat'):
            res, backend = res2, be2
            STATS[be2 if be2 in STATS else 'cvc5'] += 1
        else:
            STATS['unknown'] += 1
            res = 'unknown'
    STATS['time_s'] += time.time() - t0
    return res, model, backend


def smt2_of(s, logic=None):
    text = s.to_smt2()
    return text


def _run(cmd, text, timeout):
    try:
        p = subprocess.run(cmd, input=text, capture_output=True, text=True, timeout=timeout)
    except (subprocess.TimeoutExpired, OSError):
        return 'unknown'
    out = p.stdout.strip().splitlines()
    for line in out:
        line = line.strip()
        if line in ('sat', 'unsat'):
            return line
    return 'unknown'


def _external(s, timeout_s, tag):
    text = smt2_of(s)
    os.makedirs(os.path.join(OUT, 'smt'), exist_ok=True)
    fn = os.path.join(OUT, 'smt', re.sub(r'[^A-Za-z0-9_.-]+', '_', tag)[-150:] + '.smt2')
    try:
        with open(fn, 'w') as f:
            f.write(text)
    except OSError:
        pass
    if shutil.which('cvc5'):
        # z3's to_smt2 emits no set-logic; cvc5 needs one
        t2 = '(set-logic ALL)\n' + text
        r = _run(['cvc5', f'--tlimit={int(timeout_s * 1000)}', '--nl-cov', '--lang=smt2'], t2,
                 timeout_s + 5)
        if r in ('sat', 'unsat'):
            return r, 'cvc5'
    if shutil.which('z3-new'):
        r = _run(['z3-new', '-in', f'-T:{int(timeout_s)}'], text, timeout_s + 5)
        if r in ('sat', 'unsat'):
            return r, 'z3cli'
    return 'unknown', ''


def confirm_sat_external(formulas, timeout_s=30):
    """Second-solver confirmation of a `sat` answer (used before reporting without replay)."""
    s = z3.Solver()
    for f in formulas:
        s.add(f)
    r, be = _external(s, timeout_s, 'confirm')
    return r, be
