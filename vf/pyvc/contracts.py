"""Contract records, the registry, and symbolic-input construction for pyvc."""
import dataclasses

import z3

from .symexec import ArrStore, fresh, view_of
from .values import SArr, SObj, SSeq, SSlice, Unsupported


@dataclasses.dataclass
class Contract:
    target: str                      # "photutils/aperture/bounding_box.py::BoundingBox.from_float"
    props: list
    params: dict                     # name -> type spec (order = positional order)
    requires: list = dataclasses.field(default_factory=list)
    ensures: list = dataclasses.field(default_factory=list)    # (label, CL text)
    raises: list = dataclasses.field(default_factory=list)     # (ExcName, CL condition): raised iff
    returns: object = None           # type spec of the result (for modular use by callers)
    cases: dict = dataclasses.field(default_factory=dict)      # name -> list of concrete values
    kind: str = 'function'           # function | method | classmethod | staticmethod | property
    loops: dict = dataclasses.field(default_factory=dict)      # lineno-or-ordinal -> LoopSpec
    mutates: list = dataclasses.field(default_factory=list)
    assumed: bool = False            # contract on a dependency (not verified; listed as trusted)
    note: str = ''
    replay: dict = None              # how to call the real function with a model
    lemma_of: str = ''               # text tying the obligations to the property statement
    defaults: dict = dataclasses.field(default_factory=dict)   # param defaults for modular calls
    pyx: bool = False
    mutants: list = dataclasses.field(default_factory=list)    # (old text, new text) must be killed
    consts: dict = dataclasses.field(default_factory=dict)     # module-level constants
    stmt: str = ''                   # statement contract: name assigned inside the function
    stmt_like: str = ''              # shape of the statement's right-hand side (names may be renamed)
    stmt_nth: int = 0                # which assignment to `stmt` (0-based) when none has that shape
    block: tuple = ()                # block contract: (first assigned name, last assigned name)
    block_like: str = ''             # shape of the first statement's right-hand side (renamed locals)
    block_skip: object = 0           # leading statements (int) or statement indices (tuple) of the block left
                                     # out: what they compute is a parameter of the contract
    custom: object = None            # callable(verifier, contract, fdef, consts) -> obligations
    tag: str = ''                    # distinguishes several contracts on one function
    relate: dict = None              # relational (two-run) contract: {'extra': {name: spec}, 'second': {param: CL}}

    @property
    def file(self):
        return self.target.split('::')[0]

    @property
    def qualname(self):
        return self.target.split('::')[1]

    @property
    def _parts(self):
        parts = self.qualname.split('.')
        if parts[-1] == 'setter' and len(parts) >= 3:
            return parts[:-2] + [parts[-2] + '.setter']
        return parts

    @property
    def name(self):
        return self._parts[-1]

    @property
    def cls(self):
        parts = self._parts
        return parts[-2] if len(parts) > 1 else None

    @property
    def is_property(self):
        return self.kind == 'property'


class Registry:
    def __init__(self):
        self.contracts = {}     # target -> Contract
        self.records = {}       # class name -> {field: type spec}
        self.bases = {}         # class name -> [base names]

    def add(self, c):
        sub = c.tag or c.stmt or ('-'.join(str(b) for b in c.block) if c.block else '')
        key = c.target + (f'@{sub}' if sub else '')
        c.key = key
        self.contracts[key] = c
        return c

    def record(self, name, fields, bases=()):
        self.records[name] = fields
        self.bases[name] = list(bases)

    def is_subclass(self, cls, base):
        if cls == base:
            return True
        return any(self.is_subclass(b, base) for b in self.bases.get(cls, []))

    def lookup_method(self, cls, name, args=None, kwargs=None):
        """The contract of method `name` for class `cls` (or a base).  Several contracts may exist
        for one method (scalar and sequence forms of an argument): with the actual arguments given
        the first whose parameter specs fit their shapes is taken."""
        seen = [cls] + self._all_bases(cls)
        first = None
        for k in seen:
            for c in self.contracts.values():
                # a block / statement / relational / lemma contract speaks about a part of the
                # body or about two runs: it is never the contract of a *call*
                if c.block or c.stmt or c.custom is not None or getattr(c, 'relate', None):
                    continue
                if c.cls == k and c.name == name:
                    if args is None or _args_fit(c, args, kwargs):
                        return c
                    first = first or c
        return first

    def _all_bases(self, cls):
        out = []
        for b in self.bases.get(cls, []):
            out.append(b)
            out.extend(self._all_bases(b))
        return out

    def lookup_callable(self, name, cur_class=None):
        short = name.split('.')[-1]
        # Class(...) -> Class.__init__
        if short in self.records or any(c.cls == short for c in self.contracts.values()):
            c = self.lookup_method(short, '__init__')
            if c is not None:
                return c
        # Class.method(...)
        if '.' in name:
            k, m = name.split('.')[-2:]
            c = self.lookup_method(k, m)
            if c is not None:
                return c
        # a relational (two-run) contract is a theorem about the function, not its call contract
        for c in self.contracts.values():
            if c.cls is None and c.name == short and not getattr(c, 'relate', None) \
                    and not c.block and not c.stmt and c.custom is None:
                return c
        return None

    def for_prop(self, prop):
        return [c for c in self.contracts.values() if prop in c.props]


def make_symbolic(spec, name, reg, st):
    """Build a symbolic value from a type spec; side facts (ranges) go into st.facts."""
    if spec is None or spec == 'none':
        return None
    if isinstance(spec, str):
        if spec in ('int', 'real', 'bool'):
            return fresh(name, spec)
        if spec == 'nat':
            v = fresh(name, 'int')
            st.fact(v >= 0)
            return v
        if spec == 'pos':
            v = fresh(name, 'int')
            st.fact(v >= 1)
            return v
        if spec == 'posreal':
            v = fresh(name, 'real')
            st.fact(v > 0)
            return v
        if spec == 'slice':
            return SSlice(fresh(name + '_start', 'int'), fresh(name + '_stop', 'int'))
        if spec == 'slice2':
            return (make_symbolic('slice', name + '_y', reg, st),
                    make_symbolic('slice', name + '_x', reg, st))
        if spec == 'str':
            from .values import SStr
            return SStr(name)
        if spec in reg.records:
            return SObj(spec, {f: make_symbolic(t, f'{name}.{f}', reg, st)
                               for f, t in reg.records[spec].items()})
        raise Unsupported(f'type spec {spec!r}')
    if isinstance(spec, tuple):
        tag = spec[0]
        if tag == 'tuple':
            return tuple(make_symbolic(t, f'{name}_{i}', reg, st) for i, t in enumerate(spec[1:]))
        if tag == 'const':
            v = spec[1]
            if isinstance(v, (list, dict)):
                import copy
                return copy.deepcopy(v)     # a fresh container per instantiation (paths mutate it)
            return v
        if tag == 'seq':       # ('seq', elemkind[, length-term-name])
            n = fresh(name + '_len', 'int')
            st.fact(n >= 0)
            kind = spec[1]
            if isinstance(kind, tuple) and kind[0] == 'arr':
                # sequence of arrays: element k has its own shape and contents
                nd, ek, flags = kind[1], kind[2], kind[3:]
                sort = {'int': z3.IntSort(), 'real': z3.RealSort(), 'bool': z3.BoolSort()}[ek]
                uid = id(n)
                dims = [z3.Function(f'{name}_n{d}!{uid}', z3.IntSort(), z3.IntSort())
                        for d in range(nd)]
                vals = z3.Function(f'{name}!{uid}', *([z3.IntSort()] * (nd + 1)), sort)
                fin = z3.Function(f'{name}_finite!{uid}', *([z3.IntSort()] * (nd + 1)),
                                  z3.BoolSort()) if 'nonfinite' in flags else None
                q = z3.Int(f'bv!seqarr{uid}')
                for d in dims:
                    st.fact(z3.ForAll([q], d(q) >= (1 if 'nonempty' in flags else 0)))
                cache = {}

                def elem(k, dims=dims, vals=vals, fin=fin):
                    kt = _int(k)
                    key = kt.get_id() if hasattr(kt, 'get_id') else kt
                    if key in cache:
                        return cache[key]
                    shape = tuple(d(kt) for d in dims)
                    store = ArrStore(shape, lambda idx: vals(kt, *[_int(i) for i in idx]), ek,
                                     f'{name}[{k}]')
                    if fin is not None:
                        store.finite = lambda idx: fin(kt, *[_int(i) for i in idx])
                    store.frozen = True
                    if 'anydtype' in flags:
                        store.maybe_int = True
                    cache[key] = view_of(store)
                    return cache[key]
                return SSeq(n, elem, 'obj', name)
            if kind in ('int', 'real', 'bool'):
                f = z3.Function(f'{name}!{id(n)}', z3.IntSort(),
                                {'int': z3.IntSort(), 'real': z3.RealSort(),
                                 'bool': z3.BoolSort()}[kind])
                return SSeq(n, lambda i, f=f: f(_int(i)), kind, name)
            # sequence of records: one uninterpreted function of the position per scalar field
            optional = isinstance(kind, tuple) and kind[0] == 'opt'
            if optional:
                kind = kind[1]
            if isinstance(kind, str) and kind in reg.records:
                fields = reg.records[kind]
                ufs = {}
                for fname, ft in fields.items():
                    srt = {'int': z3.IntSort(), 'nat': z3.IntSort(), 'pos': z3.IntSort(),
                           'real': z3.RealSort(), 'posreal': z3.RealSort(),
                           'bool': z3.BoolSort()}.get(ft)
                    if srt is None:
                        raise Unsupported(f'sequence of records with a non-scalar field {fname}')
                    ufs[fname] = (z3.Function(f'{name}.{fname}!{id(n)}', z3.IntSort(), srt), ft)
                isnone = z3.Function(f'{name}.isnone!{id(n)}', z3.IntSort(), z3.BoolSort())
                q = z3.Int(f'bv!seqrec{id(n)}')
                for fname, (f, ft) in ufs.items():
                    if ft in ('nat',):
                        st.fact(z3.ForAll([q], f(q) >= 0))
                    elif ft in ('pos',):
                        st.fact(z3.ForAll([q], f(q) >= 1))
                    elif ft == 'posreal':
                        st.fact(z3.ForAll([q], f(q) > 0))
                cache = {}

                def elem(k, ufs=ufs, kind=kind):
                    kt = _int(k)
                    key = kt.get_id() if hasattr(kt, 'get_id') else kt
                    if key not in cache:
                        cache[key] = SObj(kind, {fn_: f(kt) for fn_, (f, _) in ufs.items()},
                                          none_if=(isnone(kt) if optional else None))
                    return cache[key]
                return SSeq(n, elem, 'obj', name)
            if isinstance(kind, tuple) and kind[0] in ('tuple', 'opt') or kind in ('slice', 'slice2'):
                # sequence of tuples / slices / optionals of those: one uninterpreted function of
                # the position per scalar leaf
                from .values import SOpt
                uid = id(n)
                ufs = {}

                def leaf(path, sort, k):
                    if path not in ufs:
                        ufs[path] = z3.Function(f'{name}{path}!{uid}', z3.IntSort(), sort)
                    return ufs[path](k)

                def build(kd, path, k):
                    if kd in ('int', 'nat'):
                        return leaf(path, z3.IntSort(), k)
                    if kd == 'real':
                        return leaf(path, z3.RealSort(), k)
                    if kd == 'bool':
                        return leaf(path, z3.BoolSort(), k)
                    if kd == 'slice':
                        return SSlice(leaf(path + '.start', z3.IntSort(), k),
                                      leaf(path + '.stop', z3.IntSort(), k), None)
                    if kd == 'slice2':
                        return (build('slice', path + '[0]', k), build('slice', path + '[1]', k))
                    if isinstance(kd, tuple) and kd[0] == 'tuple':
                        return tuple(build(t, f'{path}[{i}]', k) for i, t in enumerate(kd[1:]))
                    if isinstance(kd, tuple) and kd[0] == 'opt':
                        return SOpt(build(kd[1], path, k), leaf(path + '.isnone', z3.BoolSort(), k))
                    raise Unsupported(f'sequence element kind {kd!r}')
                cache = {}

                def elem(k):
                    kt = _int(k)
                    key = kt.get_id() if hasattr(kt, 'get_id') else kt
                    if key not in cache:
                        cache[key] = build(kind, '', kt)
                    return cache[key]
                return SSeq(n, elem, 'obj', name)
            raise Unsupported('sequence of this element kind')
        if tag == 'arr':       # ('arr', ndim, kind[, flags])
            nd, kind = spec[1], spec[2]
            shape = tuple(fresh(f'{name}_n{k}', 'int') for k in range(nd))
            for d in shape:
                st.fact(d >= (1 if 'nonempty' in spec[3:] else 0))
            sort = {'int': z3.IntSort(), 'real': z3.RealSort(), 'bool': z3.BoolSort()}[kind]
            f = z3.Function(f'{name}!{id(shape)}', *([z3.IntSort()] * nd), sort)
            store = ArrStore(shape, lambda idx, f=f: f(*[_int(i) for i in idx]), kind, name)
            if 'nonfinite' in spec[3:]:
                g = z3.Function(f'{name}_finite!{id(shape)}', *([z3.IntSort()] * nd),
                                z3.BoolSort())
                store.finite = lambda idx, g=g: g(*[_int(i) for i in idx])
            if 'anydtype' in spec[3:]:
                store.maybe_int = True      # may arrive as a narrow (unsigned) integer array
            return view_of(store)
        if tag == 'ufunc':      # ('ufunc', name, arity): external elementwise function (uninterpreted)
            from .values import SFunc
            from .prims import uf, real
            fname, ar = spec[1], spec[2]

            def call(*args, **kw):
                arrs = [a for a in args[:ar] if isinstance(a, SArr)]
                if arrs:
                    from .values import snap
                    fs = [snap(a) if isinstance(a, SArr) else None for a in args[:ar]]
                    return SArr(arrs[0].shape,
                                lambda idx: uf(fname, ar)(*[real(f(idx)) if f is not None
                                                            else real(a)
                                                            for f, a in zip(fs, args[:ar])]),
                                'real')
                return uf(fname, ar)(*[real(a) for a in args[:ar]])
            return SFunc(call, fname)
        if tag == 'callable':   # ('callable', result spec): an opaque function; every call
            from .values import SFunc      # returns a fresh value of that spec (nothing else known)
            calls = [0]

            def call(st2, *args, **kw):
                calls[0] += 1
                return make_symbolic(spec[1], f'{name}()#{calls[0]}', reg, st2)
            f = SFunc(call, name)
            f.needs_state = True
            return f
        if tag == 'record':
            return SObj(spec[1], {f: make_symbolic(t, f'{name}.{f}', reg, st)
                                  for f, t in spec[2].items()})
        if tag == 'opt':        # ('opt', 'Record'): a record or None (symbolic which)
            v = make_symbolic(spec[1], name, reg, st)
            if not isinstance(v, SObj):
                from .values import SOpt
                return SOpt(v, z3.Bool(f'{name}.isnone!{id(v)}'))
            v.none_if = z3.Bool(f'{name}.isnone!{id(v)}')
            return v
        if tag == 'dict':       # ('dict', {key: spec}): a dict / table with these string keys
            return {k: make_symbolic(t, f'{name}[{k!r}]', reg, st) for k, t in spec[1].items()}
    raise Unsupported(f'type spec {spec!r}')


def _args_fit(c, args, kwargs=None):
    """Shape compatibility of actual arguments (after self) with the contract's parameter specs:
    a scalar spec needs a scalar, a sequence / array spec needs a sequence or array."""
    from .values import is_num
    names = [n for n in c.params if n not in ('self', 'cls')]
    pairs = list(zip(names, args)) + [(k, v) for k, v in (kwargs or {}).items() if k in c.params]
    for n, a in pairs:
        spec = c.params[n]
        if spec == ('const', None) and a is not None:
            return False
        if a is None and isinstance(spec, tuple) and spec and spec[0] in ('seq', 'arr'):
            return False
        scalar_spec = spec in ('int', 'nat', 'pos', 'real', 'posreal', 'bool', 'str')
        seq_spec = isinstance(spec, tuple) and spec and spec[0] in ('seq', 'arr')
        if scalar_spec and isinstance(a, (SSeq, SArr, list, tuple)):
            return False
        if seq_spec and (is_num(a) or isinstance(a, (int, float, bool))):
            return False
    return True


def _int(i):
    from .values import num_term
    return num_term(i)


def _seq_of_records(proto, n, name):
    raise Unsupported('sequence of records')


def bind_args(c, args, kwargs):
    names = list(c.params)
    env = {}
    for n, a in zip(names, args):
        env[n] = a
    for k, v in kwargs.items():
        if k not in c.params:
            raise Unsupported(f'unexpected keyword {k} for {c.qualname}')
        env[k] = v
    for n in names:
        if n not in env:
            if n in c.defaults:
                env[n] = c.defaults[n]
            else:
                raise Unsupported(f'missing argument {n} for {c.qualname}')
    return env
