"""Bounded stand-in for a *lost* proof: when a function contract can no longer be verified (the
function was restructured beyond the verified subset), its contract text is still checked at run
time on sampled inputs through the replay machinery (same `requires` / `ensures` / `raises`).
Never counted as proved.  Models are produced in the flattened format of counter-models."""
import random

REALS = [-7.25, -2.5, -1.0, -0.5, -1e-3, 0.0, 1e-3, 0.25, 0.5, 1.0, 1.5, 2.0, 2.75, 3.5, 6.0, 10.125,
         41.5]
INTS = [-9, -3, -2, -1, 0, 1, 2, 3, 4, 5, 7, 12, 31]


def _scalar(spec, rng):
    if spec == 'int':
        return rng.choice(INTS)
    if spec == 'nat':
        return rng.choice([i for i in INTS if i >= 0])
    if spec == 'pos':
        return rng.choice([i for i in INTS if i >= 1])
    if spec == 'real':
        return rng.choice(REALS) if rng.random() < 0.6 else round(rng.uniform(-20, 20), 3)
    if spec == 'posreal':
        return rng.choice([r for r in REALS if r > 0]) if rng.random() < 0.6 \
            else round(rng.uniform(0.05, 20), 3)
    if spec == 'bool':
        return rng.random() < 0.5
    return None


def _fill(model, name, spec, records, rng):
    if spec is None or spec == 'none':
        return
    if isinstance(spec, str):
        if spec in records:
            for f, t in records[spec].items():
                _fill(model, f'{name}.{f}', t, records, rng)
            return
        if spec == 'slice':
            a = rng.choice(INTS)
            model[f'{name}.start'], model[f'{name}.stop'] = a, a + rng.choice([0, 1, 2, 5])
            return
        if spec == 'slice2':
            _fill(model, name + '[0]', 'slice', records, rng)
            _fill(model, name + '[1]', 'slice', records, rng)
            return
        v = _scalar(spec, rng)
        if v is not None:
            model[name] = v
        return
    tag = spec[0]
    if tag == 'tuple':
        for i, t in enumerate(spec[1:]):
            _fill(model, f'{name}[{i}]', t, records, rng)
    elif tag == 'const':
        pass
    elif tag == 'record':
        for f, t in spec[2].items():
            _fill(model, f'{name}.{f}', t, records, rng)
    elif tag == 'seq' and spec[1] in ('int', 'real', 'bool'):
        n = rng.choice([0, 1, 2, 3, 5])
        model[f'{name}.seq'] = [_scalar({'int': 'int', 'real': 'real', 'bool': 'bool'}[spec[1]], rng)
                                for _ in range(n)]
    elif tag == 'arr' and spec[1] == 2:
        lo = 1 if 'nonempty' in spec[3:] else 0
        h, w = rng.choice([lo, 1, 2, 3]), rng.choice([lo, 1, 2, 4])
        k = {'int': 'int', 'real': 'real', 'bool': 'bool'}[spec[2]]
        model[f'{name}.arr'] = [[_scalar(k, rng) for _ in range(w)] for _ in range(h)]
    elif tag == 'arr' and spec[1] == 1:
        k = {'int': 'int', 'real': 'real', 'bool': 'bool'}[spec[2]]
        model[f'{name}.seq'] = [_scalar(k, rng) for _ in range(rng.choice([1, 2, 3]))]


def models(params, extra, cases, records, n, seed=0):
    rng = random.Random(seed)
    out = []
    names = list(cases)
    for k in range(n):
        m = {}
        for name, spec in list(params.items()) + list((extra or {}).items()):
            if name in cases:
                continue
            _fill(m, name, spec, records, rng)
        m['_case'] = {nm: cases[nm][k % len(cases[nm])] for nm in names}
        out.append(m)
    return out
