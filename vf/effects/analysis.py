"""E2 core: modular may-alias / write-effect analysis of the real photutils sources.

Abstract value of an expression = (set of *origins* it may alias, kind).
Origins:  'P:<param>'   object supplied by the caller through parameter <param>
          'F:<field>'   object stored in self.<field>
          'FRESH'       created inside the function
          'G'           module-level / external object
Containers are conflated with their elements.  The analysis is flow-sensitive inside a function
(strong update on rebinding, join at branches, loops iterated to a fixpoint) and modular across
functions (callers use the callee *summary*: which parameters / self fields it may write in place,
and which origins its result may alias).  Soundness is relative to the tables in tables.py.
"""
import ast
import os

from . import tables as T

FRESH = 'FRESH'
_tr = os.environ.get('VF_EFF_TRACE', '')
TRACE = (_tr.split(':')[0], int(_tr.split(':')[1])) if _tr else None


class AVal:
    """o = objects the value may BE; c = objects its elements / entries may be (containers are
    not conflated with what they hold); ek = kind of the elements of a container; items = the
    component values when the value is a tuple display of known length."""
    __slots__ = ('o', 'c', 'kind', 'ek', 'items', 'fields', 'efields')

    def __init__(self, o=(), kind='unknown', c=(), ek='unknown', items=None, fields=None,
                 efields=None):
        self.o = frozenset(o)
        self.c = frozenset(c)
        # 'scalar' | 'container' | 'ndarray' | 'array' | 'index' | 'object[:Cls]' | 'unknown'
        self.kind = kind
        self.ek = ek
        self.items = items
        # fields: for an object built by a constructor of this repository, what each attribute
        # set in __init__ may be (so that obj.data is not conflated with obj.bbox);
        # efields: the same for the elements of a container of such objects.  None = unknown
        # (attribute reads then fall back to "anything the object holds").
        self.fields = fields
        self.efields = efields

    def join(self, other):
        if not other.o and not other.c and other.items is None and other.kind == 'unknown':
            return self
        if not self.o and not self.c and self.items is None and self.kind == 'unknown':
            return other
        # a scalar (e.g. None) cannot be written in place: scalar joined with X behaves as X
        k = self.kind if self.kind == other.kind else (
            other.kind if self.kind == 'scalar' else
            self.kind if other.kind == 'scalar' else 'unknown')
        ek = self.ek if self.ek == other.ek else (
            other.ek if self.ek == 'empty' else self.ek if other.ek == 'empty' else 'unknown')
        items = None
        if self.items is not None and other.items is not None and \
                len(self.items) == len(other.items):
            items = tuple(a.join(b) for a, b in zip(self.items, other.items))
        return AVal(self.o | other.o, k, self.c | other.c, ek, items,
                    _join_fields(self.fields, other.fields, self, other),
                    _join_fields(self.efields, other.efields, self, other, elem=True))

    def __eq__(self, other):
        return isinstance(other, AVal) and self.o == other.o and self.kind == other.kind \
            and self.c == other.c and self.ek == other.ek and self.items == other.items \
            and self.fields == other.fields and self.efields == other.efields

    def __hash__(self):
        return hash((self.o, self.c, self.kind, self.ek))

    def __repr__(self):
        return f'AVal({sorted(self.o)}, {self.kind}, c={sorted(self.c)}, ek={self.ek})'

    def all(self):
        return self.o | self.c


def _join_fields(a, b, va, vb, elem=False):
    """Join of two attribute maps: kept only when both sides know the same attributes (a None /
    scalar side, or an empty container for element maps, contributes nothing)."""
    def neutral(v):
        if v.kind == 'scalar':
            return True
        if elem:
            # an empty container, or an object of a known class (not iterable), has no elements
            return (v.kind == 'container' and v.ek == 'empty' and not v.c) \
                or v.kind.startswith('object:') or (v.fields is not None and v.efields is None)
        return v.kind == 'container'        # a list / tuple has no constructor attributes
    if a is None and b is None:
        return None
    if a is None:
        return b if neutral(va) else None
    if b is None:
        return a if neutral(vb) else None
    if set(a) != set(b):
        return None
    return {k: a[k].join(b[k]) for k in a}


def _fields_repr(f):
    if f is None:
        return None
    return tuple(sorted((k, repr(v), _fields_repr(v.fields)) for k, v in f.items()))


def untag(o):
    return o.replace('~nma', '').replace('~buf', '')


def deep(o):
    """Origin of something reached from origin o by subscript / attribute / iteration."""
    o = untag(o)
    if o in (FRESH, 'G', 'SELF') or o.endswith('/'):
        return o
    return o + '/'


def _unlocal(v):
    """Allocation-site origins are function-local: seen from outside they are fresh objects."""
    def m(os_):
        return {FRESH if o.startswith('L:') else o for o in os_}
    items = None
    if v.items is not None:
        items = tuple(_unlocal(x) for x in v.items)

    def mf(f):
        return None if f is None else {k: _unlocal(x) for k, x in f.items()}
    return AVal(m(v.o), v.kind, m(v.c) - {FRESH}, v.ek, items, mf(v.fields), mf(v.efields))


def elems(v):
    """Abstract value of an element / attribute / view of v."""
    if v.kind == 'scalar':
        return AVal([FRESH], 'scalar')
    if v.kind == 'index':
        # boolean / integer index arrays are arrays too: basic slices of them are views
        return AVal({deep(x) for x in v.o} or {FRESH}, 'index', v.c)
    if v.kind == 'container':
        if v.ek in ('scalar', 'index'):
            return AVal([FRESH], v.ek)
        if v.ek == 'container':
            return AVal([FRESH], 'container', v.c)
        return AVal(v.c or {FRESH}, 'unknown', v.c, fields=v.efields)
    return AVal({deep(x) for x in v.o} | set(v.c), 'unknown', v.c, fields=v.efields)


def container(vals, items=False):
    c = set()
    kinds = set()
    for v in vals:
        c |= (v.o | v.c)
        kinds.add(v.kind)
    c.discard(FRESH)
    ek = next(iter(kinds)) if len(kinds) == 1 else ('empty' if not kinds else 'unknown')
    ef = None
    if vals and all(v.fields is not None for v in vals) \
            and all(set(v.fields) == set(vals[0].fields) for v in vals):
        ef = dict(vals[0].fields)
        for v in vals[1:]:
            ef = {k: ef[k].join(v.fields[k]) for k in ef}
    return AVal([FRESH], 'container', c, ek, tuple(vals) if items else None, efields=ef)


FRESHV = AVal([FRESH])
SCALAR = AVal([FRESH], 'scalar')
NONEV = AVal([FRESH], 'scalar')     # the constant None (identity-compared)


class Effect:
    __slots__ = ('origin', 'lineno', 'desc', 'site', 'via')

    def __init__(self, origin, lineno, desc, site, via=()):
        self.origin = origin
        self.lineno = lineno
        self.desc = desc
        self.site = site       # qualname of the function containing the write statement
        self.via = tuple(via)  # call chain

    def key(self):
        return (self.origin, self.site, self.desc.split(' @')[0])


class FuncInfo:
    def __init__(self, module, qualname, node, cls=None):
        self.module = module
        self.qualname = qualname
        self.node = node
        self.cls = cls
        self.name = node.name
        self.decorators = [_dotted(d.func if isinstance(d, ast.Call) else d)
                           for d in node.decorator_list]
        a = node.args
        self.params = [x.arg for x in a.posonlyargs + a.args] + \
            ([a.vararg.arg] if a.vararg else []) + [x.arg for x in a.kwonlyargs] + \
            ([a.kwarg.arg] if a.kwarg else [])
        self.pos_params = [x.arg for x in a.posonlyargs + a.args]
        self.is_static = 'staticmethod' in self.decorators
        self.is_classmethod = 'classmethod' in self.decorators
        self.is_property = any(d.split('.')[-1] in ('property', 'lazyproperty', 'cached_property')
                               or d.endswith('.getter') for d in self.decorators)
        self.is_lazy = any(d.split('.')[-1] == 'lazyproperty' for d in self.decorators)
        self.is_setter = any(d.endswith('.setter') for d in self.decorators)
        # summary
        self.effects = {}        # key -> Effect
        self.ret = AVal()
        self.field_writes = {}   # field -> set(lineno)  (rebinding self.f = ...)
        self.field_reads = set()
        self.calls = set()
        self.loops = []          # per-source loop info for independence obligations
        self.local_writes = []
        self.unsupported = []

    @property
    def target(self):
        return f'{self.module.rel}::{self.qualname}'

    def summary_sig(self):
        return (frozenset(self.effects), self.ret.o, self.ret.c, self.ret.kind, self.ret.ek,
                repr(self.ret.items), frozenset(self.field_writes),
                _fields_repr(self.ret.fields), _fields_repr(self.ret.efields))


class ClassInfo:
    def __init__(self, module, node):
        self.module = module
        self.node = node
        self.name = node.name
        self.bases = [_dotted(b).split('.')[-1] for b in node.bases]
        self.methods = {}
        self.field_alias = {}    # field -> origins the field object may BE ('P:<method>:<param>' ...)
        self.field_alias_c = {}  # field -> origins the field's elements may be
        self.field_class = {}    # field -> repo class names of objects constructed into it
        self.field_kind = {}
        self.class_attrs = {}

    def mro(self, world, seen=None):
        seen = seen or set()
        out = [self]
        seen.add(self.name)
        for b in self.bases:
            for k in world.classes.get(b, []):
                if k.name not in seen:
                    out.extend(k.mro(world, seen))
        return out


class ModuleInfo:
    def __init__(self, rel, tree):
        self.rel = rel
        self.tree = tree
        self.functions = {}
        self.classes = {}
        self.imports = {}
        self.all = []


def _dotted(node):
    if isinstance(node, ast.Name):
        return node.id
    if isinstance(node, ast.Attribute):
        b = _dotted(node.value)
        return f'{b}.{node.attr}' if b else node.attr
    if isinstance(node, ast.Call):
        return _dotted(node.func)
    return ''


class World:
    """All analysed modules of the repo."""

    def __init__(self, repo):
        self.repo = repo
        self.modules = {}
        self.classes = {}     # name -> [ClassInfo]
        self.functions = {}   # name -> [FuncInfo]  (module-level)
        self.methods = {}     # name -> [FuncInfo]
        self.parse_errors = []

    def load(self):
        root = os.path.join(self.repo, 'photutils')
        for dp, dn, fn in os.walk(root):
            dn[:] = [d for d in dn if d not in ('tests', 'extern', '__pycache__', 'data')]
            for f in sorted(fn):
                if not f.endswith('.py') or f in ('conftest.py', 'version.py', '_dev.py'):
                    continue
                path = os.path.join(dp, f)
                rel = os.path.relpath(path, self.repo)
                try:
                    tree = ast.parse(open(path).read())
                except SyntaxError as e:
                    self.parse_errors.append(f'{rel}: {e}')
                    continue
                self.add_module(rel, tree)

    def add_module(self, rel, tree):
        m = ModuleInfo(rel, tree)
        self.modules[rel] = m
        for n in tree.body:
            if isinstance(n, ast.FunctionDef):
                fi = FuncInfo(m, n.name, n)
                m.functions[n.name] = fi
                self.functions.setdefault(n.name, []).append(fi)
            elif isinstance(n, ast.ClassDef):
                ci = ClassInfo(m, n)
                m.classes[n.name] = ci
                self.classes.setdefault(n.name, []).append(ci)
                for b in n.body:
                    if isinstance(b, ast.FunctionDef):
                        fi = FuncInfo(m, f'{n.name}.{b.name}', b, ci)
                        # keep getter when a setter of the same name follows
                        key = b.name + ('.setter' if fi.is_setter else '')
                        ci.methods[key] = fi
                        self.methods.setdefault(b.name, []).append(fi)
                    elif isinstance(b, ast.Assign):
                        for t in b.targets:
                            if isinstance(t, ast.Name):
                                ci.class_attrs[t.id] = b.value
            elif isinstance(n, (ast.Import, ast.ImportFrom)):
                for al in n.names:
                    local = al.asname or al.name.split('.')[0]
                    full = (f'{n.module}.{al.name}' if isinstance(n, ast.ImportFrom) and n.module
                            else al.name)
                    m.imports[local] = full
            elif isinstance(n, ast.Assign):
                for t in n.targets:
                    if isinstance(t, ast.Name) and t.id == '__all__':
                        try:
                            m.all = list(ast.literal_eval(n.value))
                        except Exception:  # noqa: BLE001
                            pass
        # nested imports inside functions (e.g. "from photutils.morphology import x")
        for n in ast.walk(tree):
            if isinstance(n, ast.ImportFrom) and n.module:
                for al in n.names:
                    m.imports.setdefault(al.asname or al.name, f'{n.module}.{al.name}')

    def all_funcs(self):
        for m in self.modules.values():
            yield from m.functions.values()
            for c in m.classes.values():
                yield from c.methods.values()

    def find_method(self, cls, name):
        for k in cls.mro(self):
            if name in k.methods:
                return k.methods[name]
        return None

    def resolve_call(self, fi, fname):
        """Candidate FuncInfo list for a call name as written in function fi."""
        parts = fname.split('.')
        m = fi.module
        if len(parts) == 1:
            n = parts[0]
            if n in m.functions:
                return [m.functions[n]], None
            if n in m.classes:
                return self._ctor(m.classes[n]), m.classes[n]
            if n in m.imports and m.imports[n].startswith('photutils'):
                short = m.imports[n].split('.')[-1]
                cands = [f for f in self.functions.get(short, [])]
                if cands:
                    return cands, None
                ks = self.classes.get(short, [])
                if ks:
                    return self._ctor(ks[0]), ks[0]
            return [], None
        if parts[0] in ('self', 'cls') and len(parts) == 2 and fi.cls is not None:
            f = self.find_method(fi.cls, parts[1])
            # dynamic dispatch: the receiver may be an instance of a subclass that overrides
            # the method (always so for abstract hooks)
            subs = [g for g in self._sub_methods(fi.cls, parts[1]) if g is not f]
            return (([f] if f else []) + subs), None
        if parts[0] in m.classes and len(parts) == 2:
            f = self.find_method(m.classes[parts[0]], parts[1])
            return ([f] if f else []), None
        if len(parts) == 2 and parts[0] in m.imports and \
                m.imports[parts[0]].startswith('photutils'):
            short = m.imports[parts[0]].split('.')[-1]
            ks = self.classes.get(short, [])
            if ks:
                f = self.find_method(ks[0], parts[1])
                return ([f] if f else []), None
        return [], None

    def _ctor(self, cls):
        f = self.find_method(cls, '__init__')
        return [f] if f else []

    def _sub_methods(self, cls, name):
        out = []
        for ks in self.classes.values():
            for k in ks:
                if k is not cls and cls in k.mro(self) and name in k.methods:
                    out.append(k.methods[name])
        return out

    def methods_named(self, name):
        if name in T.EXTERNAL_METHOD_NAMES:
            return []
        return self.methods.get(name, [])


class Analyzer:
    """Abstract interpretation of one function body."""

    def __init__(self, world, fi):
        self.w = world
        self.fi = fi
        self.effects = {}
        self.ret = AVal()
        self.field_writes = {}
        self.field_reads = set()
        self.calls = set()
        self.loops = []
        self.local_writes = []    # (allocation site 'L:name@line', write line, description)

    # ---------------------------------------------------------------- driver
    def run(self):
        fi = self.fi
        env = {}
        a = fi.node.args
        star = {x.arg for x in (a.vararg, a.kwarg) if x is not None}
        for p in fi.params:
            if p == 'self' and not fi.is_static:
                env[p] = AVal(['SELF'], 'object')
            elif p == 'cls' and fi.is_classmethod:
                env[p] = AVal(['G'], 'object')
            elif p in star:
                # *args / **kwargs are fresh containers holding the caller's objects
                env[p] = AVal([FRESH], 'container', [f'P:{p}'])
            else:
                kind = 'unknown'
                if (fi.target, p) in T.SCALAR_PARAMS or p in T.SCALAR_PARAM_NAMES:
                    kind = 'scalar'
                env[p] = AVal([f'P:{p}'], kind)
        self.block(fi.node.body, env)
        return self

    def block(self, stmts, env):
        for s in stmts:
            self.stmt(s, env)

    def join_env(self, a, b):
        out = {}
        for k in set(a) | set(b):
            if k in a and k in b:
                out[k] = a[k].join(b[k])
            else:
                out[k] = a.get(k) or b.get(k)
        return out

    # ---------------------------------------------------------------- statements
    def stmt(self, s, env):
        if TRACE and self.fi.module.rel.endswith(TRACE[0]) and s.lineno == TRACE[1]:
            import sys
            print(f'TRACE {self.fi.qualname}:{s.lineno}', file=sys.stderr)
            for nm in sorted({x.id for x in ast.walk(s) if isinstance(x, ast.Name)}):
                print('   ', nm, env.get(nm), 'fields', getattr(env.get(nm), 'fields', None) is not None, 'efields', getattr(env.get(nm), 'efields', None) is not None, file=sys.stderr)
        m = getattr(self, 's_' + type(s).__name__, None)
        if m is None:
            for n in ast.iter_child_nodes(s):
                if isinstance(n, ast.expr):
                    self.ev(n, env)
            return
        m(s, env)

    def s_Expr(self, s, env):
        self.ev(s.value, env)

    def s_Return(self, s, env):
        if s.value is not None:
            self.ret = self.ret.join(_unlocal(self.ev(s.value, env)))

    def s_Assign(self, s, env):
        v = self.ev(s.value, env)
        for t in s.targets:
            self.assign(t, v, env, s.value, s.lineno)

    def s_AnnAssign(self, s, env):
        if s.value is not None:
            self.assign(s.target, self.ev(s.value, env), env, s.value, s.lineno)

    def assign(self, t, v, env, valnode, lineno):
        if isinstance(t, ast.Name):
            if v.o == {FRESH} and v.kind != 'scalar':
                # allocation site: a fresh object bound to a local name gets its own identity so
                # that in-place writes through aliases / views of it can be traced (loop
                # independence); 'L:' origins never leave the function
                v = AVal([f'L:{t.id}@{lineno}'], v.kind, v.c, v.ek, v.items, v.fields,
                         v.efields)
            env[t.id] = v
        elif isinstance(t, (ast.Tuple, ast.List)):
            elts = valnode.elts if isinstance(valnode, (ast.Tuple, ast.List)) and \
                len(valnode.elts) == len(t.elts) else None
            for i, e in enumerate(t.elts):
                if isinstance(e, ast.Starred):
                    e = e.value
                if elts is not None:
                    self.assign(e, self.ev(elts[i], env), env, elts[i], lineno)
                elif v.items is not None and len(v.items) == len(t.elts):
                    self.assign(e, v.items[i], env, None, lineno)
                elif v.kind == 'scalar':
                    self.assign(e, SCALAR, env, None, lineno)
                else:
                    self.assign(e, elems(v), env, None, lineno)
        elif isinstance(t, ast.Attribute):
            base = self.ev(t.value, env)
            if 'SELF' in base.o and isinstance(t.value, ast.Name):
                self.field_writes.setdefault(t.attr, set()).add(lineno)
                if self.fi.cls is not None:
                    self.record_field_alias(t.attr, v)
            else:
                # attribute store on an object that is not self: in-place change of that object
                self.write(base.o, lineno, f'attribute store .{t.attr}', attr_level=True)
        elif isinstance(t, ast.Subscript):
            base = self.ev(t.value, env)
            self.ev(t.slice, env)
            if isinstance(t.value, ast.Attribute) and t.value.attr == '__dict__' and \
                    isinstance(t.value.value, ast.Name) and t.value.value.id == 'self':
                key = t.slice.value if isinstance(t.slice, ast.Constant) else None
                if isinstance(key, str):
                    self.field_writes.setdefault(key, set()).add(lineno)
                    self.record_field_alias(key, v)
                else:
                    self.field_writes.setdefault('*', set()).add(lineno)
                return
            self.write(base.o, lineno, 'item store')
            self.add_contents(t.value, v, env)

    def add_contents(self, node, v, env):
        """container[...] = v / container.append(v): the container now also holds v."""
        if isinstance(node, ast.Name) and node.id in env:
            cur = env[node.id]
            extra = (v.o | v.c) - {FRESH, 'SELF'}
            ek = cur.ek
            ef = cur.efields
            if v is not NONEV:
                ek = v.kind if cur.ek == 'empty' else (cur.ek if cur.ek == v.kind else 'unknown')
                if cur.ek == 'empty' and not cur.c:
                    ef = v.fields
                elif cur.efields is not None and v.fields is not None \
                        and set(cur.efields) == set(v.fields):
                    ef = {k: cur.efields[k].join(v.fields[k]) for k in v.fields}
                else:
                    ef = None
            env[node.id] = AVal(cur.o, cur.kind, cur.c | extra, ek, cur.items, cur.fields, ef)
        elif isinstance(node, ast.Attribute) and isinstance(node.value, ast.Name) and \
                node.value.id == 'self' and self.fi.cls is not None:
            s = self.fi.cls.field_alias_c.setdefault(node.attr, set())
            for o in (v.o | v.c):
                s.add(self._qual(o))

    def _qual(self, o):
        o = untag(o)
        if o.startswith('L:'):
            return FRESH
        if o.startswith('P:'):
            return f'P:{self.fi.name}:{o[2:]}'
        return o

    def record_field_alias(self, field, v):
        cls = self.fi.cls
        if cls is None:
            return
        so = cls.field_alias.setdefault(field, set())
        sc = cls.field_alias_c.setdefault(field, set())
        for o in v.o:
            if o != 'SELF':
                so.add(self._qual(o))
        for o in v.c:
            if o != 'SELF':
                sc.add(self._qual(o))
        cls.field_kind.setdefault(field, set()).add('scalar' if v.kind == 'scalar' else 'other')
        if v.kind.startswith('object:'):
            cls.field_class.setdefault(field, set()).add(v.kind[7:])

    def s_AugAssign(self, s, env):
        v = self.ev(s.value, env)
        t = s.target
        if isinstance(t, ast.Name):
            cur = env.get(t.id, AVal(['G']))
            if (self.fi.target, t.id) in T.LOCAL_SCALARS:
                return
            if isinstance(s.op, ast.LShift):
                # ndarray <<= unit rebinds the name to a Quantity *view*; a Quantity is converted
                # in place.  A write iff the target may be a caller-owned Quantity.
                # Only a caller's own object can be a Quantity carrying another unit; values
                # held in fields / lazy caches are unit-less arrays that get their unit attached
                # here (assumption listed in tables.TRUSTED).
                direct = {o for o in cur.o if o.startswith('P:') and not o.endswith('/')}
                if cur.kind != 'ndarray' and direct:
                    self.write(direct, s.lineno, 'in-place <<= (unit conversion of a Quantity)')
                env[t.id] = AVal(cur.o, 'array', cur.c)
                return
            if cur.kind == 'scalar':
                env[t.id] = SCALAR if v.kind in ('scalar', 'unknown') else AVal([FRESH], v.kind)
                return
            if cur.kind == 'container' and isinstance(s.op, ast.Add):
                self.write(cur.o, s.lineno, 'list += (extend in place)')
                env[t.id] = AVal(cur.o, 'container', cur.c | ((v.o | v.c) - {FRESH}))
                return
            self.write(cur.o, s.lineno, f'augmented assignment {type(s.op).__name__}=')
        elif isinstance(t, ast.Subscript):
            base = self.ev(t.value, env)
            self.ev(t.slice, env)
            if base.kind == 'container':
                # d[k] += v on a python container rebinds the entry (for immutable entries) or
                # mutates the element: report the element objects
                self.write(base.o, s.lineno, 'augmented item store')
                if (self.fi.target, ast.unparse(t)) not in T.LOCAL_SCALARS:
                    self.write({x for x in base.c}, s.lineno, 'augmented item store (element)')
            else:
                self.write(base.o, s.lineno, 'augmented item store')
        elif isinstance(t, ast.Attribute):
            base = self.ev(t.value, env)
            if 'SELF' in base.o and isinstance(t.value, ast.Name):
                cur = self.attr_of_self(t.attr)
                kinds = set()
                if self.fi.cls:
                    for k in self.fi.cls.mro(self.w):
                        kinds |= k.field_kind.get(t.attr, set())
                self.field_writes.setdefault(t.attr, set()).add(s.lineno)
                if kinds == {'scalar'} or cur.kind == 'scalar':
                    return
                self.write(cur.o, s.lineno, f'augmented assignment on self.{t.attr}')
            else:
                self.write({(o if '~buf' in o else deep(o)) for o in base.o}, s.lineno,
                           f'augmented attribute store .{t.attr}', attr_level=True)

    def s_Delete(self, s, env):
        for t in s.targets:
            if isinstance(t, ast.Subscript):
                self.write(self.ev(t.value, env).o, s.lineno, 'del item')
            elif isinstance(t, ast.Attribute):
                base = self.ev(t.value, env)
                if 'SELF' in base.o:
                    self.field_writes.setdefault(t.attr, set()).add(s.lineno)
                else:
                    self.write(base.o, s.lineno, 'del attribute')
            elif isinstance(t, ast.Name):
                env.pop(t.id, None)

    def s_If(self, s, env):
        self.ev(s.test, env)
        a = dict(env)
        b = dict(env)
        self.refine(s.test, a, True)
        self.refine(s.test, b, False)
        self.block(s.body, a)
        self.block(s.orelse, b)
        env.clear()
        ta, tb = _terminates(s.body), _terminates(s.orelse)
        if ta and not tb:
            env.update(b)
        elif tb and not ta:
            env.update(a)
        else:
            env.update(self.join_env(a, b))

    def refine(self, test, env, truth):
        """`x is None` / `x is not None` refinement (None is never written); a failed
        `isinstance(x, MaskedArray)` test tags x as 'not a MaskedArray'."""
        if isinstance(test, ast.Call) and _dotted(test.func) == 'isinstance' and \
                len(test.args) == 2 and isinstance(test.args[0], ast.Name) and not truth:
            tn = _dotted(test.args[1])
            if tn.split('.')[-1] == 'MaskedArray' and test.args[0].id in env:
                v = env[test.args[0].id]
                env[test.args[0].id] = AVal({(o + '~nma') if o.startswith(('P:', 'F:')) and
                                             '~' not in o else o for o in v.o}, v.kind, v.c)
            return
        if isinstance(test, ast.Compare) and len(test.ops) == 1 and \
                isinstance(test.left, ast.Name) and isinstance(test.comparators[0], ast.Constant) \
                and test.comparators[0].value is None:
            is_none = isinstance(test.ops[0], ast.Is) == truth
            if isinstance(test.ops[0], (ast.Is, ast.IsNot)) and is_none:
                env[test.left.id] = AVal([FRESH], 'scalar')

    def s_For(self, s, env):
        it = self.ev(s.iter, env)
        info = {'lineno': s.lineno, 'target': ast.unparse(s.target), 'iter': ast.unparse(s.iter),
                'node': s}
        self.loops.append(info)
        rebound = {t.id for st in ast.walk(s) if isinstance(st, (ast.Assign, ast.AugAssign))
                   for tg in (st.targets if isinstance(st, ast.Assign) else [st.target])
                   for t in ast.walk(tg) if isinstance(t, ast.Name)}
        iter_names = {x.id for x in ast.walk(s.iter) if isinstance(x, ast.Name)}
        for _ in range(5):
            before = dict(env)
            if not (iter_names & rebound):
                # the iterable is evaluated once in Python; re-evaluate only to pick up
                # contents added inside the loop when its names are not rebound in the body
                it = it.join(self.ev(s.iter, env))
            self.bind_iter(s.target, s.iter, it, env)
            self.block(s.body, env)
            j = self.join_env(before, env)
            if j == before:
                env.clear()
                env.update(j)
                break
            env.clear()
            env.update(j)
        self.block(s.orelse, env)

    def bind_iter(self, t, iternode, it, env):
        """Bind loop / comprehension target(s) to the elements of the iterable."""
        if _is_range_like(iternode):
            for n in ast.walk(t):
                if isinstance(n, ast.Name):
                    env[n.id] = SCALAR
            return
        if isinstance(t, ast.Name):
            env[t.id] = elems(it)
            return
        if isinstance(t, (ast.Tuple, ast.List)):
            # for a, b in zip(x, y) / enumerate(x): element-wise origins
            if isinstance(iternode, ast.Call) and _dotted(iternode.func) in ('zip', 'enumerate'):
                args = list(iternode.args)
                if _dotted(iternode.func) == 'enumerate':
                    vals = [SCALAR, elems(self.ev(args[0], env))] if args else []
                else:
                    vals = [elems(self.ev(a, env)) for a in args]
                if len(vals) == len(t.elts):
                    for e, v in zip(t.elts, vals):
                        self.bind_elem(e, v, env)
                    return
            if isinstance(iternode, ast.Call) and isinstance(iternode.func, ast.Attribute) and \
                    iternode.func.attr == 'items' and len(t.elts) == 2:
                base = self.ev(iternode.func.value, env)
                self.bind_elem(t.elts[0], SCALAR, env)
                self.bind_elem(t.elts[1], elems(base), env)
                return
            e1 = elems(it)
            for e in t.elts:
                self.bind_elem(e, elems(e1) if e1.kind != 'scalar' else e1, env)

    def bind_elem(self, t, v, env):
        if isinstance(t, ast.Name):
            env[t.id] = v
        elif isinstance(t, (ast.Tuple, ast.List)):
            for e in t.elts:
                self.bind_elem(e, elems(v), env)
        elif isinstance(t, ast.Starred):
            self.bind_elem(t.value, v, env)

    def s_While(self, s, env):
        for _ in range(5):
            before = dict(env)
            self.ev(s.test, env)
            self.block(s.body, env)
            j = self.join_env(before, env)
            if j == before:
                break
            env.clear()
            env.update(j)
        self.block(s.orelse, env)

    def s_With(self, s, env):
        for it in s.items:
            self.ev(it.context_expr, env)
            if it.optional_vars is not None:
                self.assign(it.optional_vars, FRESHV, env, None, s.lineno)
        self.block(s.body, env)

    def s_Try(self, s, env):
        start = dict(env)
        self.block(s.body, env)
        after_body = dict(env)
        outs = [after_body]
        for h in s.handlers:
            e = self.join_env(start, after_body)
            if h.name:
                e[h.name] = FRESHV
            self.block(h.body, e)
            outs.append(e)
        e2 = dict(after_body)
        self.block(s.orelse, e2)
        outs.append(e2)
        j = outs[0]
        for o in outs[1:]:
            j = self.join_env(j, o)
        self.block(s.finalbody, j)
        env.clear()
        env.update(j)

    def s_FunctionDef(self, s, env):
        # nested function: analyse its body in the enclosing environment (captures)
        inner = dict(env)
        for a in s.args.args + s.args.kwonlyargs:
            inner[a.arg] = AVal(['G'])
        saved = self.ret
        self.block(s.body, inner)
        self.ret = saved
        env[s.name] = AVal([FRESH], 'scalar')

    def s_ClassDef(self, s, env):
        pass

    def s_Raise(self, s, env):
        if s.exc is not None:
            self.ev(s.exc, env)

    def s_Assert(self, s, env):
        self.ev(s.test, env)

    def s_Import(self, s, env):
        pass

    s_ImportFrom = s_Import
    s_Pass = s_Import
    s_Break = s_Import
    s_Continue = s_Import
    s_Global = s_Import
    s_Nonlocal = s_Import

    # ---------------------------------------------------------------- effects
    def write(self, origins, lineno, desc, via=(), site=None, attr_level=False):
        for o in origins:
            if o in (FRESH, 'G', 'SELF'):
                continue
            if o.startswith('L:'):
                self.local_writes.append((untag(o), lineno, desc))
                continue
            if '~buf' in o and attr_level:
                continue      # attribute of a fresh wrapper object (e.g. its own mask)
            o = untag(o)
            e = Effect(o, lineno, desc if ' @' in desc else
                       f'{desc} @{self.fi.module.rel}:{lineno}', site or self.fi.qualname, via)
            self.effects.setdefault(e.key(), e)

    # ---------------------------------------------------------------- expressions
    def ev(self, n, env):
        m = getattr(self, 'e_' + type(n).__name__, None)
        if m is None:
            for c in ast.iter_child_nodes(n):
                if isinstance(c, ast.expr):
                    self.ev(c, env)
            return FRESHV
        return m(n, env)

    def e_Constant(self, n, env):
        return NONEV if n.value is None else SCALAR

    def e_Name(self, n, env):
        if (self.fi.target, n.id) in T.LOCAL_SCALARS:
            return SCALAR
        if n.id in env:
            return env[n.id]
        return AVal(['G'])

    def e_Starred(self, n, env):
        return self.ev(n.value, env)

    def e_Tuple(self, n, env):
        vals = [self.ev(e, env) for e in n.elts]
        if vals and all(v.kind == 'scalar' for v in vals):
            return SCALAR
        out = container(vals, items=not any(isinstance(e, ast.Starred) for e in n.elts))
        # *x inside a display splices the elements of x
        for e, v in zip(n.elts, vals):
            if isinstance(e, ast.Starred):
                out = AVal(out.o, 'container', (out.c - v.o) | elems(v).o - {FRESH})
        return out

    e_List = e_Tuple
    e_Set = e_Tuple

    def e_Dict(self, n, env):
        vals = [self.ev(e, env) for e in list(n.values) if e is not None]
        for k in n.keys:
            if k is not None:
                self.ev(k, env)
        return container(vals)

    def e_IfExp(self, n, env):
        self.ev(n.test, env)
        return self.ev(n.body, env).join(self.ev(n.orelse, env))

    def e_BoolOp(self, n, env):
        v = self.ev(n.values[0], env)
        for x in n.values[1:]:
            v = v.join(self.ev(x, env))
        return v

    def e_BinOp(self, n, env):
        a = self.ev(n.left, env)
        b = self.ev(n.right, env)
        if isinstance(n.op, ast.LShift):
            # array << unit : Quantity *view* of the array
            return AVal(a.o, 'array', a.c)
        if a.kind == 'scalar' and b.kind == 'scalar':
            return SCALAR
        if isinstance(n.op, (ast.Add, ast.Mult)) and 'container' in (a.kind, b.kind):
            return AVal([FRESH], 'container', (a.c | b.c))
        return FRESHV

    def e_UnaryOp(self, n, env):
        v = self.ev(n.operand, env)
        if v.kind == 'scalar':
            return SCALAR
        if isinstance(n.op, (ast.Invert, ast.Not)):
            return AVal([FRESH], 'index')
        return FRESHV

    def e_Compare(self, n, env):
        vs = [self.ev(n.left, env)] + [self.ev(c, env) for c in n.comparators]
        if all(v.kind == 'scalar' for v in vs):
            return SCALAR
        return AVal([FRESH], 'index')   # boolean mask

    def e_JoinedStr(self, n, env):
        for v in n.values:
            if isinstance(v, ast.FormattedValue):
                self.ev(v.value, env)
        return SCALAR

    def e_Lambda(self, n, env):
        inner = dict(env)
        for a in n.args.args:
            inner[a.arg] = AVal(['G'])
        self.ev(n.body, inner)
        return SCALAR

    def comp(self, n, env, elts):
        inner = dict(env)
        for g in n.generators:
            it = self.ev(g.iter, inner)
            self.bind_iter(g.target, g.iter, it, inner)
            for c in g.ifs:
                self.ev(c, inner)
        return container([self.ev(e, inner) for e in elts])

    def e_ListComp(self, n, env):
        return self.comp(n, env, [n.elt])

    e_SetComp = e_ListComp
    e_GeneratorExp = e_ListComp

    def e_DictComp(self, n, env):
        return self.comp(n, env, [n.value])

    def _map_ret(self, v, bound, same_self, recv):
        """Map a callee-side abstract value (component of a returned tuple) to the caller."""
        def m(origins):
            out, extra_c = set(), set()
            for o in origins:
                if o.startswith('P:'):
                    p = o[2:].rstrip('/')
                    if p in bound:
                        b = bound[p]
                        if o.endswith('/'):
                            out |= {deep(x) for x in b.o} | set(b.c)
                        else:
                            out |= set(b.o)
                            extra_c.update(b.c)
                elif o.startswith('F:') or o == 'SELF':
                    if same_self:
                        out.add(o)
                    elif recv is not None:
                        out |= {deep(x) for x in recv.o}
                    else:
                        out.add(FRESH)
                else:
                    out.add(o)
            return out, extra_c
        o, ec = m(v.o)
        c, _ = m(v.c)
        items = None
        if v.items is not None:
            items = tuple(self._map_ret(it, bound, same_self, recv) for it in v.items)
        return AVal(o or {FRESH}, v.kind, (c | ec) - {FRESH}, v.ek, items,
                    self._map_fields(v.fields, bound, same_self, recv),
                    self._map_fields(v.efields, bound, same_self, recv))

    def _map_fields(self, f, bound, same_self, recv):
        if f is None:
            return None
        return {k: self._map_ret(x, bound, same_self, recv) for k, x in f.items()}

    def attr_of_self(self, attr):
        fi = self.fi
        self.field_reads.add(attr)
        if fi.cls is not None:
            m = self.w.find_method(fi.cls, attr)
            if m is None:
                subs = self.w._sub_methods(fi.cls, attr)
                m = subs[0] if subs and all(x.is_property for x in subs) else None
            if m is not None and m.is_property:
                self.calls.add(m)
                # reading a property runs its getter: import the getter's effects
                for e in m.effects.values():
                    if e.origin.startswith('F:'):
                        self.write({e.origin}, e.lineno, e.desc, (m.qualname,) + e.via, e.site)
                # value of a (lazy) property = summary of its getter, seen from self
                o = {x for x in m.ret.o if not x.startswith('P:')}
                c = {x for x in m.ret.c if not x.startswith('P:')}
                if m.is_lazy and m.ret.kind != 'scalar':
                    # the cached value is part of the object's state: the same object is
                    # returned by every later read (and re-sliced into child catalogs)
                    o = (o - {FRESH}) | {f'F:{attr}'}
                return AVal(o or {FRESH}, m.ret.kind, c, m.ret.ek)
            kinds = set()
            for k in fi.cls.mro(self.w):
                kinds |= k.field_kind.get(attr, set())
            if kinds == {'scalar'}:
                return AVal([f'F:{attr}'], 'scalar')
        kind = 'unknown'
        if fi.cls is not None:
            names = set()
            for k in fi.cls.mro(self.w):
                names |= k.field_class.get(attr, set())
            if len(names) == 1 and kinds <= {'other'}:
                kind = 'object:' + next(iter(names))
        return AVal([f'F:{attr}'], kind, [f'F:{attr}/'])

    def e_Attribute(self, n, env):
        base = self.ev(n.value, env)
        if 'SELF' in base.o and isinstance(n.value, ast.Name):
            if n.attr == '__dict__':
                return AVal(['SELF'], 'object')
            return self.attr_of_self(n.attr)
        if n.attr in T.SCALAR_ATTRS or base.kind == 'scalar':
            return SCALAR
        if base.fields is not None and n.attr in base.fields:
            return base.fields[n.attr]      # attribute set by the constructor of a known class
        if base.kind.startswith('object:'):
            # property of an object of known class: reading it runs the getter
            ks = self.w.classes.get(base.kind[7:], [])
            m = self.w.find_method(ks[0], n.attr) if ks else None
            if m is not None and m.is_property:
                self.calls.add(m)
                return self.apply_summaries([m], n, [], {}, base, env, recv_cls=ks[0])
        if base.kind.startswith('object:') and len(base.o) == 1:
            o = next(iter(base.o))
            if o.startswith('F:') and '.' not in o and not o.endswith('/'):
                # field of an object this class constructed itself: keep the path
                return AVal([f'{o}.{n.attr}'], 'unknown', [f'{o}.{n.attr}/'])
        if n.attr in ('mask', 'fill_value') and any('~buf' in o for o in base.o):
            base = AVal({o for o in base.o if '~buf' not in o} | {FRESH}, base.kind, base.c)
        if base.kind.startswith('object') or base.kind == 'container':
            v = elems(base)
        else:
            # attributes are reached from the object itself, not from items stored into it with
            # obj[k] = v (astropy tables copy column data; dict/list contents are reached by
            # subscript / iteration)
            v = AVal({deep(x) for x in base.o} or {FRESH}, 'unknown', base.c)
        if n.attr in T.NDARRAY_ATTRS:
            return AVal(v.o, 'ndarray', v.c)
        return v

    def e_Subscript(self, n, env):
        base = self.ev(n.value, env)
        idx = self.ev(n.slice, env)
        if base.kind == 'scalar':
            return SCALAR
        if base.kind != 'container' and (idx.kind == 'index' or _is_fancy_index(n.slice, env)):
            return FRESHV               # boolean / integer-array indexing copies
        if base.kind == 'container' and isinstance(n.slice, ast.Slice):
            return AVal([FRESH], 'container', base.c, base.ek)   # new list, same elements
        v = elems(base)                 # basic slicing / integer index / unknown: view
        if base.kind in ('ndarray', 'array'):
            return AVal(v.o, base.kind, v.c)
        return v

    def e_Slice(self, n, env):
        for p in (n.lower, n.upper, n.step):
            if p is not None:
                self.ev(p, env)
        return SCALAR

    def e_Await(self, n, env):
        return self.ev(n.value, env)

    def e_NamedExpr(self, n, env):
        v = self.ev(n.value, env)
        env[n.target.id] = v
        return v

    # ---------------------------------------------------------------- calls
    def e_Call(self, n, env):
        fname = _dotted(n.func)
        short = fname.split('.')[-1]
        args = [self.ev(a, env) for a in n.args]
        kwargs = {k.arg: self.ev(k.value, env) for k in n.keywords}
        kwnodes = {k.arg: k.value for k in n.keywords}
        recv = None
        is_super = False
        if isinstance(n.func, ast.Attribute):
            if isinstance(n.func.value, ast.Call) and _dotted(n.func.value.func) == 'super':
                is_super = True
                recv = AVal(['SELF'], 'object')
            else:
                recv = self.ev(n.func.value, env)
        is_np = fname.startswith(('np.', 'numpy.', 'ma.', 'np.ma.', 'u.', 'math.', 'warnings.'))

        if short == 'add_progress_bar' and args:
            return args[0]      # assumed: the progress-bar wrapper iterates its argument

        # --- explicit mutators ----------------------------------------------------------
        if 'out' in kwargs and not (isinstance(kwnodes['out'], ast.Constant)
                                    and kwnodes['out'].value is None):
            self.write(kwargs['out'].o, n.lineno, f'{fname}(out=...)')
        if fname in T.MUTATING_FUNCS:
            idx = T.MUTATING_FUNCS[fname]
            if idx < len(args):
                self.write(args[idx].o, n.lineno, f'{fname}()')
        if fname == 'setattr' and args:
            val = args[2] if len(args) > 2 else FRESHV
            if 'SELF' in args[0].o:
                name = n.args[1].value if isinstance(n.args[1], ast.Constant) else None
                if isinstance(name, str):
                    self.field_writes.setdefault(name, set()).add(n.lineno)
                    self.record_field_alias(name, val)
                else:
                    names = _literal_loop_names(self.fi.node, n.args[1])
                    if names:
                        for nm in names:
                            self.field_writes.setdefault(nm, set()).add(n.lineno)
                            self.record_field_alias(nm, val)
                    else:
                        self.field_writes.setdefault('*', set()).add(n.lineno)
            else:
                self.write(args[0].o, n.lineno, 'setattr()')
            return SCALAR
        if short == 'sigma_clip' or fname in ('sigma_clip', 'sigma_clipped_stats'):
            cp = kwnodes.get('copy')
            if isinstance(cp, ast.Constant) and cp.value is False and args:
                self.write(args[0].o, n.lineno, 'sigma_clip(copy=False)')
        if recv is not None and short in T.MUTATING_METHODS and not is_np and not is_super:
            if recv.kind != 'scalar':
                self.write(recv.o, n.lineno, f'.{short}()')
                if short in ('append', 'extend', 'insert', 'add', 'update', 'setdefault'):
                    for a in args + list(kwargs.values()):
                        if short in ('extend', 'update'):
                            a = elems(a) if a.kind != 'container' else AVal(a.c, 'unknown', a.c)
                        self.add_contents(n.func.value, a, env)
            if short in ('pop', 'setdefault', 'popitem'):
                return elems(recv)
            return FRESHV

        # --- repo callees (modular: use summaries) -----------------------------------------
        if is_super and self.fi.cls is not None:
            cands = []
            for b in self.fi.cls.mro(self.w)[1:]:
                if short in b.methods:
                    cands = [b.methods[short]]
                    break
            if cands:
                return self.apply_summaries(cands, n, args, kwargs, recv, env)
            return FRESHV
        cands, ctor_cls = self.w.resolve_call(self.fi, fname)
        if cands and ctor_cls is None and isinstance(n.func, ast.Attribute) \
                and isinstance(n.func.value, ast.Name) and args \
                and n.func.value.id not in ('self', 'cls') \
                and (n.func.value.id in self.fi.module.classes
                     or n.func.value.id in self.fi.module.imports) \
                and all(c.cls is not None and c.node.args.args
                        and c.node.args.args[0].arg == 'self' for c in cands):
            # unbound call through the class: Class.method(obj, ...) -- obj is the receiver
            recv, args = args[0], args[1:]
        if not cands and recv is not None and recv.kind.startswith('object:'):
            ks = self.w.classes.get(recv.kind[7:], [])
            if ks:
                f = self.w.find_method(ks[0], short)
                if f is not None:
                    return self.apply_summaries([f], n, args, kwargs, recv, env,
                                                recv_cls=ks[0])
        if not cands and recv is not None and not is_np and short not in T.ALIAS_METHODS \
                and short not in T.FRESH_METHODS and not short.startswith('__'):
            cands = self.w.methods_named(short)
            if cands:
                return self.apply_summaries(cands, n, args, kwargs, recv, env, by_name=True)
        if cands:
            return self.apply_summaries(cands, n, args, kwargs, recv, env, ctor_cls=ctor_cls)

        # --- numpy / astropy tables ----------------------------------------------------------
        if short in ('vstack', 'hstack') and not is_np and args:
            # astropy.table.vstack / hstack return the input table itself when given a single
            # table: the result may be any element of the list passed
            return elems(args[0]).join(FRESHV)
        if fname in T.ALIAS_FUNCS or (is_np and short in T.ALIAS_FUNC_SHORT):
            cp = kwnodes.get('copy')
            if isinstance(cp, ast.Constant) and cp.value is True:
                return FRESHV
            v = AVal()
            k = T.ALIAS_FUNCS.get(fname, 1) or len(args)
            for a in args[:k]:
                if fname in ('np.ma.asanyarray', 'np.ma.asarray', 'np.ma.MaskedArray',
                             'np.ma.masked_array', 'np.ma.array'):
                    a = AVal({o.replace('~nma', '~buf') for o in a.o}, a.kind, a.c)
                v = v.join(a)
            for kw in ('mask', 'data', 'uncertainty'):
                if kw in kwargs:
                    v = v.join(kwargs[kw])
            return AVal(v.o or {FRESH}, 'array', v.c)
        if fname in T.COPY_FALSE_ALIAS or (recv is not None and short in T.COPY_FALSE_ALIAS_SHORT):
            cp = kwnodes.get('copy')
            src = args[0] if fname in T.COPY_FALSE_ALIAS and args else recv
            if src is None:
                return FRESHV
            if isinstance(cp, ast.Constant) and cp.value is False:
                return AVal(src.o, 'array', src.c)
            if short in T.COPY_FALSE_DEFAULT_ALIAS and cp is None:
                return AVal(src.o, 'array', src.c)
            return FRESHV
        if recv is not None and short in T.ALIAS_METHODS and not is_np:
            cp = kwnodes.get('copy')
            if short == 'astype':
                if isinstance(cp, ast.Constant) and cp.value is False:
                    return AVal(recv.o, 'array', recv.c)
                return FRESHV
            if recv.kind == 'container':
                if short in ('get', 'pop', 'setdefault'):
                    return elems(recv)
                return AVal([FRESH], 'container', recv.c)   # items/values/keys/copy of a dict
            if short in ('get', 'items', 'values', 'keys'):
                return AVal([FRESH], 'container', elems(recv).o - {FRESH})
            return AVal(recv.o, 'array', recv.c)
        if recv is not None and short in T.INDEX_METHODS and not is_np:
            return AVal([FRESH], 'index')
        if recv is not None and short == 'copy' and not is_np:
            if recv.kind == 'container':
                return AVal([FRESH], 'container', recv.c)    # shallow copy
            return FRESHV
        if fname in T.SCALAR_FUNCS or short in T.SCALAR_FUNC_SHORT:
            return SCALAR
        if fname in T.INDEX_FUNCS or (is_np and short in T.INDEX_FUNC_SHORT):
            return AVal([FRESH], 'index')
        if fname == 'getattr' and args:
            if 'SELF' in args[0].o:
                name = n.args[1].value if isinstance(n.args[1], ast.Constant) else None
                if isinstance(name, str):
                    return self.attr_of_self(name)
                names = _literal_loop_names(self.fi.node, n.args[1])
                if names:
                    v = AVal()
                    for nm in names:
                        v = v.join(self.attr_of_self(nm))
                    return v
                return AVal(['F:*'], 'unknown', ['F:*/'])
            if len(n.args) > 1 and isinstance(n.args[1], ast.Constant) and \
                    n.args[1].value in T.SCALAR_ATTRS:
                return SCALAR
            return elems(args[0])
        if fname in ('zip', 'enumerate', 'reversed', 'sorted', 'list', 'tuple', 'iter', 'dict',
                     'set', 'filter', 'map', 'itertools.chain', 'frozenset'):
            c = set()
            for a in args:
                e = elems(a) if fname not in ('zip', 'map', 'itertools.chain') else a
                c |= (e.o | e.c)
            for a in kwargs.values():
                c |= (a.o | a.c)
            return AVal([FRESH], 'container', c - {FRESH})
        if fname == 'next' and args:
            return elems(args[0])
        if fname in ('isinstance', 'hasattr', 'callable', 'len', 'int', 'float', 'bool', 'str',
                     'abs', 'min', 'max', 'round', 'sum', 'range', 'id', 'type', 'repr', 'print',
                     'issubclass', 'hash', 'any', 'all', 'divmod', 'pow', 'ord', 'chr'):
            return SCALAR
        if short in ('deepcopy',) or fname in ('copy.copy', 'copy.deepcopy', 'deepcopy'):
            if short == 'copy' and args and args[0].kind == 'container':
                return AVal([FRESH], 'container', args[0].c)
            return FRESHV
        # unknown external callee: it does not mutate its arguments (A-ext), and
        #  * numpy / scipy / math / bottleneck functions outside the alias tables, methods of
        #    unknown receivers and names in FRESH_EXTERNALS return fresh objects;
        #  * any other external function (e.g. astropy.nddata.reshape_as_blocks, extract_array)
        #    may return a view of / a container holding its arguments.
        root = fname.split('.')[0]
        full = self.fi.module.imports.get(root, '')
        if root in T.FRESH_MODULE_ROOTS or short in T.FRESH_EXTERNALS or recv is not None \
                or fname in T.FRESH_EXTERNALS:
            return FRESHV
        if full:
            if full.split('.')[0] in T.FRESH_MODULE_ROOTS or \
                    any(full.startswith(pfx) for pfx in T.FRESH_IMPORT_PREFIXES):
                return FRESHV
        else:
            # a callable held in a local / parameter / field (user callback, estimator, fitter):
            # A-ext -- it returns a new object and does not mutate its arguments
            return FRESHV
        v = AVal()
        for a in args + list(kwargs.values()):
            if a.kind not in ('scalar', 'index'):
                v = v.join(AVal({deep(x) for x in a.o} | set(a.c), 'unknown', a.c))
        return AVal(v.o | {FRESH}, 'unknown', v.c)

    def apply_summaries(self, cands, n, args, kwargs, recv, env, by_name=False, ctor_cls=None,
                        recv_cls=None):
        ret = AVal()
        for callee in cands:
            self.calls.add(callee)
            pos = list(callee.pos_params)
            bound = {}
            if pos and pos[0] in ('self', 'cls') and not callee.is_static:
                pos.pop(0)
            for p, a in zip(pos, args):
                bound[p] = a
            a_ = callee.node.args
            if a_.vararg is not None and len(args) > len(pos):
                bound[a_.vararg.arg] = container(args[len(pos):])
            extra_kw = []
            for k, v in kwargs.items():
                if k is None:
                    continue
                if k in callee.params:
                    bound[k] = v
                else:
                    extra_kw.append(v)
            if a_.kwarg is not None:
                bound[a_.kwarg.arg] = container(extra_kw)
            same_self = recv is not None and 'SELF' in recv.o
            if same_self and callee.cls is not None and self.fi.cls is not None:
                pre = f'P:{callee.name}:'
                for k in callee.cls.mro(self.w):
                    for table, mine in ((k.field_alias, self.fi.cls.field_alias),
                                        (k.field_alias_c, self.fi.cls.field_alias_c)):
                        for fld, srcs in list(table.items()):
                            for sname in list(srcs):
                                if not sname.startswith(pre):
                                    continue
                                q = sname[len(pre):]
                                dq = q.endswith('/')
                                q = q.rstrip('/')
                                if q not in bound or bound[q].kind == 'scalar':
                                    continue
                                b = bound[q]
                                src = ({deep(x) for x in b.o} | set(b.c)) if dq else \
                                    (set(b.o) | (set(b.c) if table is k.field_alias_c else set()))
                                for x in src:
                                    if x not in (FRESH, 'SELF', 'G'):
                                        mine.setdefault(fld, set()).add(self._qual(untag(x)))
            for e in callee.effects.values():
                o = e.origin
                via = (callee.qualname,) + e.via
                if o.startswith('P:'):
                    p = o[2:].rstrip('/')
                    if p not in bound:
                        continue
                    b = bound[p]
                    if b.kind in ('scalar', 'index'):
                        continue
                    tg = set(b.o)
                    if o.endswith('/'):
                        tg = {deep(x) for x in b.o} | set(b.c)
                    self.write(tg, n.lineno, e.desc, via, e.site)
                elif o.startswith('F:'):
                    if same_self:
                        self.write({o}, n.lineno, e.desc, via, e.site)
                    elif ctor_cls is not None:
                        # constructor writing through a field that aliases an argument
                        for al in ctor_cls_field_sources(self.w, ctor_cls, o[2:].rstrip('/'),
                                                         both=o.endswith('/')):
                            if al in bound and bound[al].kind not in ('scalar', 'index'):
                                b = bound[al]
                                self.write({deep(x) for x in b.o} | set(b.c), n.lineno, e.desc,
                                           via, e.site)
                    elif recv is not None:
                        # a method writing into a field of its receiver modifies the receiver;
                        # when the receiver's class is known, only fields holding objects
                        # supplied from outside that object matter
                        if recv_cls is not None:
                            fo = all_field_alias(self.w, recv_cls, both=o.endswith('/'))
                            srcs = fo.get(o[2:].rstrip('/'), set())
                            if not any(x.startswith(('P:', 'F:')) for x in srcs):
                                continue
                        # the field holds an object given to the receiver from outside: it is
                        # among the receiver's contents
                        self.write({deep(x) for x in recv.o} | set(recv.c), n.lineno, e.desc,
                                   via, e.site)
            # return value
            if ctor_cls is None and not callee.ret.o and not callee.ret.c \
                    and callee.ret.items is None and len(cands) > 1:
                continue       # a candidate that never returns a value (abstract hook)
            ro, rc = set(), set()

            def mapo(o, into):
                if o.startswith('P:'):
                    p = o[2:].rstrip('/')
                    if p in bound:
                        b = bound[p]
                        if o.endswith('/'):
                            into |= {deep(x) for x in b.o} | set(b.c)
                        else:
                            into |= set(b.o)
                            rc.update(b.c)
                elif o.startswith('F:') or o == 'SELF':
                    if same_self:
                        into.add(o)
                    elif recv is not None:
                        into |= {deep(x) for x in recv.o}
                    else:
                        into.add(FRESH)
                else:
                    into.add(o)
            for o in callee.ret.o:
                mapo(o, ro)
            for o in callee.ret.c:
                mapo(o, rc)
            if ctor_cls is not None:
                # the new object holds references to the arguments its fields alias
                c = set()
                flds = {}
                precise = True
                for fld, srcs in all_field_alias(self.w, ctor_cls, both=True).items():
                    fo = set()
                    for s in srcs:
                        if s.startswith('P:__init__:'):
                            p = s.split(':', 2)[2].rstrip('/')
                            if p in bound:
                                c |= (bound[p].o | bound[p].c)
                                fo |= (bound[p].o | bound[p].c)
                        elif s.startswith('P:'):
                            precise = False      # set by another method from its parameters
                        elif s not in (FRESH, 'SELF'):
                            fo.add(s)
                    flds[fld] = AVal((fo - {'SELF'}) or {FRESH}, 'unknown', fo - {FRESH, 'SELF'})
                ret = ret.join(AVal([FRESH], f'object:{ctor_cls.name}', c - {FRESH, 'SELF'},
                                    fields=flds if precise else None))
            else:
                items = None
                if callee.ret.items is not None:
                    items = tuple(self._map_ret(it, bound, same_self, recv)
                                  for it in callee.ret.items)
                ret = ret.join(AVal(ro or {FRESH}, callee.ret.kind, rc - {FRESH}, callee.ret.ek,
                                    items,
                                    self._map_fields(callee.ret.fields, bound, same_self, recv),
                                    self._map_fields(callee.ret.efields, bound, same_self,
                                                     recv)))
        return ret if ret.o else FRESHV


def all_field_alias(world, cls, both=False):
    out = {}
    for k in cls.mro(world):
        for f, s in k.field_alias.items():
            out.setdefault(f, set()).update(s)
        if both:
            for f, s in k.field_alias_c.items():
                out.setdefault(f, set()).update(s)
    return out


def ctor_cls_field_sources(world, cls, field, both=True):
    out = set()
    seen = set()

    def rec(f):
        if f in seen:
            return
        seen.add(f)
        for s in all_field_alias(world, cls, both=both).get(f, ()):
            if s.startswith('P:__init__:'):
                out.add(s.split(':', 2)[2].rstrip('/'))
            elif s.startswith('F:'):
                rec(s[2:].rstrip('/'))
    rec(field)
    return out


def _terminates(stmts):
    return bool(stmts) and isinstance(stmts[-1], (ast.Return, ast.Raise, ast.Continue, ast.Break))


def _is_range_like(n):
    return isinstance(n, ast.Call) and _dotted(n.func) in ('range',)


def _is_fancy_index(sl, env):
    """Index expression that certainly copies: comparison, ~mask, np.where/nonzero/argsort ...,
    a list literal, or a name bound to such a value (kind 'index')."""
    if isinstance(sl, (ast.Compare, ast.List, ast.ListComp)):
        return True
    if isinstance(sl, ast.UnaryOp) and isinstance(sl.op, ast.Invert):
        return True
    if isinstance(sl, ast.Name) and sl.id in env and env[sl.id].kind == 'index':
        return True
    if isinstance(sl, ast.BinOp) and isinstance(sl.op, (ast.BitAnd, ast.BitOr)):
        return True
    if isinstance(sl, ast.Tuple):
        # advanced indexing always copies, also when mixed with slices
        return any(_is_fancy_index(e, env) for e in sl.elts)
    return False


def _literal_loop_names(fnode, namenode):
    """`for attr in ('a', 'b'): setattr(self, attr, ...)` -> ['a', 'b'] (literal tuples only)."""
    if not isinstance(namenode, ast.Name):
        return None
    var = namenode.id
    consts = {}
    for n in ast.walk(fnode):
        if isinstance(n, ast.Assign) and len(n.targets) == 1 and \
                isinstance(n.targets[0], ast.Name):
            try:
                consts[n.targets[0].id] = ast.literal_eval(n.value)
            except Exception:  # noqa: BLE001
                pass
    names = []
    found = False
    for n in ast.walk(fnode):
        if isinstance(n, ast.For) and isinstance(n.target, ast.Name) and n.target.id == var:
            it = n.iter
            try:
                vals = ast.literal_eval(it)
            except Exception:  # noqa: BLE001
                vals = consts.get(it.id) if isinstance(it, ast.Name) else None
            if isinstance(vals, (tuple, list)) and all(isinstance(x, str) for x in vals):
                names.extend(vals)
                found = True
        elif isinstance(n, ast.Assign) and len(n.targets) == 1 and \
                isinstance(n.targets[0], ast.Name) and n.targets[0].id == var and \
                isinstance(n.value, ast.Constant) and isinstance(n.value.value, str):
            names.append(n.value.value)
            found = True
    return names if found else None


def _fa_sig(cls):
    if cls is None:
        return None
    return ({k: frozenset(v) for k, v in cls.field_class.items()},
            {k: frozenset(v) for k, v in cls.field_alias.items()},
            {k: frozenset(v) for k, v in cls.field_alias_c.items()},
            {k: frozenset(v) for k, v in cls.field_kind.items()})


def analyse_world(world, max_rounds=12):
    """Fixpoint of the function summaries over the call graph."""
    funcs = list(world.all_funcs())
    for rnd in range(max_rounds):
        changed = False
        for fi in funcs:
            before = fi.summary_sig()
            fa_before = _fa_sig(fi.cls)
            a = Analyzer(world, fi).run()
            fi.effects, fi.ret = a.effects, a.ret
            fi.field_writes, fi.field_reads = a.field_writes, a.field_reads
            fi.calls, fi.loops = a.calls, a.loops
            fi.local_writes = a.local_writes
            fa_after = _fa_sig(fi.cls)
            if fi.summary_sig() != before or fa_after != fa_before:
                changed = True
        if not changed:
            return rnd + 1
    return max_rounds
