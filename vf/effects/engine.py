"""E2 obligations: frames (modifies = {}), ownership of sliced catalogs, loop independence."""
import ast
import time

from ..common import DISCHARGED, LOST, REFUTED, REPO, UNKNOWN, Obligation, src_hash
from . import tables as T
from .analysis import (FRESH, World, all_field_alias, analyse_world, ctor_cls_field_sources,
                       _dotted)

_CACHE = {}

# Declared frames: methods documented as in-place mutators of their OWN object, and objects the
# property does not enumerate.  (target prefix, origin prefix, reason)
DECLARED_FRAMES = [
    ('photutils/psf/photometry.py::', 'F:_group_results/',
     'own per-call result dict (defaultdict(list) created by _reset_results): its entries are '
     'lists built by this object; nesting deeper than one level is conflated by the analysis'),
    ('photutils/psf/photometry.py::', 'F:fit_info/',
     'own per-call result dict (defaultdict(list) created by _reset_results); see above'),
    ('photutils/isophote/', 'F:_sample', 'EllipseFitter.fit updates the EllipseSample it was given '
     '(documented working state of the fitting algorithm)'),
    ('photutils/isophote/', 'F:sample', 'Isophote.fix_geometry is a documented in-place mutator'),
    ('photutils/isophote/', 'F:geometry', 'EllipseSample.update / extract update their own '
     'geometry object'),
    ('photutils/isophote/ellipse.py::Ellipse.fit_isophote', 'P:isophote_list',
     'documented: the fitted isophote is appended to the list supplied and managed by the caller'),
    ('photutils/isophote/ellipse.py::Ellipse.set_threshold', 'F:_geometry',
     'documented setter: stores the threshold on the geometry object of this Ellipse'),
    ('photutils/psf/epsf_stars.py::LinkedEPSFStar.constrain_centers', 'F:_data',
     'documented in-place mutator of the linked stars'),
    ('photutils/utils/depths.py::ImageDepth.__call__', 'P:mask',
     'guard correlation (not decided by the effect analysis): _make_all_coords is reached only '
     'when np.any(mask), so _dilate_mask always rebinds mask to the fresh binary_dilation result '
     'before _mask_border writes into it; covered by the C10 bounded driver'),
    ('photutils/psf/epsf.py::', 'P:star', 'EPSFBuilder fits update the EPSFStar objects they own '
     '(documented: "the stars are updated in place")'),
    ('photutils/psf/epsf.py::', 'P:stars', 'same as above'),
    ('photutils/psf/epsf.py::', 'P:epsf', 'EPSFBuilder works on its own ePSF model copies'),
    ('photutils/isophote/isophote.py::IsophoteList.', 'F:_list',
     'IsophoteList.append/extend/sort are documented list mutators of their own object'),
    ('photutils/isophote/', 'P:sample', 'isophote fitting updates EllipseSample objects it created'),
]


def get_world(repo=REPO):
    if repo in _CACHE:
        return _CACHE[repo]
    w = World(repo)
    w.load()
    t0 = time.time()
    rounds = analyse_world(w)
    w.rounds = rounds
    w.analysis_s = time.time() - t0
    _CACHE[repo] = w
    return w


def public_entries(world):
    """(FuncInfo, ClassInfo-or-None) for every public entry point reachable from module __all__."""
    out = []
    for m in world.modules.values():
        if any(x in m.rel for x in ('/datasets/load.py', '/utils/_optional_deps', '_docutil')):
            continue
        for name in m.all:
            if name in m.functions:
                out.append((m.functions[name], None))
            elif name in m.classes:
                cls = m.classes[name]
                seen = set()
                for k in cls.mro(world):
                    for key, fi in k.methods.items():
                        nm = fi.name
                        if key in seen:
                            continue
                        seen.add(key)
                        if nm.startswith('_') and nm not in ('__init__', '__call__',
                                                             '__getitem__', '__len__',
                                                             '__iter__'):
                            continue
                        # plotting methods are in scope for what they do to the object they
                        # are called on and to their other arguments; the matplotlib axes they
                        # draw on is the declared target of the call (DECLARED_FRAMES)
                        out.append((fi, cls))
    return out


def caller_supplied_fields(world, cls):
    """(direct, deep): fields of cls whose object itself / whose object or elements may be supplied
    by the caller (constructor / setter / method parameter)."""
    fo = all_field_alias(world, cls)
    fb = all_field_alias(world, cls, both=True)

    def close(table):
        out = {}
        for f in table:
            srcs, seen = set(), set()

            def rec(x):
                if x in seen:
                    return
                seen.add(x)
                for s in table.get(x, ()):
                    if s.startswith('P:'):
                        meth = s.split(':')[1]
                        if meth.startswith('_') and meth not in ('__init__', '__call__',
                                                                  '__getitem__'):
                            continue     # private helper: its arguments are tracked at the
                            # call site (aliasing is propagated to the public caller)
                        srcs.add(s)
                    elif s.startswith('F:'):
                        rec(s[2:].rstrip('/'))
            rec(f)
            if srcs:
                out[f] = srcs
        return out
    return close(fo), close(fb)


def declared(target, origin):
    for pre, opre, why in DECLARED_FRAMES:
        if target.startswith(pre) and origin.startswith(opre):
            return why
    return None


def frame_obligations(world, prop='C10'):
    obs = []
    csf_cache = {}
    for fi, cls in public_entries(world):
        target = fi.target if cls is None else f'{cls.module.rel}::{cls.name}.{fi.name}' + \
            ('.setter' if fi.is_setter else '')
        oid = f'effects:{target}/frame'
        fhash = src_hash(ast.dump(fi.node))
        if cls is not None and cls.name not in csf_cache:
            csf_cache[cls.name] = caller_supplied_fields(world, cls)
        csf_o, csf = csf_cache.get(cls.name, ({}, {})) if cls is not None else ({}, {})
        params = [p for p in fi.params if p not in ('self', 'cls')]
        bad = []
        for e in fi.effects.values():
            o = e.origin
            if o.startswith('P:') and o[2:].rstrip('/') in params:
                if declared(target, o) or o[2:].rstrip('/') in T.SCALAR_PARAM_NAMES:
                    continue
                bad.append((o, e))
            elif o.startswith('F:') and cls is not None:
                f = o[2:].rstrip('/')
                if '.' in f:
                    # field `sub` of an object constructed by this class into field `f0`:
                    # caller-supplied iff it is param-sourced in that object's own class
                    f0, sub = f.split('.', 1)
                    names = set()
                    for k in cls.mro(world):
                        names |= k.field_class.get(f0, set())
                    hit = not names
                    for nm in names:
                        for k in world.classes.get(nm, []):
                            if k.name not in csf_cache:
                                csf_cache[k.name] = caller_supplied_fields(world, k)
                            ko, kb = csf_cache[k.name]
                            if sub in (kb if o.endswith('/') else ko):
                                hit = True
                    if hit and not declared(target, o):
                        bad.append((o, e))
                    continue
                table = csf if o.endswith('/') else csf_o
                if f in table or f == '*':
                    if declared(target, o):
                        continue
                    bad.append((o, e))
        text = (f'modifies({target}) = {{}}: no in-place write reaches a caller-supplied object '
                f'(parameters {params}'
                + (f'; constructor-supplied fields {sorted(csf)}' if csf else '') + ')')
        if not bad:
            obs.append(Obligation(oid, prop, 'effects', DISCHARGED, backend='effects',
                                  functions=[f'{target}#{fhash}'], text=text))
            continue
        # one obligation per distinct (origin, write site) so that known findings are specific
        for o, e in bad:
            what = e.desc.split(' @')[0].replace(' ', '_')
            key = f'{oid}:{o}@{e.site}:{what}'
            chain = ' -> '.join(e.via + (e.site,)) if e.via else e.site
            src = ''
            if o.startswith('F:') and cls is not None:
                src = f' (field {o[2:]} aliases {sorted(csf.get(o[2:].rstrip("/"), []))})'
            obs.append(Obligation(
                key, prop, 'effects', REFUTED, backend='effects',
                functions=[f'{target}#{fhash}'], text=text,
                detail=f'in-place write to {o}{src}: {e.desc}; call chain: {chain}',
                model={'origin': o, 'site': e.site, 'line': e.lineno, 'what': e.desc,
                       'chain': list(e.via)}, key=key))
    return obs


# ------------------------------------------------------------------------------------------
# C08: ownership of objects shared between a sliced catalog and its parent

OWNERSHIP_TARGETS = [
    ('photutils/segmentation/catalog.py', 'SourceCatalog'),
    ('photutils/aperture/stats.py', 'ApertureStats'),
    ('photutils/detection/daofinder.py', '_DAOStarFinderCatalog'),
    ('photutils/detection/irafstarfinder.py', '_IRAFStarFinderCatalog'),
    ('photutils/detection/starfinder.py', '_StarFinderCatalog'),
]


def ownership_obligations(world, prop='C08'):
    """For each attribute that __getitem__ copies to the child *by reference*, no public method
    of the class mutates the referent in place (else parent and child are not independent)."""
    obs = []
    for rel, cname in OWNERSHIP_TARGETS:
        m = world.modules.get(rel)
        cls = m.classes.get(cname) if m else None
        gi = world.find_method(cls, '__getitem__') if cls else None
        oid = f'effects:{rel}::{cname}.__getitem__/ownership'
        if gi is None:
            obs.append(Obligation(oid, prop, 'effects', LOST, detail='__getitem__ not found',
                                  functions=[f'{rel}::{cname}.__getitem__']))
            continue
        shared = shared_by_reference(gi.node)
        if shared is None:
            obs.append(Obligation(oid, prop, 'effects', LOST,
                                  detail='init_attr tuple is not a literal',
                                  functions=[gi.target]))
            continue
        # in-place mutators of self fields among all methods of the class
        mutated = {}
        for k in cls.mro(world):
            for fi in k.methods.values():
                # public operations only (their summaries already include the private helpers
                # they call); the constructor builds a new object and is not re-run
                if fi.name.startswith('_') and fi.name not in ('__call__', '__setitem__',
                                                               '__delitem__'):
                    continue
                for e in fi.effects.values():
                    # F:a  = the object held by field a;  F:a/ = what it contains or a view of
                    # it (self._error[slc]): a write through either changes what parent and
                    # child both read
                    if e.origin.startswith('F:'):
                        mutated.setdefault(e.origin[2:].rstrip('/'), []).append((fi.qualname, e))
        fhash = src_hash(ast.dump(gi.node))
        # cached lazy values are re-sliced into the child (a basic slice of an array is a view of
        # the parent's cached array), so they are shared state too
        lazies = set()
        for k in cls.mro(world):
            lazies |= {fi.name for fi in k.methods.values() if fi.is_lazy}
        bad = [(a, mutated[a]) for a in sorted(shared | lazies) if a in mutated]
        text = (f'{cname}.__getitem__ shares {sorted(shared)} (by reference) and every cached '
                'lazy value (re-sliced: views for slice indices) with the parent; none of them is '
                'mutated in place by any public method of the class')
        if not bad:
            obs.append(Obligation(oid, prop, 'effects', DISCHARGED, backend='effects',
                                  functions=[f'{gi.target}#{fhash}'], text=text))
        # every catalog-returning selector builds its result through __getitem__ (or a deep
        # copy): none of them hands out the object itself or a shallow copy of it, which would
        # share every list and array with the parent
        sel = ('__getitem__', 'get_label', 'get_labels', 'get_id', 'get_ids', 'copy')
        sid = f'effects:{rel}::{cname}.selectors/no-shallow-copy-or-self'
        stext = (f'{cname}: {", ".join(sel)} never return `self` or `copy(self)` (a shallow copy '
                 'shares its lists and arrays with the parent)')
        offenders = []
        for k in cls.mro(world):
            for fi in k.methods.values():
                if fi.name not in sel:
                    continue
                for n in ast.walk(fi.node):
                    if isinstance(n, ast.Return) and isinstance(n.value, ast.Name) \
                            and n.value.id == 'self':
                        offenders.append((fi.qualname, n.lineno, 'return self'))
                    if isinstance(n, ast.Call) and _dotted(n.func) in ('copy', 'copy.copy') \
                            and n.args and isinstance(n.args[0], ast.Name) and n.args[0].id == 'self':
                        offenders.append((fi.qualname, n.lineno, 'copy(self)'))
        if offenders:
            q, ln, what = offenders[0]
            obs.append(Obligation(sid, prop, 'effects', REFUTED, backend='effects',
                                  functions=[f'{rel}::{q}'], text=stext,
                                  detail=f'{q} (line {ln}): {what}',
                                  model={'offenders': [list(o) for o in offenders]}))
        else:
            obs.append(Obligation(sid, prop, 'effects', DISCHARGED, backend='effects',
                                  functions=[gi.target], text=stext))
        for a, lst in bad:
            who = sorted({q for q, _ in lst})
            obs.append(Obligation(f'{oid}:{a}', prop, 'effects', REFUTED, backend='effects',
                                  functions=[f'{gi.target}#{fhash}'], text=text,
                                  detail=f'attribute {a} is copied by reference to the child and '
                                         f'mutated in place by {who}: {lst[0][1].desc}',
                                  model={'attribute': a, 'mutators': who}))
    return obs


# C13: GriddedPSFModel.copy() hands every attribute except the parameters to the copy *by
# reference* (documented: the ePSF grid is not copied), so the copy and the original stay
# independent only while no method writes into one of those shared objects in place.
COPY_SHARING = [
    # (file, class, memo caches: keyed inserts of values computed from the shared, never-written
    #  grid -- the same entry whoever fills it)
    ('photutils/psf/gridded_models.py', 'GriddedPSFModel', ('_interpolator',)),
]


def copy_ownership_obligations(world, prop='C13'):
    obs = []
    for rel, cname, memo in COPY_SHARING:
        m = world.modules.get(rel)
        cls = m.classes.get(cname) if m else None
        cp = world.find_method(cls, 'copy') if cls else None
        oid = f'effects:{rel}::{cname}.copy/ownership'
        if cp is None:
            obs.append(Obligation(oid, prop, 'effects', LOST, detail='copy not found',
                                  functions=[f'{rel}::{cname}.copy']))
            continue
        # shape of copy(): newcls.__dict__[key] = val for the attributes that are not parameters
        def by_ref(v):      # the stored value is (possibly, on one branch) the original object
            return isinstance(v, ast.Name) or (isinstance(v, ast.IfExp) and (
                by_ref(v.body) or by_ref(v.orelse)))
        shares = any(isinstance(n, ast.Assign) and isinstance(n.targets[0], ast.Subscript)
                     and _dotted(n.targets[0].value).endswith('.__dict__')
                     and by_ref(n.value) for n in ast.walk(cp.node))
        if not shares:
            obs.append(Obligation(oid, prop, 'effects', LOST, functions=[cp.target],
                                  detail='copy() no longer has the share-by-reference shape'))
            continue
        mutated = {}
        for k in cls.mro(world):
            for fi in k.methods.values():
                if fi.name in ('__init__', '__new__'):
                    continue
                for e in fi.effects.values():
                    if e.origin.startswith('F:'):
                        a = e.origin[2:].rstrip('/')
                        if a not in memo:
                            mutated.setdefault(a, []).append((fi.qualname, e))
        fhash = src_hash(ast.dump(cp.node))
        text = (f'{cname}.copy() shares every non-parameter attribute with the original by '
                f'reference; no method of the class writes into one of them in place (memo caches '
                f'{list(memo)} excepted: keyed inserts of values computed from the shared grid)')
        if not mutated:
            obs.append(Obligation(oid, prop, 'effects', DISCHARGED, backend='effects',
                                  functions=[f'{cp.target}#{fhash}'], text=text))
        for a, lst in sorted(mutated.items()):
            who = sorted({q for q, _ in lst})
            obs.append(Obligation(f'{oid}:{a}', prop, 'effects', REFUTED, backend='effects',
                                  functions=[f'{cp.target}#{fhash}'], text=text,
                                  detail=f'attribute {a} is shared between a model and its copy() and '
                                         f'written in place by {who}: {lst[0][1].desc}',
                                  model={'attribute': a, 'mutators': who}))
    return obs


def shared_by_reference(fnode):
    """Attributes set on the child with `setattr(newcls, attr, getattr(self, attr))` for attr in a
    literal tuple, minus those re-assigned afterwards from a fresh value (copy / index)."""
    tuples = {}
    shared = set()
    for n in ast.walk(fnode):
        if isinstance(n, ast.Assign) and len(n.targets) == 1 and \
                isinstance(n.targets[0], ast.Name):
            try:
                v = ast.literal_eval(n.value)
            except Exception:  # noqa: BLE001
                continue
            if isinstance(v, tuple) and all(isinstance(x, str) for x in v):
                tuples[n.targets[0].id] = v
    found = False
    for n in ast.walk(fnode):
        if isinstance(n, ast.For) and isinstance(n.iter, ast.Name) and n.iter.id in tuples:
            for c in ast.walk(n):
                if isinstance(c, ast.Call) and _dotted(c.func) == 'setattr' and len(c.args) == 3:
                    v = c.args[2]
                    if isinstance(v, ast.Call) and _dotted(v.func) == 'getattr':
                        shared |= set(tuples[n.iter.id])
                        found = True
    if not found:
        return None
    # later `newcls.<attr> = <fresh expr>` overrides the shared reference
    for n in ast.walk(fnode):
        if isinstance(n, ast.Assign):
            for t in n.targets:
                if isinstance(t, ast.Attribute) and isinstance(t.value, ast.Name) and \
                        t.value.id != 'self' and t.attr in shared:
                    v = n.value
                    if isinstance(v, ast.Call) and isinstance(v.func, ast.Attribute) and \
                            v.func.attr in ('copy', 'deepcopy'):
                        shared.discard(t.attr)
                    elif isinstance(v, ast.Call) and _dotted(v.func) in ('list', 'dict',
                                                                         'copy.copy',
                                                                         'copy.deepcopy'):
                        shared.discard(t.attr)
    return shared


# ------------------------------------------------------------------------------------------
# loop independence (per-source loops): no loop-carried dependence except declared accumulators

INDEPENDENT_LOOPS = [
    # (prop, file, function qualname, loop iter text must contain, accumulators)
    ('C17', 'photutils/centroids/core.py', 'centroid_sources', 'zip(xpos, ypos',
     {'xcentroids', 'ycentroids'}),
    ('C02', 'photutils/aperture/core.py', 'PixelAperture.do_photometry', 'apermask',
     {'aperture_sums', 'aperture_sum_errs'}),
    ('C02', 'photutils/aperture/core.py', 'PixelAperture.area_overlap', 'apermask', {'areas'}),
    ('C18', 'photutils/datasets/images.py', 'make_model_image', 'enumerate(params_table)',
     {'image', 'model', 'discretize_method'}),
    ('C19', 'photutils/profiles/core.py', 'ProfileBase._photometry', 'aper',
     {'fluxes', 'fluxerrs', 'areas'}),
    ('C16', 'photutils/aperture/stats.py', 'ApertureStats._make_aperture_cutouts', 'zip(',
     {'data_cutouts', 'variance_cutouts', 'mask_cutouts', 'weight_cutouts', 'overlaps'}),
    # per-source loops of SourceCatalog: row k is computed from row k's own inputs only (C07
    # "each row depends only on ..."; C08: the same value whether the row is computed in the
    # parent or in a sliced child, where it has other predecessors)
    ('C08', 'photutils/segmentation/catalog.py', 'SourceCatalog._local_background', 'bkg_apers',
     {'local_bkgs'}),
    ('C07', 'photutils/segmentation/catalog.py', 'SourceCatalog._local_background', 'bkg_apers',
     {'local_bkgs'}),
    ('C07', 'photutils/segmentation/catalog.py', 'SourceCatalog.cutout_minval_index', 'data', {'idx'}),
    ('C07', 'photutils/segmentation/catalog.py', 'SourceCatalog.cutout_maxval_index', 'data', {'idx'}),
    ('C08', 'photutils/segmentation/catalog.py', 'SourceCatalog._fluxfrac_optimizer_args', 'zip(',
     {'args'}),
]


def _names_read_before_written(body):
    """Names (and dict['key'] / self.attr paths) read in a loop body before being written in the
    same iteration, and the set of all names written anywhere in the body."""
    read_first = set()
    written = set()

    def path(n):
        if isinstance(n, ast.Name):
            return n.id
        if isinstance(n, ast.Subscript) and isinstance(n.slice, ast.Constant) and \
                isinstance(n.slice.value, str) and isinstance(n.value, ast.Name):
            return f"{n.value.id}['{n.slice.value}']"
        if isinstance(n, ast.Attribute) and isinstance(n.value, ast.Name):
            return f'{n.value.id}.{n.attr}'
        return None

    def reads(expr):
        out = []
        for n in ast.walk(expr):
            p = path(n)
            if p and isinstance(getattr(n, 'ctx', None), ast.Load):
                out.append(p)
            # d.get('key') / d.pop('key') read the entry
            if isinstance(n, ast.Call) and isinstance(n.func, ast.Attribute) and \
                    n.func.attr in ('get', 'pop') and isinstance(n.func.value, ast.Name) and \
                    n.args and isinstance(n.args[0], ast.Constant) and \
                    isinstance(n.args[0].value, str):
                out.append(f"{n.func.value.id}['{n.args[0].value}']")
        return out

    def writes_of(stmt):
        out = []
        tgts = []
        if isinstance(stmt, ast.Assign):
            tgts = stmt.targets
        elif isinstance(stmt, (ast.AugAssign, ast.AnnAssign)):
            tgts = [stmt.target]
        for t in tgts:
            for n in ast.walk(t):
                p = path(n)
                if p and isinstance(getattr(n, 'ctx', None), ast.Store):
                    out.append(p)
                # x[...] = v / x.attr = v writes into x
                if isinstance(n, (ast.Subscript, ast.Attribute)) and \
                        isinstance(getattr(n, 'ctx', None), ast.Store):
                    b = n.value
                    while isinstance(b, (ast.Subscript, ast.Attribute)):
                        b = b.value
                    if isinstance(b, ast.Name):
                        out.append(b.id + '[*]')
        # mutating method calls: d.update({...'k': v}), d.pop('k'), lst.append(...)
        for n in ast.walk(stmt):
            if isinstance(n, ast.Call) and isinstance(n.func, ast.Attribute) and \
                    isinstance(n.func.value, ast.Name):
                nm, meth = n.func.value.id, n.func.attr
                if meth == 'update' and n.args and isinstance(n.args[0], ast.Dict):
                    for k in n.args[0].keys:
                        if isinstance(k, ast.Constant) and isinstance(k.value, str):
                            out.append(f"{nm}['{k.value}']")
                elif meth == 'pop' and n.args and isinstance(n.args[0], ast.Constant):
                    out.append(f"{nm}['{n.args[0].value}']")
                elif meth in T.MUTATING_METHODS:
                    out.append(nm + '[*]')
        return out

    def note_reads(rs, wf):
        for r in rs:
            base = r.split('[')[0].split('.')[0]
            if r not in wf and base not in wf:
                read_first.add(r)

    def visit(stmts, wf):
        """wf: names *definitely* written earlier in this iteration on every path reaching here.
        Returns (wf after the statements, whether control can fall through them)."""
        wf = set(wf)
        for s in stmts:
            if isinstance(s, (ast.Continue, ast.Break, ast.Return, ast.Raise)):
                if isinstance(s, (ast.Return, ast.Raise)) and getattr(s, 'value', None) is not None:
                    note_reads(reads(s), wf)
                elif isinstance(s, ast.Raise) and s.exc is not None:
                    note_reads(reads(s), wf)
                return wf, False
            if isinstance(s, ast.If):
                note_reads(reads(s.test), wf)
                wb, fb = visit(s.body, wf)
                wo, fo = visit(s.orelse or [], wf)
                if fb and fo:
                    wf = wb & wo            # written on both branches
                elif fb:
                    wf = wb
                elif fo:
                    wf = wo
                else:
                    return wf, False
                continue
            if isinstance(s, (ast.For, ast.While)):
                hdr = s.iter if isinstance(s, ast.For) else s.test
                note_reads(reads(hdr), wf)
                inner = set(wf)
                if isinstance(s, ast.For):
                    for n in ast.walk(s.target):
                        if isinstance(n, ast.Name):
                            inner.add(n.id)
                            written.add(n.id)
                visit(s.body, inner)        # may run zero times: nothing becomes definite
                visit(s.orelse or [], wf)
                continue
            if isinstance(s, ast.With):
                for it in s.items:
                    note_reads(reads(it.context_expr), wf)
                wf, ft = visit(s.body, wf)
                if not ft:
                    return wf, False
                continue
            if isinstance(s, ast.Try):
                wb, fb = visit(s.body, wf)
                if fb and s.orelse:
                    wb, fb = visit(s.orelse, wb)
                # normal path: everything the body wrote; a handler is entered after some prefix
                # of the body, so on that path only what was definite before the try plus the
                # handler's own writes count.  Definite afterwards = written on every path.
                outs = [wb] if fb else []
                for h in s.handlers:
                    wh, fh = visit(h.body, wf)
                    if fh:
                        outs.append(wh)
                if not outs:
                    return wf, False
                after = set.intersection(*outs)
                wf, ft = visit(s.finalbody or [], after)
                if not ft:
                    return wf, False
                continue
            rhs = []
            if isinstance(s, ast.Assign):
                rhs = reads(s.value)
                for t in s.targets:
                    for n in ast.walk(t):
                        if isinstance(n, (ast.Subscript, ast.Attribute)):
                            rhs += reads(n.value) if hasattr(n, 'value') else []
            elif isinstance(s, ast.AugAssign):
                rhs = reads(s.value) + [p for p in [path(s.target)] if p]
            else:
                rhs = reads(s)
            note_reads(rhs, wf)
            for w in writes_of(s):
                written.add(w)
                wf.add(w)
        return wf, True
    visit(body, set())
    return read_first, written


# Public methods that only *report* on the state left by the last fit: they may be called any
# number of times, with any arguments, in any order -- so they must not write to the object
# (C09: "calling the same object repeatedly with different inputs gives what a fresh object gives";
# C18: the model / residual images are functions of the fitted rows and the arguments).
OBSERVERS = [
    ('photutils/psf/photometry.py', 'PSFPhotometry', ('make_model_image', 'make_residual_image'),
     ('C09', 'C18')),
    ('photutils/psf/photometry.py', 'IterativePSFPhotometry',
     ('make_model_image', 'make_residual_image'), ('C09', 'C18')),
]


def observer_obligations(world, prop):
    obs = []
    for rel, cname, meths, props in OBSERVERS:
        if prop not in props:
            continue
        m = world.modules.get(rel)
        cls = m.classes.get(cname) if m is not None else None
        for meth in meths:
            oid = f'effects:{rel}::{cname}.{meth}/observer'
            fi = world.find_method(cls, meth) if cls is not None else None
            if fi is None:
                obs.append(Obligation(oid, prop, 'effects', LOST, detail=f'{cname}.{meth} not found',
                                      functions=[f'{rel}::{cname}.{meth}']))
                continue
            text = (f'{cname}.{meth} writes to no state of the object it is called on (fields and '
                    'everything reachable from them): repeated calls with different arguments see '
                    'the same fitted state')
            bad = [e for e in fi.effects.values() if e.origin.startswith('F:')]
            fn = [f'{fi.target}#{src_hash(ast.dump(fi.node))}']
            if bad:
                e = bad[0]
                obs.append(Obligation(oid, prop, 'effects', REFUTED, backend='effects', functions=fn,
                                      text=text, detail=f'in-place write reaching field '
                                      f'{e.origin[2:]}: {e.desc} ({e.site})',
                                      model={'origin': e.origin, 'line': e.lineno}))
            else:
                obs.append(Obligation(oid, prop, 'effects', DISCHARGED, backend='effects',
                                      functions=fn, text=text))
    return obs


def schedule_obligations(world, prop):
    """C06: "the output is bit-identical for every nproc and every order in which worker
    processes finish".

    * completion-order independence: the loop that consumes futures as they complete may only
      (a) look the submission index up in the dict that was filled with enumerate() indices when
      the jobs were submitted, (b) store `future.result()` into the pre-sized result list at that
      index, (c) drive the progress bar.  Distinct futures have distinct indices, so the final
      list does not depend on the completion order.  An order-dependent accumulation in that loop
      (append / extend / `x += ...` / a store at a key not derived from the submission index) is
      a refutation with the statement as witness; anything else unrecognised is *undecided*.
    * worker purity: the function run in the workers writes to none of its arguments (with one
      process the arguments are shared between sources, with several they are pickled copies).
    * the serial branch and the merge loop of the parallel branch run the same statements on each
      (label, slice, result) triple, in label order (textual identity up to the names of the
      loop variables; a difference is undecided, not a refutation)."""
    rel = 'photutils/segmentation/deblend.py'
    m = world.modules.get(rel)
    base = f'effects:{rel}::deblend_sources'
    fi = m.functions.get('deblend_sources') if m is not None else None
    if fi is None:
        return [Obligation(f'{base}/schedule', prop, 'effects', LOST,
                           detail='deblend_sources not found', functions=[f'{rel}::deblend_sources'])]
    fn = [f'{fi.target}#{src_hash(ast.dump(fi.node))}']
    obs = []

    def ob(kind, status, text, detail='', model=None):
        obs.append(Obligation(f'{base}/{kind}', prop, 'effects', status, backend='effects',
                              functions=fn, text=text, detail=detail, model=model))

    # ---- (1) completion-order independence
    text1 = ('futures are consumed in completion order only through results[index_of[future]] = '
             'future.result() (plus progress-bar calls): the merged output does not depend on the '
             'order in which workers finish')
    unordered = [n for n in ast.walk(fi.node) if isinstance(n, ast.For)
                 and isinstance(n.iter, ast.Call)
                 and _dotted_name(n.iter.func).split('.')[-1] in ('as_completed', 'imap_unordered')]
    uses_unordered = [n for n in ast.walk(fi.node) if isinstance(n, ast.Call)
                      and _dotted_name(n.func).split('.')[-1] in ('as_completed', 'imap_unordered')]
    if not unordered:
        if uses_unordered:
            ob('completion-order-independence', UNKNOWN, text1,
               'as_completed / imap_unordered used outside a plain for loop')
        else:
            ob('completion-order-independence', DISCHARGED, text1
               + ' (no completion-order iteration in the function)')
    for loop in unordered:
        fut = loop.target.id if isinstance(loop.target, ast.Name) else None
        dname = loop.iter.args[0].id if loop.iter.args and isinstance(loop.iter.args[0], ast.Name) \
            else None
        pbars = set()
        for w in ast.walk(fi.node):
            if isinstance(w, ast.With):
                for it in w.items:
                    if isinstance(it.optional_vars, ast.Name) and isinstance(it.context_expr, ast.Call) \
                            and _dotted_name(it.context_expr.func).split('.')[-1] in ('tqdm',):
                        pbars.add(it.optional_vars.id)
        idx_names = set()
        bad, unknown = None, None
        stores = set()
        for st_ in loop.body:
            src = ast.unparse(st_)
            if isinstance(st_, ast.Expr) and isinstance(st_.value, ast.Call) \
                    and isinstance(st_.value.func, ast.Attribute) \
                    and isinstance(st_.value.func.value, ast.Name) \
                    and st_.value.func.value.id in pbars:
                continue
            if isinstance(st_, ast.Assign) and len(st_.targets) == 1 \
                    and isinstance(st_.targets[0], ast.Name) \
                    and isinstance(st_.value, ast.Subscript) \
                    and isinstance(st_.value.value, ast.Name) and st_.value.value.id == dname \
                    and isinstance(st_.value.slice, ast.Name) and st_.value.slice.id == fut:
                idx_names.add(st_.targets[0].id)
                continue
            if isinstance(st_, ast.Assign) and len(st_.targets) == 1 \
                    and isinstance(st_.targets[0], ast.Subscript) \
                    and isinstance(st_.targets[0].value, ast.Name):
                key = st_.targets[0].slice
                keyed = (isinstance(key, ast.Name) and key.id in idx_names) or (
                    isinstance(key, ast.Subscript) and isinstance(key.value, ast.Name)
                    and key.value.id == dname and isinstance(key.slice, ast.Name)
                    and key.slice.id == fut)
                val_ok = isinstance(st_.value, ast.Call) and isinstance(st_.value.func, ast.Attribute) \
                    and st_.value.func.attr == 'result' \
                    and isinstance(st_.value.func.value, ast.Name) \
                    and st_.value.func.value.id == fut
                if keyed and val_ok:
                    stores.add(st_.targets[0].value.id)
                    continue
                if not keyed:
                    bad = (st_.lineno, src, 'store at a key that is not the submission index')
                    break
                unknown = (st_.lineno, src)
                continue
            # order-dependent accumulation
            acc = None
            for x in ast.walk(st_):
                if isinstance(x, ast.Call) and isinstance(x.func, ast.Attribute) \
                        and x.func.attr in ('append', 'extend', 'insert', 'appendleft') \
                        and isinstance(x.func.value, ast.Name) and x.func.value.id not in pbars:
                    acc = f'.{x.func.attr}() on {x.func.value.id}'
                if isinstance(x, ast.AugAssign):
                    acc = f'augmented assignment to {ast.unparse(x.target)}'
            if acc:
                bad = (st_.lineno, src, acc)
                break
            unknown = (st_.lineno, src)
        # the dict must map each future to its enumerate() index
        inj = False
        for n in ast.walk(fi.node):
            if isinstance(n, ast.For) and isinstance(n.iter, ast.Call) \
                    and _dotted_name(n.iter.func) == 'enumerate' \
                    and isinstance(n.target, ast.Tuple) and isinstance(n.target.elts[0], ast.Name):
                ix = n.target.elts[0].id
                for st_ in n.body:
                    if isinstance(st_, ast.Assign) and len(st_.targets) == 1 \
                            and isinstance(st_.targets[0], ast.Subscript) \
                            and isinstance(st_.targets[0].value, ast.Name) \
                            and st_.targets[0].value.id == dname \
                            and isinstance(st_.value, ast.Name) and st_.value.id == ix \
                            and isinstance(st_.targets[0].slice, ast.Call) \
                            and _dotted_name(st_.targets[0].slice.func).endswith('.submit'):
                        inj = True
        # the container receiving the results must be position-addressed: a pre-sized list; a dict
        # remembers insertion (= completion) order and leaks it when iterated
        for rname in sorted(stores):
            if bad:
                break
            defs = [n for n in ast.walk(fi.node) if isinstance(n, ast.Assign)
                    and any(isinstance(t, ast.Name) and t.id == rname for t in n.targets)]
            presized = [d for d in defs if isinstance(d.value, ast.BinOp)
                        and isinstance(d.value.op, ast.Mult) and isinstance(d.value.left, ast.List)]
            if defs and len(presized) == len(defs):
                continue
            isdict = any(isinstance(d.value, ast.Dict) or (
                isinstance(d.value, ast.Call) and _dotted_name(d.value.func) in
                ('dict', 'OrderedDict', 'collections.OrderedDict')) for d in defs)
            it = None
            for n in ast.walk(fi.node):
                if isinstance(n, ast.For):
                    txt = ast.unparse(n.iter)
                    if any(k in txt for k in (f'{rname}.items()', f'{rname}.values()',
                                              f'{rname}.keys()')) or txt == rname:
                        it = (n.lineno, f'for ... in {txt}')
            if isdict and it:
                bad = (it[0], it[1], f'{rname} is a dict filled in completion order and iterated in '
                       'insertion order')
            else:
                unknown = unknown or (defs[0].lineno if defs else loop.lineno,
                                      f'{rname} is not a pre-sized list')
        if bad:
            ob('completion-order-independence', REFUTED, text1,
               f'line {bad[0]}: `{bad[1]}` -- {bad[2]}: the result depends on the order in which '
               'workers finish', {'line': bad[0], 'statement': bad[1]})
        elif unknown or not inj or fut is None or dname is None:
            why = (f'unrecognised statement at line {unknown[0]}: `{unknown[1]}`' if unknown else
                   'the future -> index dictionary is not filled with enumerate() indices at submit')
            ob('completion-order-independence', UNKNOWN, text1, why)
        else:
            ob('completion-order-independence', DISCHARGED, text1)

    # ---- (2) worker purity
    wf = m.functions.get('_deblend_source')
    text2 = ('_deblend_source (the function run by the workers) writes to none of its arguments: '
             'a shared params object (one process) behaves like a pickled copy (several)')
    if wf is None:
        ob('worker-purity', UNKNOWN, text2, '_deblend_source not found')
    else:
        eff = [e for e in wf.effects.values() if e.origin.startswith('P:')]
        if eff:
            e = eff[0]
            ob('worker-purity', REFUTED, text2,
               f'in-place write reaching parameter {e.origin[2:]}: {e.desc} ({e.site})',
               {'origin': e.origin, 'line': e.lineno})
        else:
            ob('worker-purity', DISCHARGED, text2)

    # ---- (3) serial branch and parallel merge run the same statements
    text3 = ('the per-source merge statements of the serial branch and of the parallel branch are '
             'textually identical (so nproc = 1 and nproc > 1 merge the same way, in label order)')

    def merge_tail(loop):
        body = list(loop.body)
        # statements from the first `if warns` to the end
        for i, st_ in enumerate(body):
            if isinstance(st_, ast.If) and 'warns' in ast.unparse(st_.test):
                return [ast.dump(x) for x in body[i:]]
        return None
    loops = [n for n in ast.walk(fi.node) if isinstance(n, ast.For) and isinstance(n.iter, ast.Call)
             and _dotted_name(n.iter.func) == 'zip' and 'labels' in ast.unparse(n.iter)]
    tails = [t for t in (merge_tail(lp) for lp in loops) if t]
    if len(tails) == 2 and tails[0] == tails[1]:
        ob('serial-parallel-merge-identical', DISCHARGED, text3)
    else:
        ob('serial-parallel-merge-identical', UNKNOWN, text3,
           f'{len(tails)} merge loops recognised' + ('' if len(tails) != 2 else '; they differ'))
    return obs


def _dotted_name(n):
    if isinstance(n, ast.Name):
        return n.id
    if isinstance(n, ast.Attribute):
        return _dotted_name(n.value) + '.' + n.attr
    return ''


def loop_obligations(world, prop):
    obs = []
    for p, rel, qual, needle, accs in INDEPENDENT_LOOPS:
        if p != prop:
            continue
        m = world.modules.get(rel)
        oid = f'effects:{rel}::{qual}/loop-independence'
        fi = None
        if m is not None:
            parts = qual.split('.')
            if len(parts) == 1:
                fi = m.functions.get(parts[0])
            elif parts[0] in m.classes:
                fi = m.classes[parts[0]].methods.get(parts[1])
        if fi is None:
            obs.append(Obligation(oid, prop, 'effects', LOST, detail=f'{qual} not found',
                                  functions=[f'{rel}::{qual}']))
            continue
        loops = [lp for lp in fi.loops if needle in lp['iter']]
        if not loops:
            # the iterable / loop variable may have been renamed: take the first top-level `for`
            # of the function whose body appends to a list created before it
            top = [st_ for st_ in fi.node.body if isinstance(st_, ast.For)]
            for st_ in top:
                if any(isinstance(x, ast.Call) and isinstance(x.func, ast.Attribute)
                       and x.func.attr == 'append' for x in ast.walk(st_)):
                    loops = [{'node': st_, 'iter': ast.unparse(st_.iter)}]
                    break
        node = loops[0]['node']
        # append-only accumulators: `x = []` before the loop, used in the loop only as x.append(..)
        accs = set(accs)
        for st_ in fi.node.body:
            if st_ is node:
                break
            if isinstance(st_, ast.Assign) and isinstance(st_.value, ast.List) \
                    and not st_.value.elts:
                for t in st_.targets:
                    if isinstance(t, ast.Name):
                        uses = [x for x in ast.walk(node) if isinstance(x, ast.Name)
                                and x.id == t.id]
                        apps = [x for x in ast.walk(node) if isinstance(x, ast.Call)
                                and isinstance(x.func, ast.Attribute) and x.func.attr == 'append'
                                and isinstance(x.func.value, ast.Name)
                                and x.func.value.id == t.id]
                        if uses and len(uses) == len(apps):
                            accs.add(t.id)
        read_first, written = _names_read_before_written(node.body)
        tnames = {n.id for n in ast.walk(node.target) if isinstance(n, ast.Name)}
        carried = set()
        for r in read_first:
            base = r.split('[')[0].split('.')[0]
            if r in written or (base + '[*]') in written:
                if base in accs or base in tnames:
                    continue
                carried.add(r)
        # in-place writes (through any alias / view) inside the loop to an object allocated before
        # the loop: the next iteration sees the modified object
        iter_names = {x.id for x in ast.walk(node.iter) if isinstance(x, ast.Name)}
        for site, wline, desc in getattr(fi, 'local_writes', []):
            elem = site.endswith('/')
            name, aline = site.rstrip('/')[2:].split('@')
            if name in iter_names:
                continue      # the iteration's own element of the iterated container
            if node.lineno <= wline <= node.end_lineno and int(aline) < node.lineno \
                    and name not in accs:
                carried.add(f'{name} (allocated at line {aline}, written in place at line '
                            f'{wline}: {desc.split(" @")[0]})')
        fhash = src_hash(ast.dump(fi.node))
        text = (f'iterations of the per-source loop in {qual} are independent: nothing an '
                f'iteration reads before writing it is written by the loop body, and no object '
                f'created before the loop is modified in place (declared accumulators '
                f'{sorted(accs)})')
        if carried:
            obs.append(Obligation(oid, prop, 'effects', REFUTED, backend='effects',
                                  functions=[f'{fi.target}#{fhash}'], text=text,
                                  detail=f'loop-carried dependence through {sorted(carried)}',
                                  model={'carried': sorted(carried), 'line': node.lineno}))
        else:
            obs.append(Obligation(oid, prop, 'effects', DISCHARGED, backend='effects',
                                  functions=[f'{fi.target}#{fhash}'], text=text))
    return obs


# ------------------------------------------------------------------------------------------
# per-property frame subsets (a property other than C10 claims the frames of its own entry points)
PROP_FRAMES = {
    'C06': [('photutils/segmentation/deblend.py', 'deblend_sources')],
    'C18': [('photutils/datasets/images.py', 'make_model_image'),
            ('photutils/psf/photometry.py', 'ModelImageMixin.make_model_image'),
            ('photutils/psf/photometry.py', 'ModelImageMixin.make_residual_image')],
    'C17': [('photutils/centroids/core.py', 'centroid_com'),
            ('photutils/centroids/core.py', 'centroid_quadratic'),
            ('photutils/centroids/core.py', 'centroid_sources'),
            ('photutils/centroids/gaussian.py', 'centroid_1dg'),
            ('photutils/centroids/gaussian.py', 'centroid_2dg')],
    'C12': [('photutils/psf/photometry.py', 'PSFPhotometry.__call__'),
            ('photutils/psf/groupers.py', 'SourceGrouper.__call__')],
    'C19': [('photutils/profiles/core.py', 'ProfileBase.__init__'),
            ('photutils/profiles/radial_profile.py', 'RadialProfile.__init__'),
            ('photutils/profiles/curve_of_growth.py', 'CurveOfGrowth.__init__')],
    # C20 "fitting leaves the image untouched": the constructor and both fitting entry points
    'C20': [('photutils/isophote/ellipse.py', 'Ellipse.fit_image'),
            ('photutils/isophote/ellipse.py', 'Ellipse.__init__', 'P:image'),
            ('photutils/isophote/ellipse.py', 'Ellipse.fit_isophote')],
    # C15 "MaskedArrays with an empty mask": the Gaussian centroids work on a masked copy; writing
    # through to the caller's mask makes the result depend on earlier calls with that container
    'C15': [('photutils/centroids/gaussian.py', 'centroid_1dg'),
            ('photutils/centroids/gaussian.py', 'centroid_2dg'),
            ('photutils/centroids/core.py', 'centroid_sources')],
    # C09 "calling the same ... Ellipse object repeatedly with different inputs": a call must not
    # leave anything behind in the object's (or the caller's) geometry
    'C09': [('photutils/isophote/ellipse.py', 'Ellipse.fit_image'),
            ('photutils/isophote/ellipse.py', 'Ellipse.fit_isophote')],
    'C02': [('photutils/aperture/photometry.py', 'aperture_photometry'),
            ('photutils/aperture/core.py', 'PixelAperture.do_photometry'),
            ('photutils/aperture/core.py', 'PixelAperture.area_overlap')],
}


def run(prop, tier):
    world = get_world()
    obs = []
    info = {'trusted': list(T.TRUSTED), 'fixpoint_rounds': world.rounds,
            'analysis_s': round(world.analysis_s, 2),
            'functions_analysed': sum(1 for _ in world.all_funcs()),
            'declared_frames': [f'{a} {b}: {c}' for a, b, c in DECLARED_FRAMES]}
    if world.parse_errors:
        raise RuntimeError('cannot parse: ' + '; '.join(world.parse_errors))
    if prop == 'C10':
        obs += frame_obligations(world, 'C10')
    elif prop in PROP_FRAMES:
        # entries are (file, function) or (file, function, origin prefix): with a prefix only the
        # writes reaching that argument / field belong to this property
        only = {f'{e[0]}::{e[1]}': e[2] for e in PROP_FRAMES[prop] if len(e) > 2}
        want = {f'{e[0]}::{e[1]}' for e in PROP_FRAMES[prop]}
        allf = frame_obligations(world, prop)
        got = set()
        kept_any = {}
        for o in allf:
            t = o.oid[len('effects:'):].split('/frame')[0]
            # inherited methods are reported under the public subclass: match by method name too
            if t in want or any(t.endswith('.' + w.split('.')[-1]) and
                                w.split('::')[0] == t.split('::')[0] for w in want):
                pre = only.get(t)
                if pre and '/frame:' in o.oid and not o.oid.split('/frame:', 1)[1].startswith(pre):
                    kept_any.setdefault(t, False)
                    continue
                kept_any[t] = True
                obs.append(o)
                got.add(t)
        for t, kept in kept_any.items():
            if not kept:          # every write of this function concerns other objects
                obs.append(Obligation(f'effects:{t}/frame:{only[t]}', prop, 'effects', DISCHARGED,
                                      backend='effects', functions=[t],
                                      text=f'{t}: no in-place write reaches {only[t]}'))
    if prop == 'C08':
        obs += ownership_obligations(world, 'C08')
    if prop in ('C13', 'C09'):
        # C09: state written in place by evaluation and shared with copies is exactly the kind of
        # per-object memory that makes a result depend on earlier calls
        obs += copy_ownership_obligations(world, prop)
    obs += loop_obligations(world, prop)
    if prop == 'C06':
        obs += schedule_obligations(world, prop)
    obs += observer_obligations(world, prop)
    return obs, info
