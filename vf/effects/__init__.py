"""E2: frame / ownership verification (see vf/effects/engine.py)."""


def run(prop, tier):
    try:
        from . import engine
    except ImportError:
        return [], {}
    return engine.run(prop, tier)
