"""Trusted tables of the effect analysis (the numpy / astropy aliasing model).

Everything here is an *assumption* about external libraries and is listed in the evidence.
"""

# functions returning an alias (view) of their first argument(s): name -> number of aliased args
ALIAS_FUNCS = {
    'np.asarray': 1, 'np.asanyarray': 1, 'np.atleast_1d': 1, 'np.atleast_2d': 1,
    'np.atleast_3d': 1, 'np.ravel': 1, 'np.reshape': 1, 'np.squeeze': 1, 'np.transpose': 1,
    'np.swapaxes': 1, 'np.broadcast_to': 1, 'np.moveaxis': 1, 'np.rollaxis': 1,
    'np.ma.asanyarray': 1, 'np.ma.asarray': 1, 'np.ma.MaskedArray': 2, 'np.ma.masked_array': 2,
    'np.ma.array': 2, 'np.ma.getdata': 1, 'np.ma.getmask': 1, 'np.ma.getmaskarray': 1,
    'np.expand_dims': 1, 'np.flipud': 1, 'np.fliplr': 1, 'np.flip': 1, 'np.rot90': 1,
    'np.diagonal': 1, 'np.real': 1, 'np.imag': 1, 'np.broadcast_arrays': 0, 'np.nditer': 1,
    'np.lib.stride_tricks.as_strided': 1, 'np.lib.stride_tricks.sliding_window_view': 1,
    'np.ascontiguousarray': 1, 'np.asfortranarray': 1, 'np.require': 1,
    'np.ma.masked_where': 0,   # copy=True by default -> handled as fresh below
    'NDData': 3, 'CCDData': 3, 'StdDevUncertainty': 1, 'reshape_as_blocks': 1,
    'extract_array': 1,
}
ALIAS_FUNC_SHORT = {k.split('.')[-1] for k in ALIAS_FUNCS if k.startswith('np.')
                    and not k.startswith('np.ma.')} - {'masked_where', 'array'}
ALIAS_FUNCS = {k: v for k, v in ALIAS_FUNCS.items() if k != 'np.ma.masked_where'}

# constructors that copy by default but alias with copy=False
COPY_FALSE_ALIAS = {'np.array', 'u.Quantity', 'Quantity', 'np.ma.masked_invalid',
                    'np.ma.masked_where', 'np.ma.masked_equal', 'np.ma.fix_invalid', 'Table',
                    'QTable', 'np.nan_to_num'}
COPY_FALSE_ALIAS_SHORT = {'to', 'to_value'}
COPY_FALSE_DEFAULT_ALIAS = {'to_value'}   # Quantity.to_value returns a view when no conversion

# methods whose result aliases the receiver
ALIAS_METHODS = {'view', 'ravel', 'reshape', 'squeeze', 'transpose', 'swapaxes', 'astype',
                 'filled',       # returns self._data when the mask is nomask
                 'to_value', 'byteswap_view', 'newbyteorder', 'diagonal', 'get', 'items',
                 'values', 'keys', 'setdefault', 'pop', 'as_array', 'group_by', 'groups'}
FRESH_METHODS = {'copy', 'flatten', 'compressed', 'tolist', 'sum', 'mean', 'std', 'var', 'min',
                 'max', 'any', 'all', 'nonzero', 'argmax', 'argmin', 'argsort', 'cumsum',
                 'round', 'clip', 'dot', 'conj', 'tobytes', 'item', 'format', 'join', 'split',
                 'strip', 'lower', 'upper', 'replace', 'startswith', 'endswith', 'index',
                 'count', 'deepcopy', 'decompose', 'si', 'cgs', 'to_table', 'evaluate', 'render'}

# method names that must not be resolved by name to repo methods (numpy/astropy/builtins own them)
EXTERNAL_METHOD_NAMES = FRESH_METHODS | ALIAS_METHODS | {
    'append', 'extend', 'insert', 'remove', 'sort', 'fill', 'update', 'add', 'clear', 'pop',
    'reverse', 'resize', 'put', 'itemset', 'partition', 'setflags', 'discard', 'popitem',
    'rename_column', 'remove_column', 'remove_columns', 'add_column', 'add_columns',
    'replace_column', 'add_row', 'remove_row', 'remove_rows', 'keep_columns', 'set', 'write',
    'read', 'close', 'plot', 'imshow', 'add_patch', 'warn', 'pixel_to_world', 'world_to_pixel',
    'to_pixel', 'to_sky', 'info', 'fit', 'fix_inputs', 'submit', 'result', 'map', 'shape',
}

MUTATING_METHODS = {
    'sort', 'fill', 'resize', 'put', 'itemset', 'partition', 'setflags', 'byteswap',
    'append', 'extend', 'insert', 'remove', 'pop', 'clear', 'reverse', 'update', 'add',
    'discard', 'popitem', 'setdefault', 'setfield',
    'rename_column', 'rename_columns', 'remove_column', 'remove_columns', 'add_column',
    'add_columns', 'replace_column', 'add_row', 'remove_row', 'remove_rows', 'keep_columns',
    'insert_row', 'harden_mask', 'soften_mask', 'shrink_mask', 'unshare_mask',
}

# free functions that write their k-th positional argument
MUTATING_FUNCS = {
    'np.copyto': 0, 'np.putmask': 0, 'np.place': 0, 'np.put': 0, 'np.put_along_axis': 0,
    'np.fill_diagonal': 0, 'np.random.shuffle': 0, 'random.shuffle': 0, 'rng.shuffle': 0,
    'np.add.at': 0, 'np.subtract.at': 0, 'np.maximum.at': 0, 'np.minimum.at': 0,
    'heapq.heappush': 0, 'heapq.heappop': 0, 'bisect.insort': 0,
}

SCALAR_ATTRS = {'shape', 'size', 'ndim', 'dtype', 'itemsize', 'nbytes', 'unit', 'name',
                'start', 'stop', 'step', '__name__', '__class__', 'isscalar', 'n_inputs',
                'n_outputs', 'param_names', 'colnames', 'nlabels', 'max_label'}
FRESH_ATTRS = set()
# attributes that are plain ndarrays (never Quantities): x <<= unit on them only rebinds
NDARRAY_ATTRS = {'data', 'value', '_data', 'array', 'mask'}

SCALAR_FUNCS = {'math.floor', 'math.ceil', 'math.sqrt', 'math.sin', 'math.cos', 'math.exp',
                'math.log', 'math.pi', 'np.isscalar', 'np.ndim', 'np.shape', 'np.size',
                'np.issubdtype', 'np.can_cast', 'np.result_type', 'np.dtype', 'np.iterable',
                'np.array_equal', 'np.allclose', 'np.isclose'}
SCALAR_FUNC_SHORT = {'isscalar', 'issubdtype', 'array_equal', 'allclose'}

# functions producing index arrays / boolean masks (fancy-indexing keys -> copies)
INDEX_FUNCS = {'np.where', 'np.nonzero', 'np.argsort', 'np.argwhere', 'np.flatnonzero',
               'np.isfinite', 'np.isnan', 'np.isinf', 'np.logical_and', 'np.logical_or',
               'np.logical_not', 'np.logical_xor', 'np.in1d', 'np.isin', 'np.unique',
               'np.lexsort', 'np.searchsorted', 'np.digitize', 'np.triu_indices',
               'np.tril_indices', 'np.ix_', 'np.arange', 'np.indices'}
INDEX_FUNC_SHORT = {k.split('.')[-1] for k in INDEX_FUNCS}

# parameter names that are scalars everywhere in photutils (type invariant = precondition)
SCALAR_PARAM_NAMES = {
    'n', 'nx', 'ny', 'npix', 'npixels', 'nsigma', 'size', 'axis', 'order', 'sigma', 'fwhm',
    'ratio', 'theta', 'r', 'r_in', 'r_out', 'a', 'b', 'w', 'h', 'a_in', 'a_out', 'b_in', 'b_out',
    'w_in', 'w_out', 'h_in', 'h_out', 'sma', 'eps', 'pa', 'x0', 'y0', 'astep', 'step', 'factor',
    'threshold_scalar', 'nlevels', 'contrast', 'connectivity', 'border_width', 'label',
    'new_label', 'start_label', 'seed', 'nproc', 'subpixels', 'method', 'mode', 'maxiters',
    'minsma', 'maxsma', 'sma0', 'conver', 'minit', 'maxit', 'fflag', 'maxgerr', 'oversampling',
    'index', 'i', 'j', 'k', 'idx', 'scale', 'gain_scalar', 'exclude_percentile', 'fill_value',
    'width', 'height', 'radius', 'min_separation', 'brightest', 'peakmax_scalar', 'nypsfs',
    'nxpsfs', 'nydet', 'nxdet', 'ygrid_scalar',
}
# (function target, parameter) pairs declared scalar by their own contract
SCALAR_PARAMS = {
    ('photutils/psf/model_io.py::_split_wfc_uvis', 'ygrid'),   # hmm: verified below
}
SCALAR_PARAMS = set()

TRUSTED = [
    '`x <<= unit` on values read from fields / lazy caches attaches a unit to a unit-less array (a '
    'view, no write); in-place unit conversion is considered only for a parameter itself',
    'add_progress_bar(x) iterates over x unchanged (tqdm wrapper)',
    'numpy aliasing model (vf/effects/tables.py): basic slicing / integer indexing / np.asarray, '
    'asanyarray, atleast_*d, ravel, reshape, squeeze, transpose, swapaxes, broadcast_to, moveaxis, '
    'np.ma.MaskedArray(data, mask), .T .data .value .mask .flat, .view(), .filled(), '
    'astype(copy=False), Quantity(copy=False), x << unit return views; boolean / integer-array '
    'indexing, .copy(), np.array(x), arithmetic and ufuncs without out= return fresh arrays',
    'A-ext: callees outside /repo neither mutate their arguments nor return aliases, except the '
    'explicit tables MUTATING_METHODS / MUTATING_FUNCS / out= / sigma_clip(copy=False) / setattr',
    'method calls on objects of unknown class are resolved by name to every repo method of that '
    'name (summaries joined); names owned by numpy/astropy/builtins use the tables instead',
]

# methods returning index arrays / boolean masks
INDEX_METHODS = {'nonzero', 'argsort', 'argmax', 'argmin', 'searchsorted'}

# local type facts (preconditions on helper values; read from the code, see DESIGN.md E2):
# (function target, expression) known to be an immutable python / numpy scalar
LOCAL_SCALARS = {
    # fluxfrac_args = [data, mask, aperture, kronflux, kwargs, max_radius]: kronflux is a numpy
    # float scalar taken from a flux array, max_radius a float
    ('photutils/segmentation/catalog.py::SourceCatalog.fluxfrac_radius', 'args[3]'),
    ('photutils/segmentation/catalog.py::SourceCatalog.fluxfrac_radius', 'max_radius'),
    # loop variables iterating a 1-D float array are immutable numpy scalars
    ('photutils/segmentation/catalog.py::SourceCatalog.centroid_win', 'xcen'),
    ('photutils/segmentation/catalog.py::SourceCatalog.centroid_win', 'ycen'),
    # astropy units are immutable: `unit **= 2` rebinds the local name
    ('photutils/aperture/stats.py::ApertureStats.var', 'unit'),
    ('photutils/aperture/stats.py::ApertureStats.biweight_midvariance', 'unit'),
}

# module roots whose functions return fresh objects unless listed in the alias tables
FRESH_MODULE_ROOTS = {'np', 'numpy', 'scipy', 'ndimage', 'math', 'warnings', 'u', 'bn',
                      'bottleneck', 'signal', 'interpolate', 'optimize', 'special', 'stats',
                      'inspect', 'itertools', 'functools', 'copy', 'os', 're', 'time', 'plt',
                      'mpl', 'matplotlib', 'multiprocessing', 'sys', 'contextlib'}
# external callables (by short name) known to return fresh objects
FRESH_EXTERNALS = {
    # scipy / skimage / astropy numerics
    'convolve', 'convolve_fft', 'fftconvolve', 'generic_filter', 'maximum_filter', 'zoom',
    'map_coordinates', 'binary_dilation', 'binary_erosion', 'label', 'find_objects',
    'sum_labels', 'watershed', 'block_reduce', 'block_replicate', 'discretize_model',
    'fclusterdata', 'root_scalar', 'leastsq', 'erf', 'j1', 'biweight_location',
    'biweight_scale', 'biweight_midvariance', 'mad_std', 'gaussian_fwhm_to_sigma', 'lstsq',
    'sigma_clipped_stats', 'sigma_clip', 'SigmaClip', 'median_absolute_deviation',
    'overlap_slices', 'PchipInterpolator', 'RectBivariateSpline', 'KDTree', 'cKDTree',
    # astropy containers / models / tables constructed from scratch (columns are copied)
    'QTable', 'Table', 'join', 'Column', 'SkyCoord', 'WCS',
    'Gaussian1D', 'Gaussian2D', 'Const2D', 'TRFLSQFitter', 'LevMarLSQFitter', 'Parameter',
    'ProgressBar', 'tqdm', 'ProcessPoolExecutor', 'as_completed', 'get_context', 'deepcopy',
    'defaultdict', 'OrderedDict', 'namedtuple', 'partial', 'Rectangle', 'Circle', 'Ellipse',
    'Polygon', 'ListedColormap', 'shape', 'transform', 'shapes', 'Regions', 'fits', 'open',
    'print', 'format', 'ValueError', 'TypeError', 'KeyError', 'IndexError', 'RuntimeError',
    'NotImplementedError', 'AstropyUserWarning', 'AstropyDeprecationWarning', 'UnitsError',
    'NoOverlapError', 'PartialOverlapError', 'NonFiniteValueError', 'NoDetectionsWarning',
    'isiterable', 'make_repr', 'object.__new__', 'super', 'vars', 'dir', 'minversion',
}

# imported names from these modules return fresh objects unless listed in the alias tables
FRESH_IMPORT_PREFIXES = (
    'scipy', 'numpy', 'skimage', 'bottleneck', 'astropy.stats', 'astropy.convolution',
    'astropy.table', 'astropy.modeling', 'astropy.units', 'astropy.coordinates', 'astropy.wcs',
    'astropy.utils', 'astropy.io', 'astropy.version', 'photutils.geometry', 'collections',
    'concurrent', 'multiprocessing', 'shapely', 'rasterio', 'regions', 'matplotlib', 'tqdm',
    'photutils.utils._optional_deps', 'photutils.utils.exceptions', 'astropy.nddata.NoOverlapError',
    'astropy.nddata.overlap_slices', 'astropy.nddata.block_replicate',
    'astropy.nddata.block_reduce', 'astropy.nddata.StdDevUncertainty',
)
