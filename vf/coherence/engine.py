"""E3: history properties as class invariants over the real source.

For a class K with lazily evaluated attributes (astropy ``lazyproperty`` stores the value in
``self.__dict__[name]``) the obligations are

  coherence   every public mutator that writes a field x resets (or re-seeds) every cached lazy
              attribute whose getter transitively reads x, with no read of such an attribute
              between the reset and the write;
  purity      a getter never destroys (``= None`` / ``del``) a field that itself (later on the same
              path) or any other getter / method can still read -- path conditions over the atoms
              "A is cached" and "f is None" are discharged by z3;
  config      fields holding constructor configuration are never rebound by calls / public methods
              (property setters are the documented assignment API and are exempt);
  reset       every field a call writes is written before it is read in that call (no result of an
              earlier call can flow into a later one).

Together with "each getter is a deterministic function of the fields it reads" (checked
syntactically: no RNG / module-level mutable state) these give: any interleaving of reads, setters
and calls yields what a fresh object yields.
"""
import ast
import time

import z3

from ..common import DISCHARGED, LOST, REFUTED, REPO, Obligation, src_hash
from ..effects.analysis import _dotted
from ..effects.engine import get_world


class Ev:
    __slots__ = ('kind', 'field', 'guards', 'line', 'func', 'val')

    def __init__(self, kind, field, guards, line, func, val=None):
        self.kind, self.field, self.guards = kind, field, tuple(guards)
        self.line, self.func, self.val = line, func, val

    def __repr__(self):
        return f'{self.kind}:{self.field}@{self.func}:{self.line}'


class Extractor:
    """Ordered field events of a method, with the `if` guards they occur under; calls to other
    methods of self and reads of plain properties are inlined (depth-limited)."""

    def __init__(self, world, cls, max_depth=6, consts=None):
        self.w = world
        self.cls = cls
        self.max_depth = max_depth
        self.consts = consts or {}    # callee parameter -> constant passed at the call site

    def _static(self, test):
        """Decide a guard over a parameter bound to a constant at the (inlined) call site."""
        c = self.consts
        if isinstance(test, ast.Name) and test.id in c:
            return bool(c[test.id])
        if isinstance(test, ast.UnaryOp) and isinstance(test.op, ast.Not):
            v = self._static(test.operand)
            return None if v is None else not v
        if isinstance(test, ast.Compare) and len(test.ops) == 1 and \
                isinstance(test.left, ast.Name) and test.left.id in c and \
                isinstance(test.comparators[0], ast.Constant):
            a, b = c[test.left.id], test.comparators[0].value
            op = test.ops[0]
            if isinstance(op, ast.Is):
                return a is b
            if isinstance(op, ast.IsNot):
                return a is not b
            if isinstance(op, ast.Eq):
                return a == b
            if isinstance(op, ast.NotEq):
                return a != b
        return None

    def _call_consts(self, m, call):
        """Constants bound to the parameters of m by this call (literal args and defaults)."""
        out = {}
        a = m.node.args
        pos = [x.arg for x in a.posonlyargs + a.args]
        if pos and pos[0] in ('self', 'cls'):
            pos = pos[1:]
        defaults = {}
        allpos = a.posonlyargs + a.args
        for p_, d in zip(allpos[len(allpos) - len(a.defaults):], a.defaults):
            if isinstance(d, ast.Constant):
                defaults[p_.arg] = d.value
        for p_, d in zip(a.kwonlyargs, a.kw_defaults):
            if isinstance(d, ast.Constant):
                defaults[p_.arg] = d.value
        given = set()
        if call is not None:
            for p_, arg in zip(pos, call.args):
                given.add(p_)
                if isinstance(arg, ast.Constant):
                    out[p_] = arg.value
            for k in call.keywords:
                if k.arg:
                    given.add(k.arg)
                    if isinstance(k.value, ast.Constant):
                        out[k.arg] = k.value.value
        for p_, v in defaults.items():
            if p_ not in given:
                out[p_] = v
        # parameters assigned in the body are not constant
        for n in ast.walk(m.node):
            if isinstance(n, (ast.Assign, ast.AugAssign)):
                for t in (n.targets if isinstance(n, ast.Assign) else [n.target]):
                    for x in ast.walk(t):
                        if isinstance(x, ast.Name):
                            out.pop(x.id, None)
        return out

    def lazy_names(self):
        out = set()
        for k in self.cls.mro(self.w):
            for key, fi in k.methods.items():
                if fi.is_lazy:
                    out.add(fi.name)
        return out

    def events(self, fi, depth=0, stack=()):
        self.out = []
        self._body(fi.node.body, [], fi, depth, stack + (fi.qualname,))
        return self.out

    # -- statements
    def _body(self, stmts, guards, fi, depth, stack):
        guards = list(guards)
        for s in stmts:
            if isinstance(s, ast.If):
                st = self._static(s.test)
                if st is not None:
                    self._body(s.body if st else s.orelse, guards, fi, depth, stack)
                    if _terminates(s.body if st else s.orelse):
                        return
                    continue
                self._expr(s.test, guards, fi, depth, stack)
                self._body(s.body, guards + [(s.test, True)], fi, depth, stack)
                self._body(s.orelse, guards + [(s.test, False)], fi, depth, stack)
                ta, tb = _terminates(s.body), _terminates(s.orelse)
                if ta and not tb:
                    guards.append((s.test, False))
                elif tb and not ta:
                    guards.append((s.test, True))
            elif isinstance(s, (ast.For, ast.While)):
                self._expr(s.iter if isinstance(s, ast.For) else s.test, guards, fi, depth, stack)
                self._body(s.body, guards, fi, depth, stack)
                self._body(s.orelse, guards, fi, depth, stack)
            elif isinstance(s, ast.With):
                for it in s.items:
                    self._expr(it.context_expr, guards, fi, depth, stack)
                self._body(s.body, guards, fi, depth, stack)
            elif isinstance(s, ast.Try):
                self._body(s.body, guards, fi, depth, stack)
                for h in s.handlers:
                    self._body(h.body, guards, fi, depth, stack)
                self._body(s.orelse, guards, fi, depth, stack)
                self._body(s.finalbody, guards, fi, depth, stack)
            elif isinstance(s, ast.Assign):
                self._expr(s.value, guards, fi, depth, stack)
                for t in s.targets:
                    self._target(t, s.value, guards, fi, depth, stack, s.lineno)
            elif isinstance(s, ast.AugAssign):
                self._expr(s.value, guards, fi, depth, stack)
                self._expr(_as_load(s.target), guards, fi, depth, stack)
                self._target(s.target, s.value, guards, fi, depth, stack, s.lineno, aug=True)
            elif isinstance(s, ast.AnnAssign):
                if s.value is not None:
                    self._expr(s.value, guards, fi, depth, stack)
                    self._target(s.target, s.value, guards, fi, depth, stack, s.lineno)
            elif isinstance(s, ast.Delete):
                for t in s.targets:
                    f = _self_field(t)
                    if f:
                        self._emit('write', f, guards, s.lineno, fi, 'del')
                    d = _dict_key(t)
                    if d:
                        self._emit('pop', d, guards, s.lineno, fi)
            elif isinstance(s, (ast.FunctionDef, ast.ClassDef)):
                continue
            else:
                for c in ast.iter_child_nodes(s):
                    if isinstance(c, ast.expr):
                        self._expr(c, guards, fi, depth, stack)

    def _target(self, t, value, guards, fi, depth, stack, lineno, aug=False):
        if isinstance(t, (ast.Tuple, ast.List)):
            for e in t.elts:
                self._target(e, None, guards, fi, depth, stack, lineno)
            return
        f = _self_field(t)
        if f:
            val = 'value'
            if isinstance(value, ast.Constant) and value.value is None and not aug:
                val = 'none'
            self._emit('write', f, guards, lineno, fi, val)
            return
        d = _dict_key(t)
        if d:
            self._emit('seed', d, guards, lineno, fi)
            return
        # in-place stores self.f[...] = v / self.f.attr = v
        if isinstance(t, (ast.Subscript, ast.Attribute)):
            b = t.value
            while isinstance(b, (ast.Subscript, ast.Attribute)) and _self_field(b) is None:
                b = b.value
            f = _self_field(b)
            if f:
                self._emit('read', f, guards, lineno, fi)
                self._emit('inplace', f, guards, lineno, fi)
            if isinstance(t, ast.Subscript):
                self._expr(t.slice, guards, fi, depth, stack)

    def _emit(self, kind, field, guards, line, fi, val=None):
        self.out.append(Ev(kind, field, guards, line, fi.qualname, val))

    # -- expressions (evaluation order approximated by source order)
    def _expr(self, e, guards, fi, depth, stack):
        if e is None:
            return
        if isinstance(e, ast.BoolOp):
            # short-circuit: later operands are evaluated under the earlier ones
            g = list(guards)
            for v in e.values:
                self._expr(v, g, fi, depth, stack)
                g = g + [(v, isinstance(e.op, ast.And))]
            return
        if isinstance(e, ast.IfExp):
            self._expr(e.test, guards, fi, depth, stack)
            self._expr(e.body, guards + [(e.test, True)], fi, depth, stack)
            self._expr(e.orelse, guards + [(e.test, False)], fi, depth, stack)
            return
        if isinstance(e, ast.Compare) and _dict_membership(e):
            return   # "'x' in self.__dict__" is a guard atom, not a read of x
        if isinstance(e, ast.Call):
            fname = _dotted(e.func)
            for a in e.args:
                self._expr(a, guards, fi, depth, stack)
            for k in e.keywords:
                self._expr(k.value, guards, fi, depth, stack)
            if fname in ('self._reset_lazyproperties',):
                self._emit('reset_all', '*', guards, e.lineno, fi)
                return
            if fname == 'self.__dict__.pop' and e.args and isinstance(e.args[0], ast.Constant):
                self._emit('pop', e.args[0].value, guards, e.lineno, fi)
                return
            if fname == 'self.__dict__.get' and e.args and isinstance(e.args[0], ast.Constant):
                self._emit('cacheread', e.args[0].value, guards, e.lineno, fi)
                return
            if fname in ('setattr', 'delattr') and e.args and isinstance(e.args[0], ast.Name) \
                    and e.args[0].id == 'self':
                nm = e.args[1].value if isinstance(e.args[1], ast.Constant) else '*'
                self._emit('write', nm, guards, e.lineno, fi,
                           'del' if fname == 'delattr' else 'value')
                return
            if fname == 'getattr' and e.args and isinstance(e.args[0], ast.Name) \
                    and e.args[0].id == 'self':
                nm = e.args[1].value if isinstance(e.args[1], ast.Constant) else '*'
                self._read(nm, guards, fi, depth, stack, e.lineno)
                return
            parts = fname.split('.')
            if len(parts) == 2 and parts[0] == 'self':
                m = self.w.find_method(self.cls, parts[1])
                if m is not None and m.qualname not in stack and depth < self.max_depth:
                    sub = Extractor(self.w, self.cls, self.max_depth, self._call_consts(m, e))
                    sub.out = self.out
                    sub._body(m.node.body, guards, m, depth + 1, stack + (m.qualname,))
                    return
                if m is None:
                    # self.<field>(...) e.g. self.grouper(x, y): a read of the field
                    self._read(parts[1], guards, fi, depth, stack, e.lineno)
                    return
            if isinstance(e.func, ast.Attribute):
                self._expr(e.func.value, guards, fi, depth, stack)
            return
        if isinstance(e, ast.Attribute):
            f = _self_field(e)
            if f and isinstance(e.ctx, ast.Load):
                self._read(f, guards, fi, depth, stack, e.lineno)
                return
            self._expr(e.value, guards, fi, depth, stack)
            return
        if isinstance(e, ast.Subscript):
            d = _dict_key(e)
            if d:
                self._emit('cacheread', d, guards, e.lineno, fi)
                return
        if isinstance(e, (ast.Lambda, ast.ListComp, ast.SetComp, ast.DictComp, ast.GeneratorExp)):
            for c in ast.walk(e):
                if c is not e and isinstance(c, ast.Attribute):
                    f = _self_field(c)
                    if f and isinstance(c.ctx, ast.Load):
                        self._read(f, guards, fi, depth, stack, c.lineno)
                elif c is not e and isinstance(c, ast.Call) and \
                        _dotted(c.func).startswith('self.'):
                    self._expr(c, guards, fi, depth, stack)
            return
        for c in ast.iter_child_nodes(e):
            if isinstance(c, ast.expr):
                self._expr(c, guards, fi, depth, stack)

    def _read(self, f, guards, fi, depth, stack, line):
        m = self.w.find_method(self.cls, f)
        if m is not None and m.is_lazy:
            self._emit('lazyread', f, guards, line, fi)
            return
        if m is not None and m.is_property and not m.is_setter:
            if m.qualname not in stack and depth < self.max_depth:
                sub = Extractor(self.w, self.cls, self.max_depth)
                sub.out = self.out
                sub._body(m.node.body, guards, m, depth + 1, stack + (m.qualname,))
            return
        if m is not None:
            return    # bound method object
        self._emit('read', f, guards, line, fi)


def _terminates(stmts):
    return bool(stmts) and isinstance(stmts[-1], (ast.Return, ast.Raise, ast.Continue, ast.Break))


def _as_load(t):
    return ast.parse(ast.unparse(t), mode='eval').body


def _self_field(n):
    if isinstance(n, ast.Attribute) and isinstance(n.value, ast.Name) and n.value.id == 'self' \
            and n.attr != '__dict__':
        return n.attr
    return None


def _dict_key(n):
    """self.__dict__['key'] -> key"""
    if isinstance(n, ast.Subscript) and isinstance(n.value, ast.Attribute) and \
            n.value.attr == '__dict__' and isinstance(n.value.value, ast.Name) and \
            n.value.value.id == 'self' and isinstance(n.slice, ast.Constant):
        return n.slice.value
    return None


def _dict_membership(e):
    return (len(e.ops) == 1 and isinstance(e.ops[0], (ast.In, ast.NotIn))
            and isinstance(e.left, ast.Constant) and isinstance(e.comparators[0], ast.Attribute)
            and e.comparators[0].attr == '__dict__')


# ---------------------------------------------------------------------------------------------
# guards -> z3

class GuardEnc:
    def __init__(self):
        self.atoms = {}

    def atom(self, name):
        if name not in self.atoms:
            self.atoms[name] = z3.Bool(name)
        return self.atoms[name]

    def enc(self, test):
        if isinstance(test, ast.BoolOp):
            parts = [self.enc(v) for v in test.values]
            return z3.And(*parts) if isinstance(test.op, ast.And) else z3.Or(*parts)
        if isinstance(test, ast.UnaryOp) and isinstance(test.op, ast.Not):
            return z3.Not(self.enc(test.operand))
        if isinstance(test, ast.Compare) and len(test.ops) == 1:
            op, l, r = test.ops[0], test.left, test.comparators[0]
            if _dict_membership(test):
                a = self.atom(f'cached:{l.value}')
                return a if isinstance(op, ast.In) else z3.Not(a)
            f = _self_field(l)
            if f and isinstance(r, ast.Constant) and r.value is None and \
                    isinstance(op, (ast.Is, ast.IsNot, ast.Eq, ast.NotEq)):
                a = self.atom(f'none:{f}')
                return a if isinstance(op, (ast.Is, ast.Eq)) else z3.Not(a)
        return self.atom('expr:' + ast.unparse(test))

    def conj(self, guards):
        fs = []
        for t, pol in guards:
            f = self.enc(t)
            fs.append(f if pol else z3.Not(f))
        return z3.And(*fs) if fs else z3.BoolVal(True)


def sat(*fs):
    s = z3.Solver()
    s.set('timeout', 5000)
    s.add(*fs)
    return s.check() != z3.unsat


# ---------------------------------------------------------------------------------------------
# class tables

def find_class(world, rel, name):
    m = world.modules.get(rel)
    return m.classes.get(name) if m else None


def all_methods(world, cls):
    seen, out = set(), []
    for k in cls.mro(world):
        for key, fi in k.methods.items():
            if key in seen:
                continue
            seen.add(key)
            out.append(fi)
    return out


def reads_star(world, cls, ex_cache):
    """lazy attribute -> set of plain fields its getter transitively reads."""
    lazies = {fi.name: fi for fi in all_methods(world, cls) if fi.is_lazy}
    direct = {}
    deps = {}
    for name, fi in lazies.items():
        evs = ex_cache(fi)
        direct[name] = {e.field for e in evs if e.kind in ('read', 'inplace', 'cacheread')}
        deps[name] = {e.field for e in evs if e.kind == 'lazyread'}
    out = {}
    for name in lazies:
        seen, acc, todo = set(), set(), [name]
        while todo:
            n = todo.pop()
            if n in seen:
                continue
            seen.add(n)
            acc |= direct.get(n, set())
            todo.extend(deps.get(n, ()))
        out[name] = acc
    # lazy attribute -> lazies whose getters (transitively) read it
    users = {name: set() for name in lazies}
    for name in lazies:
        seen, todo = set(), list(deps.get(name, ()))
        while todo:
            n = todo.pop()
            if n in seen:
                continue
            seen.add(n)
            todo.extend(deps.get(n, ()))
        for n in seen:
            if n in users:
                users[n].add(name)
    reads_star.users = users
    return out, lazies


def _ob(oid, prop, status, fi, text, detail='', model=None):
    return Obligation(oid, prop, 'coherence', status, backend='coherence+z3',
                      functions=[f'{fi.target}#{src_hash(ast.dump(fi.node))}'] if fi else [],
                      text=text, detail=detail, model=model)


# Cache entries that a mutator may re-seed after the reset, with the reason the seeded value equals
# what the getter would compute (each is additionally checked by the bounded drivers).  Any other
# `self.__dict__[lazy] = value` in a mutator is an unverified re-seeding and fails the obligation.
# Cached attributes that are documented (or provably) unaffected when the cache they are derived
# from is re-seeded with a rescaled value; every other derived cache must be dropped.
SNAPSHOT_LAZIES = {
    ('RadialProfile', 'gaussian_fit'):
        'documented: "The Gaussian fit will not change if the profile normalization is changed '
        'after performing the fit"',
    ('RadialProfile', 'gaussian_profile'):
        'documented: "The Gaussian profile will not change if the profile normalization is '
        'changed after performing the fit"',
    ('RadialProfile', 'gaussian_fwhm'): 'derived from the documented snapshot gaussian_fit',
    ('RadialProfile', '_profile_nanmask'):
        'isfinite(profile) is invariant under multiplication by a finite non-zero factor',
}

VERIFIED_SEEDS = {
    ('SegmentationImage', 'data.setter', 'labels'):
        'labels = _get_labels(value) computed from the new array just validated',
    ('SegmentationImage', 'relabel_consecutive', 'labels'):
        'new_labels = arange(nlabels) + start_label is the image of the sorted old labels under '
        'the strictly increasing relabel map',
    ('SegmentationImage', 'relabel_consecutive', 'slices'):
        'the relabel map is strictly increasing on present labels, so the footprints and their '
        'order (sorted by label) are unchanged',
    ('ProfileBase', 'normalize', 'profile'): 'scaled-cache invariant: cached = raw / normalization',
    ('ProfileBase', 'normalize', 'profile_error'): 'scaled-cache invariant',
    ('ProfileBase', 'normalize', 'data_profile'): 'scaled-cache invariant (only if cached)',
    ('ProfileBase', 'unnormalize', 'profile'): 'scaled-cache invariant',
    ('ProfileBase', 'unnormalize', 'profile_error'): 'scaled-cache invariant',
    ('ProfileBase', 'unnormalize', 'data_profile'): 'scaled-cache invariant (only if cached)',
}


def coherence_obligations(world, prop, rel, cname, seeds_ok=()):
    """Mutator coherence for class cname."""
    cls = find_class(world, rel, cname)
    base = f'coherence:{rel}::{cname}'
    if cls is None:
        return [_ob(f'{base}/class', prop, LOST, None, '', f'class {cname} not found')]
    cache = {}

    def evs(fi):
        if fi.qualname not in cache:
            cache[fi.qualname] = Extractor(world, cls).events(fi)
        return cache[fi.qualname]
    rstar, lazies = reads_star(world, cls, evs)
    obs = []
    for fi in all_methods(world, cls):
        if fi.is_lazy or (fi.is_property and not fi.is_setter) or fi.name == '__init__':
            continue
        if fi.name.startswith('_') and fi.name not in ('__call__', '__setitem__'):
            continue      # private helpers are inlined into the public methods that call them
        seq = evs(fi)
        writes = [(i, e) for i, e in enumerate(seq) if e.kind in ('write', 'inplace')]
        if not writes and not any(e.kind == 'seed' for e in seq):
            continue
        problems = []
        seeded = set()
        for i, w in writes:
            dep = {a for a, r in rstar.items() if w.field in r}
            if not dep:
                continue
            resets = [j for j, e in enumerate(seq) if e.kind == 'reset_all']
            ok = False
            for j in resets:
                lo, hi = (j, i) if j < i else (i, j)
                between = seq[lo + 1:hi]
                if not any(e.kind == 'lazyread' and e.field in dep for e in between):
                    ok = True
                    break
            if not ok:
                # explicit pops / re-seeding of every dependent attribute also restore coherence
                handled = {e.field for e in seq if e.kind in ('pop', 'seed')}
                if dep <= handled:
                    ok = True
            if not ok:
                problems.append((w, sorted(dep)))
        # re-seeding the cache of a lazy attribute changes what every lazy attribute derived
        # from it would compute: those must be reset, popped or re-seeded as well
        users = getattr(reads_star, 'users', {})
        owners0 = {k.name for k in cls.mro(world)}
        for i, ev0 in enumerate(seq):
            if ev0.kind != 'seed' or ev0.field not in lazies:
                continue
            dep = {d for d in users.get(ev0.field, ())
                   if not any((o, d) in SNAPSHOT_LAZIES for o in owners0)}
            if not dep:
                continue
            handled = {e.field for e in seq if e.kind in ('pop', 'seed')}
            later_reset = any(e.kind == 'reset_all' for e in seq[i + 1:])
            # ... or were all dropped earlier and not recomputed before this store
            earlier_reset = any(
                e.kind == 'reset_all' and not any(
                    x.kind == 'lazyread' and x.field in dep for x in seq[j + 1:i])
                for j, e in enumerate(seq[:i]))
            if not (dep <= handled or later_reset or earlier_reset):
                problems.append((ev0, sorted(dep - handled)))
        # reading a lazy attribute inside a mutator *after* the mutator wrote a field that the
        # attribute's getter reads returns the post-state value if the attribute is not cached
        # yet, and the pre-state value if it is: a subsequent re-seeding from that read (rescale
        # the cached array) is only right when the read is guarded by "the attribute is cached"
        genc = GuardEnc()
        for i, ev0 in enumerate(seq):
            if ev0.kind != 'seed' or ev0.field not in lazies:
                continue
            L = ev0.field
            reads = [(j, e) for j, e in enumerate(seq[:i]) if e.kind == 'lazyread' and e.field == L
                     and e.line == ev0.line]
            if not reads:
                continue
            j, rd = reads[-1]
            stale = [e for e in seq[:j] if e.kind in ('write', 'inplace')
                     and e.field in rstar.get(L, ())]
            if not stale:
                continue
            # the read happens under its guards: they must imply cached:L
            g = genc.conj(rd.guards)
            if sat(g, z3.Not(genc.atom(f'cached:{L}'))):
                problems.append((rd, [f'{L!r} is read to re-seed its own cache after '
                                      f'{stale[0].field!r} (which its getter reads) was written, '
                                      'without a guard that it is already cached: an uncached '
                                      'read computes from the new state and the update is '
                                      'applied twice']))
        seeded = sorted({e.field for e in seq if e.kind == 'seed' and e.field in lazies})
        mname = fi.name + ('.setter' if fi.is_setter else '')
        owners = {k.name for k in cls.mro(world)}
        for ev0 in seq:
            if ev0.kind != 'seed' or ev0.field not in lazies:
                continue
            # the method whose body contains the store (helpers are inlined)
            site = ev0.func.split('.')[-1]
            if site == fi.name and fi.is_setter:
                site = mname
            if not any((o, site, ev0.field) in VERIFIED_SEEDS for o in owners):
                problems.append((ev0, [f'unverified re-seeding of the cache of {ev0.field!r}']))
        tgt = f'{fi.qualname}' + ('.setter' if fi.is_setter else '')
        oid = f'{base}.{fi.name}{".setter" if fi.is_setter else ""}/coherence'
        text = (f'{tgt}: every write of a field is accompanied by a reset of all cached lazy '
                'attributes that (transitively) read it, with no read of them in between'
                + (f'; re-seeded caches {seeded} are assumed equal to their getters (checked '
                   'bounded)' if seeded else ''))
        if problems:
            w, dep = problems[0]
            if w.kind == 'lazyread':
                detail = f'{w.func}:{w.line}: {dep[0]}'
            elif w.kind == 'seed' and dep and not str(dep[0]).startswith('unverified'):
                detail = (f'{w.func}:{w.line} re-seeds the cache of {w.field!r} but leaves the '
                          f'cached attributes {dep}, which are computed from it, stale')
            elif w.kind == 'seed':
                detail = (f'{w.func}:{w.line} stores a value into the cache of {w.field!r} '
                          'although no seed obligation shows it equals what the getter computes '
                          'on the new state (not in VERIFIED_SEEDS)')
            else:
                detail = (f'write of {w.field} at {w.func}:{w.line} leaves cached {dep} stale '
                          '(no _reset_lazyproperties()/pop on this path)')
            obs.append(_ob(oid, prop, REFUTED, fi, text, detail,
                           {'field': w.field, 'line': w.line, 'stale': dep}))
        else:
            obs.append(_ob(oid, prop, DISCHARGED, fi, text))
    return obs


def purity_obligations(world, prop, rel, cname, benign=()):
    """Getter purity: no getter destroys / rewrites a field another access can still read."""
    cls = find_class(world, rel, cname)
    base = f'coherence:{rel}::{cname}'
    if cls is None:
        return [_ob(f'{base}/class', prop, LOST, None, '', f'class {cname} not found')]
    cache = {}

    def evs(fi):
        if fi.qualname not in cache:
            cache[fi.qualname] = Extractor(world, cls).events(fi)
        return cache[fi.qualname]
    methods = all_methods(world, cls)
    getters = [fi for fi in methods if (fi.is_lazy or fi.is_property) and not fi.is_setter]
    # private helpers only run inlined in public methods / getters
    readers = [fi for fi in methods if not fi.is_setter and
               (not fi.name.startswith('_') or fi.name in ('__call__', '__getitem__')
                or fi.is_lazy or fi.is_property)]
    obs = []
    for g in getters:
        seq = evs(g)
        enc = GuardEnc()
        bad = None
        for i, w in enumerate(seq):
            if w.kind != 'write' or w.field in benign:
                continue
            gw = enc.conj(w.guards)
            # (a) later read in the same getter evaluation
            for r in seq[i + 1:]:
                if r.kind in ('read', 'inplace') and r.field == w.field:
                    if w.val in ('none', 'del') and sat(gw, enc.conj(r.guards)):
                        bad = (w, r, 'the same getter reads it afterwards')
                        break
            if bad:
                break
            # (b) any other getter / method that can still run and read the field
            for h in readers:
                if h is g:
                    continue
                for r in evs(h):
                    if r.kind in ('read', 'inplace') and r.field == w.field:
                        extra = []
                        if h.is_lazy:
                            extra.append(z3.Not(enc.atom(f'cached:{h.name}')))
                        # the lazy getter g itself is being evaluated: it is not cached yet
                        if sat(gw, enc.conj(r.guards), *extra):
                            if w.val in ('none', 'del'):
                                bad = (w, r, f'{h.qualname} can still read it')
                            else:
                                bad = (w, r, f'getter rebinds a field read by {h.qualname}')
                            break
                if bad:
                    break
            if bad:
                break
        oid = f'{base}.{g.name}/purity'
        text = (f'{g.qualname}: the getter writes no field that a later access (itself or any '
                'other getter / method that can still run) reads')
        if bad:
            w, r, why = bad
            obs.append(_ob(oid, prop, REFUTED, g, text,
                           f'{w.func}:{w.line} sets {w.field} ({w.val}) although {why} '
                           f'({r.func}:{r.line})',
                           {'field': w.field, 'write_line': w.line, 'read_line': r.line,
                            'reader': r.func}))
        else:
            obs.append(_ob(oid, prop, DISCHARGED, g, text))
    return obs


def config_fields(world, cls):
    """Fields assigned in __init__ from an expression that mentions a constructor parameter."""
    init = world.find_method(cls, '__init__')
    if init is None:
        return set(), None
    params = set(init.params) - {'self'}
    out = set()
    for n in ast.walk(init.node):
        if isinstance(n, ast.Assign):
            names = {x.id for x in ast.walk(n.value) if isinstance(x, ast.Name)}
            if names & params:
                for t in n.targets:
                    f = _self_field(t)
                    if f:
                        out.add(f)
    return out, init


def config_obligations(world, prop, rel, cname, entry_methods=None, results=()):
    cls = find_class(world, rel, cname)
    base = f'coherence:{rel}::{cname}'
    if cls is None:
        return [_ob(f'{base}/class', prop, LOST, None, '', f'class {cname} not found')]
    cfg, init = config_fields(world, cls)
    cfg -= set(results)
    obs = []
    for fi in all_methods(world, cls):
        if fi.name == '__init__' or fi.is_setter:
            continue
        if fi.name.startswith('_') and fi.name not in ('__call__', '__getitem__'):
            continue
        if entry_methods and fi.name not in entry_methods and not fi.is_property:
            continue
        seq = Extractor(world, cls).events(fi)
        bad = [e for e in seq if e.kind == 'write' and e.field in cfg]
        oid = f'{base}.{fi.name}/config-immutable'
        text = (f'{fi.qualname} never rebinds constructor configuration {sorted(cfg)} '
                '(in-place changes are frame obligations of C10)')
        if bad:
            e = bad[0]
            obs.append(_ob(oid, prop, REFUTED, fi, text,
                           f'{e.func}:{e.line} rebinds self.{e.field} (configuration set by '
                           '__init__)', {'field': e.field, 'line': e.line}))
        else:
            obs.append(_ob(oid, prop, DISCHARGED, fi, text))
    return obs


def reset_obligations(world, prop, rel, cname, entry, config_extra=()):
    """Per-call reset: fields written by a call are not read earlier in the same call."""
    cls = find_class(world, rel, cname)
    base = f'coherence:{rel}::{cname}'
    oid = f'{base}.{entry}/per-call-reset'
    fi = world.find_method(cls, entry) if cls else None
    if fi is None:
        return [_ob(oid, prop, LOST, None, '', f'{cname}.{entry} not found')]
    seq = Extractor(world, cls).events(fi)
    written = {e.field for e in seq if e.kind == 'write'}
    bad = None
    for i, e in enumerate(seq):
        if e.kind in ('read', 'inplace') and e.field in written and e.field not in config_extra:
            rg = {(id(t), p) for t, p in e.guards}
            covered = any(w.kind == 'write' and w.field == e.field and
                          {(id(t), p) for t, p in w.guards} <= rg for w in seq[:i])
            if not covered:
                bad = e
                break
    text = (f'{cname}.{entry}: every field the call writes is (unconditionally) written before '
            'it is first read in that call, so no result of an earlier call is an input')
    if bad:
        return [_ob(oid, prop, REFUTED, fi, text,
                    f'{bad.func}:{bad.line} reads self.{bad.field} before this call has written '
                    'it; the value comes from an earlier call',
                    {'field': bad.field, 'line': bad.line})]
    return [_ob(oid, prop, DISCHARGED, fi, text)]


def descriptor_obligations(world, prop):
    """Aperture attribute descriptors: __set__ pops every lazyproperty before storing."""
    rel = 'photutils/aperture/attributes.py'
    m = world.modules.get(rel)
    obs = []
    base = f'coherence:{rel}::ApertureAttribute'
    cls = m.classes.get('ApertureAttribute') if m else None
    if cls is None:
        return [_ob(f'{base}/class', prop, LOST, None, '', 'ApertureAttribute not found')]
    # 1. every __set__ in the module resets before it stores into instance.__dict__
    for c in m.classes.values():
        fi = c.methods.get('__set__')
        if fi is None:
            continue
        order = []
        for n in ast.walk(fi.node):
            if isinstance(n, ast.Call) and _dotted(n.func) == 'self._reset_lazyproperties':
                order.append(('reset', n.lineno))
            if isinstance(n, ast.Assign):
                for t in n.targets:
                    if isinstance(t, ast.Subscript) and isinstance(t.value, ast.Attribute) and \
                            t.value.attr == '__dict__':
                        order.append(('store', n.lineno))
        order.sort(key=lambda x: x[1])
        stores = [ln for k, ln in order if k == 'store']
        resets = [ln for k, ln in order if k == 'reset']
        ok = bool(stores) and bool(resets) and min(resets) < min(stores)
        # the reset may only be skipped when the attribute is not yet in the instance dict
        guard_ok = True
        for n in ast.walk(fi.node):
            if isinstance(n, ast.If):
                calls = [x for x in ast.walk(n) if isinstance(x, ast.Call)
                         and _dotted(x.func) == 'self._reset_lazyproperties']
                if calls:
                    guard_ok = ast.unparse(n.test) == 'self.name in instance.__dict__'
        oid = f'coherence:{rel}::{c.name}.__set__/descriptor-reset'
        text = (f'{c.name}.__set__ resets the instance lazy caches before storing the new value '
                '(skipped only when the attribute is not yet set)')
        if ok and guard_ok:
            obs.append(_ob(oid, prop, DISCHARGED, fi, text))
        else:
            obs.append(_ob(oid, prop, REFUTED, fi, text,
                           f'store at {stores} not preceded by _reset_lazyproperties '
                           f'(resets at {resets}, guard ok={guard_ok})',
                           {'stores': stores, 'resets': resets}))
    # 2. _reset_lazyproperties pops every key of instance._lazyproperties
    fi = cls.methods.get('_reset_lazyproperties')
    oid = f'{base}._reset_lazyproperties/pops-all'
    text = '_reset_lazyproperties pops every name in instance._lazyproperties from __dict__'
    ok = False
    if fi is not None:
        for n in ast.walk(fi.node):
            if isinstance(n, ast.For) and ast.unparse(n.iter) == 'instance._lazyproperties':
                body = ast.unparse(n)
                ok = 'instance.__dict__.pop(key' in body
    obs.append(_ob(oid, prop, DISCHARGED if ok else REFUTED, fi, text,
                   '' if ok else 'loop over instance._lazyproperties with __dict__.pop not found'))
    # 3. Aperture._lazyproperties enumerates all lazyproperty members of the class
    rel2 = 'photutils/aperture/core.py'
    m2 = world.modules.get(rel2)
    ap = m2.classes.get('Aperture') if m2 else None
    fi = ap.methods.get('_lazyproperties') if ap else None
    oid = f'coherence:{rel2}::Aperture._lazyproperties/enumerates-all'
    text = ('Aperture._lazyproperties = names of all members of the class that are lazyproperty '
            'instances (inspect.getmembers with an isinstance predicate)')
    ok = False
    if fi is not None:
        src = ast.unparse(fi.node)
        ok = 'inspect.getmembers(self.__class__' in src and 'isinstance(obj, lazyproperty)' in src
    obs.append(_ob(oid, prop, DISCHARGED if ok else REFUTED, fi, text,
                   '' if ok else 'enumeration pattern not found'))
    # 4. every cached derived attribute of the aperture classes is a lazyproperty (so that it is
    #    enumerated): no method stores derived values in plain fields
    for rel3, names in (('photutils/aperture/core.py', ('Aperture', 'PixelAperture',
                                                        'SkyAperture')),
                        ('photutils/aperture/circle.py', None),
                        ('photutils/aperture/ellipse.py', None),
                        ('photutils/aperture/rectangle.py', None)):
        m3 = world.modules.get(rel3)
        if m3 is None:
            continue
        for c in m3.classes.values():
            if names and c.name not in names:
                continue
            for fi in c.methods.values():
                if fi.name == '__init__' or fi.is_setter:
                    continue
                other_cache = [d for d in fi.decorators
                               if d.split('.')[-1] in ('cached_property', 'lru_cache', 'cache')]
                wr = [f for f in fi.field_writes if not f.startswith('__')]
                if other_cache:
                    wr = wr + [f'@{other_cache[0]} (not reset by the attribute descriptors, which '
                               'only pop astropy lazyproperty members)']
                oid = f'coherence:{rel3}::{c.name}.{fi.name}/no-plain-cache'
                text = (f'{c.qualname if hasattr(c, "qualname") else c.name}.{fi.name} stores no '
                        'derived value in a plain field (only lazyproperty caches, which the '
                        'descriptors reset)')
                if wr:
                    obs.append(_ob(oid, prop, REFUTED, fi, text,
                                   f'writes plain field(s) {sorted(wr)}', {'fields': sorted(wr)}))
                else:
                    obs.append(_ob(oid, prop, DISCHARGED, fi, text))
    return obs


def cache_frozen_obligations(world, prop, rel, cname):
    """No method mutates a cached lazy value in place (a later read would return the mutated
    object, so results would depend on what ran before)."""
    cls = find_class(world, rel, cname)
    base = f'coherence:{rel}::{cname}'
    if cls is None:
        return [_ob(f'{base}/class', prop, LOST, None, '', f'class {cname} not found')]
    methods = all_methods(world, cls)
    lazies = {fi.name for fi in methods if fi.is_lazy}
    obs = []
    for fi in methods:
        bad = [e for e in fi.effects.values()
               if e.origin.startswith('F:') and e.origin[2:].rstrip('/') in lazies
               and e.site.split('.')[-1] == fi.name]
        oid = f'{base}.{fi.name}/cache-frozen'
        text = (f'{fi.qualname} performs no in-place write on a cached lazy value '
                f'({len(lazies)} lazy attributes)')
        if bad:
            e = bad[0]
            obs.append(_ob(oid, prop, REFUTED, fi, text,
                           f'in-place write to the cache of {e.origin[2:]}: {e.desc}',
                           {'cache': e.origin[2:], 'line': e.lineno}))
        elif fi.effects or fi.is_lazy or not fi.name.startswith('__'):
            obs.append(_ob(oid, prop, DISCHARGED, fi, text))
    return obs


def determinism_obligations(world, prop, targets):
    """Getters are deterministic functions of the fields they read: no RNG, no global state."""
    obs = []
    for rel, cname in targets:
        cls = find_class(world, rel, cname)
        if cls is None:
            continue
        for fi in all_methods(world, cls):
            if not (fi.is_lazy or fi.is_property) or fi.is_setter:
                continue
            src = ast.unparse(fi.node)
            bad = [k for k in ('np.random', 'random.', 'default_rng', 'time.time', 'global ')
                   if k in src]
            if fi.name in ('cmap',):
                continue    # documented: random colormap with a fixed seed
            oid = f'coherence:{rel}::{cname}.{fi.name}/deterministic'
            text = f'{fi.qualname} uses no RNG / clock / global mutable state'
            if bad:
                obs.append(_ob(oid, prop, REFUTED, fi, text, f'uses {bad}'))
    return obs


APERTURES = [('photutils/aperture/circle.py', 'CircularAperture'),
             ('photutils/aperture/circle.py', 'CircularAnnulus'),
             ('photutils/aperture/ellipse.py', 'EllipticalAperture'),
             ('photutils/aperture/ellipse.py', 'EllipticalAnnulus'),
             ('photutils/aperture/rectangle.py', 'RectangularAperture'),
             ('photutils/aperture/rectangle.py', 'RectangularAnnulus')]
# aperture objects are reused across calls (photometry, area_overlap, ApertureStats, profiles):
# nothing they cache may be written in place, and parameter assignment resets every cache
APERTURE_STATE = [('frozen', rel, cn) for rel, cn in APERTURES] + [('descriptor',)]

PLAN = {
    'C01': list(APERTURE_STATE),
    'C02': list(APERTURE_STATE),
    'C05': [('coherence', 'photutils/segmentation/core.py', 'SegmentationImage')],
    'C09': [
        ('purity', 'photutils/background/background_2d.py', 'Background2D'),
        ('config', 'photutils/background/background_2d.py', 'Background2D'),
        ('config', 'photutils/psf/photometry.py', 'PSFPhotometry'),
        ('reset', 'photutils/psf/photometry.py', 'PSFPhotometry', '__call__'),
        ('config', 'photutils/psf/photometry.py', 'IterativePSFPhotometry'),
        ('reset', 'photutils/psf/photometry.py', 'IterativePSFPhotometry', '__call__'),
        ('config', 'photutils/detection/starfinder.py', 'StarFinder'),
        ('config', 'photutils/detection/daofinder.py', 'DAOStarFinder'),
        ('config', 'photutils/detection/irafstarfinder.py', 'IRAFStarFinder'),
        ('config', 'photutils/isophote/ellipse.py', 'Ellipse'),
        ('config', 'photutils/background/local_background.py', 'LocalBackground'),
        ('config', 'photutils/psf/gridded_models.py', 'GriddedPSFModel'),
        ('coherence', 'photutils/profiles/core.py', 'ProfileBase'),
        ('coherence', 'photutils/profiles/radial_profile.py', 'RadialProfile'),
        ('coherence', 'photutils/profiles/curve_of_growth.py', 'CurveOfGrowth'),
        ('purity', 'photutils/profiles/radial_profile.py', 'RadialProfile'),
        ('purity', 'photutils/profiles/curve_of_growth.py', 'CurveOfGrowth'),
        ('descriptor',),
        ('frozen', 'photutils/background/background_2d.py', 'Background2D'),
    ] + [x for x in APERTURE_STATE if x[0] == 'frozen'] + [
        ('frozen', 'photutils/profiles/radial_profile.py', 'RadialProfile'),
        ('frozen', 'photutils/profiles/curve_of_growth.py', 'CurveOfGrowth'),
        ('frozen', 'photutils/psf/gridded_models.py', 'GriddedPSFModel'),
    ],
    'C11': [('purity', 'photutils/background/background_2d.py', 'Background2D')],
    'C12': [('config', 'photutils/psf/photometry.py', 'PSFPhotometry'),
            ('reset', 'photutils/psf/photometry.py', 'PSFPhotometry', '__call__')],
    'C19': [('coherence', 'photutils/profiles/radial_profile.py', 'RadialProfile'),
            ('coherence', 'photutils/profiles/curve_of_growth.py', 'CurveOfGrowth'),
            ('purity', 'photutils/profiles/radial_profile.py', 'RadialProfile')],
    'C14': [('config', 'photutils/detection/starfinder.py', 'StarFinder'),
            ('config', 'photutils/detection/daofinder.py', 'DAOStarFinder'),
            ('config', 'photutils/detection/irafstarfinder.py', 'IRAFStarFinder')],
    'C20': [('config', 'photutils/isophote/ellipse.py', 'Ellipse')],
    # SourceCatalog pairs segment_img.labels[i] with segment_img.slices[i]: the segmentation
    # image's caches must describe its current array whatever was done to it before
    'C07': [('purity', 'photutils/segmentation/catalog.py', 'SourceCatalog'),
            ('frozen', 'photutils/segmentation/catalog.py', 'SourceCatalog'),
            ('coherence', 'photutils/segmentation/core.py', 'SegmentationImage')],
    'C08': [('frozen', 'photutils/segmentation/catalog.py', 'SourceCatalog'),
            ('frozen', 'photutils/aperture/stats.py', 'ApertureStats')],
    'C16': [('purity', 'photutils/aperture/stats.py', 'ApertureStats'),
            ('frozen', 'photutils/aperture/stats.py', 'ApertureStats')] + APERTURE_STATE,
    'C13': [('config', 'photutils/psf/gridded_models.py', 'GriddedPSFModel'),
            ('purity', 'photutils/psf/gridded_models.py', 'GriddedPSFModel')],
}

TRUSTED = [
    'cached attributes exempt from re-seeding coherence (documented snapshots / scale-invariant): '
    + '; '.join(f'{k[0]}.{k[1]} -- {v}' for k, v in SNAPSHOT_LAZIES.items()),
    'astropy lazyproperty caches its value in instance.__dict__[name] and the getter runs only '
    'when the name is absent',
    'guards that are not cache-membership / None tests are opaque boolean atoms (same source text '
    '= same truth value within one object history)',
    're-seeded cache entries (self.__dict__[name] = value) equal what the getter would compute: '
    'assumed here, checked by the bounded drivers (C05, C19)',
    'getters are deterministic functions of the fields they read (syntactic scan for RNG / clock / '
    'globals)',
]


def run(prop, tier):
    plan = PLAN.get(prop)
    if not plan:
        return [], {}
    t0 = time.time()
    world = get_world()
    obs = []
    for item in plan:
        kind = item[0]
        if kind == 'coherence':
            obs += coherence_obligations(world, prop, item[1], item[2])
        elif kind == 'purity':
            obs += purity_obligations(world, prop, item[1], item[2])
        elif kind == 'config':
            obs += config_obligations(world, prop, item[1], item[2])
        elif kind == 'reset':
            obs += reset_obligations(world, prop, item[1], item[2], item[3])
        elif kind == 'descriptor':
            obs += descriptor_obligations(world, prop)
        elif kind == 'frozen':
            obs += cache_frozen_obligations(world, prop, item[1], item[2])
    # de-duplicate (inherited methods appear through several classes)
    seen, out = set(), []
    for o in obs:
        if o.oid in seen:
            continue
        seen.add(o.oid)
        out.append(o)
    return out, {'trusted': TRUSTED, 'analysis_s': round(time.time() - t0, 2)}
