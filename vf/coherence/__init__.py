"""E3: cache-coherence / history invariants (see vf/coherence/engine.py)."""


def run(prop, tier):
    try:
        from . import engine
    except ImportError:
        return [], {}
    return engine.run(prop, tier)
