"""Shared records for the verification framework (stdlib only: imported by both interpreters)."""
import dataclasses
import hashlib
import json
import os
import time

VERIF = os.path.dirname(os.path.dirname(os.path.abspath(__file__)))
REPO = os.environ.get('VERIF_REPO', '/repo')
OUT = os.path.join(VERIF, 'vf', 'out')
REPLAYS = os.path.join(VERIF, 'replays')
EVIDENCE = os.path.join(VERIF, 'evidence')
ALT_TREE = os.path.abspath(REPO) != '/repo' or bool(os.environ.get('VERIF_SCRATCH_OUTPUT'))
if ALT_TREE:
    # a scratch tree (seeded / benign experiments): never touch the committed evidence
    REPLAYS = os.path.join(OUT, 'alt', 'replays')
    EVIDENCE = os.path.join(OUT, 'alt', 'evidence')

# obligation status values
DISCHARGED = 'discharged'   # proved (unsat negation / frame contained / invariant kept)
REFUTED = 'refuted'         # counter-model or explicit witness site
UNKNOWN = 'unknown'         # solver gave up on every back end
LOST = 'lost'               # function moved / construct outside the verified subset
ERROR = 'error'             # engine crashed on this obligation


@dataclasses.dataclass
class Obligation:
    oid: str                     # stable id: "<engine>:<file>::<qualname>/<kind>[/<detail>]"
    prop: str
    engine: str                  # pyvc | effects | coherence
    status: str
    backend: str = ''            # z3 | cvc5 | effects | coherence
    functions: list = dataclasses.field(default_factory=list)
    time_s: float = 0.0
    text: str = ''               # human-readable statement of the obligation
    detail: str = ''             # solver output / witness description
    model: dict = None           # counter-model (pyvc) or witness site (effects/coherence)
    replay: dict = None          # recipe for replay on the real code
    key: str = ''                # key matched against known_findings.json (defaults to oid)

    def to_json(self):
        d = dataclasses.asdict(self)
        if not d['key']:
            d['key'] = self.oid
        return d


def src_hash(text):
    return hashlib.sha256(text.encode()).hexdigest()[:12]


def ensure_dirs():
    for d in (OUT, REPLAYS, EVIDENCE):
        os.makedirs(d, exist_ok=True)


def dump(path, obj):
    os.makedirs(os.path.dirname(path), exist_ok=True)
    tmp = path + '.tmp'
    with open(tmp, 'w') as f:
        json.dump(obj, f, indent=1, default=str)
    os.replace(tmp, path)


class Timer:
    def __enter__(self):
        self.t0 = time.time()
        return self

    def __exit__(self, *a):
        self.dt = time.time() - self.t0
