"""Replay of a refuted proof obligation (or an rtc case) against the REAL code.

Run with /venv/bin/python:  python -m vf.replay <replay.json>
Writes <replay.json>.result.json and prints one line: REPLAY confirmed|spurious|error <detail>.
"""
import ast
import importlib
import itertools
import json
import sys
import traceback
from fractions import Fraction


class _CL(ast.NodeTransformer):
    """Contract language -> plain Python (lazy implies/ite, iff)."""

    def visit_Call(self, node):
        self.generic_visit(node)
        name = node.func.id if isinstance(node.func, ast.Name) else None
        if name == 'implies' and len(node.args) == 2:
            return ast.BoolOp(op=ast.Or(), values=[ast.UnaryOp(op=ast.Not(), operand=node.args[0]),
                                                   node.args[1]])
        if name == 'ite' and len(node.args) == 3:
            return ast.IfExp(test=node.args[0], body=node.args[1], orelse=node.args[2])
        return node

    def visit_Compare(self, node):
        """With approx=True (real-valued contracts replayed in floating point) comparisons go
        through a tolerant helper: the proof is over the reals, the replay must not 'confirm' a
        counter-model because of rounding in the last bits."""
        self.generic_visit(node)
        if not getattr(self, 'approx', False):
            return node
        ops = {ast.Eq: 'eq', ast.NotEq: 'ne', ast.Lt: 'lt', ast.LtE: 'le', ast.Gt: 'gt',
               ast.GtE: 'ge'}
        terms = []
        left = node.left
        for op, right in zip(node.ops, node.comparators):
            if type(op) not in ops:
                return node
            terms.append(ast.Call(func=ast.Name(id='_cmp', ctx=ast.Load()),
                                  args=[ast.Constant(ops[type(op)]), left, right], keywords=[]))
            left = right
        return terms[0] if len(terms) == 1 else ast.BoolOp(op=ast.And(), values=terms)


def compile_cl(text, approx=False):
    tree = ast.parse(text.strip(), mode='eval')
    tr = _CL()
    tr.approx = approx
    tree = ast.fix_missing_locations(tr.visit(tree))
    return compile(tree, '<contract>', 'eval')


def _cmp(op, a, b, tol=1e-9):
    """Tolerant comparison of real-valued contract terms evaluated in floating point (tuples
    elementwise): a strict inequality must hold by a margin to count as violated."""
    import numbers
    if isinstance(a, (tuple, list)) and isinstance(b, (tuple, list)):
        if len(a) != len(b):
            return op == 'ne'
        rs = [_cmp('eq', x, y, tol) for x, y in zip(a, b)]
        return all(rs) if op == 'eq' else (not all(rs)) if op == 'ne' else False
    if not (isinstance(a, numbers.Real) and isinstance(b, numbers.Real)) \
            or isinstance(a, bool) or isinstance(b, bool):
        return {'eq': a == b, 'ne': a != b}.get(op, False)
    a, b = float(a), float(b)
    m = tol * (1.0 + abs(a) + abs(b))
    return {'eq': abs(a - b) <= m, 'ne': abs(a - b) > m, 'lt': a < b + m, 'le': a <= b + m,
            'gt': a > b - m, 'ge': a >= b - m}[op]


def math_helpers():
    import math
    try:
        from scipy.special import erf
    except Exception:  # noqa: BLE001
        erf = math.erf
    return {'exp_': math.exp, 'erf_': lambda v: float(erf(v)), 'sin_': math.sin, 'cos_': math.cos,
            'sqrt_': math.sqrt, 'asin_': math.asin, 'deg2rad_': math.radians,
            'pi_': lambda: math.pi, '_cmp': _cmp,
            'forall_real': lambda fn: True,      # mathematical lemmas hold for the real functions
            'record_': lambda cls, **kw: build(cls, kw)}


def make_helpers(int_candidates):
    cands = sorted(set(int_candidates))

    def forall(fn, *ranges):
        n = len(ranges) if ranges else fn.__code__.co_argcount
        doms = []
        for k in range(n):
            r = ranges[k] if k < len(ranges) else None
            if r is None or r[0] is None or r[1] is None:
                lo = None if r is None else r[0]
                hi = None if r is None else r[1]
                d = [c for c in cands if (lo is None or c >= lo) and (hi is None or c < hi)]
            else:
                lo, hi = int(r[0]), int(r[1])
                d = list(range(lo, hi)) if hi - lo <= 64 else \
                    [c for c in cands if lo <= c < hi] + [lo, hi - 1]
            doms.append(d)
        return all(fn(*p) for p in itertools.product(*doms))

    def exists(fn, *ranges):
        n = len(ranges) if ranges else fn.__code__.co_argcount
        doms = []
        for k in range(n):
            r = ranges[k] if k < len(ranges) else None
            if r is None or r[0] is None or r[1] is None:
                lo = None if r is None else r[0]
                hi = None if r is None else r[1]
                d = [c for c in cands if (lo is None or c >= lo) and (hi is None or c < hi)]
            else:
                lo, hi = int(r[0]), int(r[1])
                d = list(range(lo, hi)) if hi - lo <= 64 else \
                    [c for c in cands if lo <= c < hi] + [lo, hi - 1]
            doms.append(d)
        return any(fn(*p) for p in itertools.product(*doms))

    def iff(a, b):
        return bool(a) == bool(b)

    def sq(x):
        return x * x

    def is_none(x):
        return x is None

    def is_int(x):
        import numbers
        return isinstance(x, numbers.Integral)
    import math

    def implies(a, b):
        return (not a) or bool(b)
    return {'forall': forall, 'exists': exists, 'iff': iff, 'sq': sq, 'is_none': is_none,
            'is_int': is_int, 'ceil': math.ceil, 'floor': math.floor, 'implies': implies}


def val(v):
    if isinstance(v, dict) and 'frac' in v:
        return float(Fraction(v['frac']))
    return v


def gather(model, name):
    """Rebuild a python value for parameter `name` from flattened model paths."""
    if name in model:
        return val(model[name])
    fields = {}
    items = {}
    for k, v in model.items():
        if k.startswith(name + '.'):
            fields[k[len(name) + 1:]] = v
        elif k.startswith(name + '['):
            idx = int(k[len(name) + 1:k.index(']')])
            rest = k[k.index(']') + 1:]
            items.setdefault(idx, {})[rest] = v
    if items:
        out = []
        for i in sorted(items):
            sub = items[i]
            out.append(val(sub['']) if '' in sub else gather({('x' + kk): vv for kk, vv in
                                                              sub.items()}, 'x'))
        return tuple(out)
    if fields:
        if 'arr' in fields:
            import numpy as np
            return np.array([[val(x) for x in row] for row in fields['arr']])
        if 'seq' in fields:
            import numpy as np
            return np.array([val(x) for x in fields['seq']])
        return {k: val(v) for k, v in fields.items() if '.' not in k and '[' not in k}
    raise KeyError(name)


def build(typ, v):
    if typ == 'BoundingBox':
        from photutils.aperture import BoundingBox
        return BoundingBox(int(v['ixmin']), int(v['ixmax']), int(v['iymin']), int(v['iymax']))
    if isinstance(typ, str) and typ.split('@')[0] == 'EllipseGeometry':
        from photutils.isophote import EllipseGeometry
        return EllipseGeometry(float(v.get('x0', 50.0)), float(v.get('y0', 50.0)),
                               float(v.get('sma', 10.0)), 0.2, float(v.get('pa', 0.0)),
                               linear_growth=typ.endswith('@linear'))
    if typ == 'Quantity':
        import astropy.units as u

        class _Angle(u.Quantity):          # the contract reads the angle as `.rad`
            @property
            def rad(self):
                return float(self.to_value(u.rad))
        return _Angle(float(v['rad']), u.rad)
    if typ == 'none':
        return None
    return v


def ints_of(x, acc):
    if isinstance(x, bool):
        return
    if isinstance(x, int):
        acc.update((x - 1, x, x + 1))
    elif isinstance(x, float):
        import math
        if math.isfinite(x):
            acc.update((math.floor(x) - 1, math.floor(x), math.ceil(x), math.ceil(x) + 1))
    elif isinstance(x, dict):
        for v in x.values():
            ints_of(val(v) if isinstance(v, dict) and 'frac' in v else v, acc)
    elif isinstance(x, (list, tuple)):
        for v in x:
            ints_of(v, acc)


def _spec_value(spec, name, model):
    """Concrete python / numpy value of type spec `spec` for the model paths rooted at `name`."""
    import copy
    import types

    import numpy as np
    if spec is None:
        return None
    if isinstance(spec, str):
        if spec in ('int', 'nat', 'pos'):
            return int(val(model.get(name, 1 if spec == 'pos' else 0)))
        if spec in ('real', 'posreal'):
            return float(val(model.get(name, 1.0 if spec == 'posreal' else 0.0)))
        if spec == 'bool':
            return bool(val(model.get(name, False)))
        if spec == 'slice':
            return slice(int(val(model.get(name + '.start', 0))), int(val(model.get(name + '.stop', 0))))
        if spec == 'slice2':
            return (_spec_value('slice', name + '[0]', model), _spec_value('slice', name + '[1]', model))
        raise ValueError(f'no concrete value for spec {spec!r}')
    tag = spec[0]
    if tag == 'const':
        return copy.deepcopy(spec[1])
    if tag == 'tuple':
        return tuple(_spec_value(t, f'{name}[{i}]', model) for i, t in enumerate(spec[1:]))
    if tag == 'record':
        return types.SimpleNamespace(**{f: _spec_value(t, f'{name}.{f}', model)
                                        for f, t in spec[2].items()})
    if tag == 'dict':
        return {k: _spec_value(t, f'{name}[{k!r}]', model) for k, t in spec[1].items()}
    if tag == 'opt':
        if val(model.get(name + '.isnone', False)):
            return None
        return _spec_value(spec[1], name, model)
    if tag == 'arr':
        nd, kind = spec[1], spec[2]
        shape = tuple(int(val(model.get(f'{name}.shape[{d}]', 1))) for d in range(nd))
        dt = {'int': np.int64, 'real': float, 'bool': bool}[kind]
        a = np.zeros(shape, dtype=dt)
        raw = model.get(name + '.arr')
        if raw is not None:
            src = np.array([[val(x) for x in row] for row in raw] if nd == 2 else
                           [val(x) for x in raw], dtype=object)
            if src.shape == shape:
                a = src.astype(dt)
        return a
    if tag == 'seq' and spec[1] in ('int', 'real', 'bool'):
        n = int(val(model.get(name + '.len', 0)))
        raw = [val(x) for x in model.get(name + '.seq', [])][:n]
        raw += [0] * (n - len(raw))
        return np.array(raw, dtype={'int': np.int64, 'real': float, 'bool': bool}[spec[1]])
    raise ValueError(f'no concrete value for spec {spec!r}')


def _replay_block(rec, fullmodel):
    """Execute the statements of a block contract, as they stand in the real file, on the inputs of
    the counter-model (in the namespace of the real module), then evaluate the contract."""
    import copy
    import textwrap

    import numpy as np
    model = {k: v for k, v in fullmodel.items() if not k.startswith('_')}
    rp = rec['replay']
    mod = importlib.import_module(rp['module'])
    rename = rp.get('rename') or {}
    args = {}
    for name, spec in rp['params'].items():
        args[rename.get(name, name)] = _spec_value(spec, name, model)
    # an array the obligation does not depend on is absent from the counter-model: give it the
    # shape a `X.shape == Y.shape` precondition asks for (its contents are irrelevant)
    import re
    for r in rp.get('requires', []):
        m = re.fullmatch(r'\s*([\w\[\]"\'.]+)\.shape == ([\w\[\]"\'.]+)\.shape\s*', r)
        if not m:
            continue
        try:
            sides = [(e, eval(e, {}, dict(args))) for e in m.groups()]
        except Exception:  # noqa: BLE001
            continue
        if not all(hasattr(v, 'shape') for _, v in sides) or sides[0][1].shape == sides[1][1].shape:
            continue
        pinned = [any(k.startswith(e.replace('"', "'") + '.shape') for k in model) for e, _ in sides]
        if pinned[0] == pinned[1]:
            continue
        (free, fv), (_, ov) = (sides[0], sides[1]) if not pinned[0] else (sides[1], sides[0])
        new = np.zeros(ov.shape, dtype=fv.dtype)
        if free.isidentifier():
            args[free] = new
        else:
            exec(free + ' = __vf_new', {}, {**args, '__vf_new': new})
    olds = {'old_' + k: copy.deepcopy(v) for k, v in args.items()}
    body = textwrap.indent(rp['source'], ' ' * 8)
    src = ('def __vf_block(' + ', '.join(args) + '):\n'
           "    __vf_leave = 'continue'\n"
           '    for __vf_once in (0,):\n' + body + '\n'
           "        __vf_leave = 'fall'\n"
           '    return locals()\n')
    ns = dict(vars(mod))
    exec(compile(src, '<block of ' + rp['qualname'] + '>', 'exec'), ns)
    observed = {}
    try:
        import warnings
        with warnings.catch_warnings():
            warnings.simplefilter('ignore')
            loc = ns['__vf_block'](**args)
    except Exception as e:  # noqa: BLE001
        return 'error', f'the block raised {type(e).__name__}: {e} on the counter-model', observed
    if not isinstance(loc, dict):
        return 'error', 'the block returned from the function (outside what the contract covers)', observed
    cands = set([0, 1, -1])
    ints_of(model, cands)
    scope = dict(vars(mod))
    scope.update(make_helpers(cands))
    scope.update(math_helpers())
    scope.update({k: v for k, v in loc.items() if not k.startswith('__vf_')})
    scope.update(olds)
    for k, v in args.items():
        scope[k + '_input'] = v              # the caller's object itself (sees in-place writes)
    if rp.get('value_name'):
        scope['value'] = loc.get(rp['value_name'])      # statement contract: the assigned value
    scope['leaves_by_continue'] = loc.get('__vf_leave') == 'continue'
    scope['np'] = np
    scope['isfinite_at'] = lambda a, *idx: bool(np.isfinite(a[tuple(idx)]))
    scope['shape_of'] = lambda a: tuple(a.shape)
    # contract text uses the recorded names
    for k, actual in rename.items():
        for pre, suf in (('', ''), ('old_', ''), ('', '_input')):
            if pre + actual + suf in scope:
                scope[pre + k + suf] = scope[pre + actual + suf]
    for r in rp.get('requires', []):
        try:
            pre_scope = dict(scope)
            pre_scope.update({k[4:]: v for k, v in olds.items()})
            if not eval(compile_cl(r), pre_scope):
                return 'spurious', f'model violates requires {r!r}', observed
        except Exception as e:  # noqa: BLE001
            return 'error', f'requires {r!r}: {type(e).__name__}: {e}', observed
    failed, errors = [], []
    for label, text in rp.get('ensures', []):
        try:
            if not eval(compile_cl(text), scope):
                failed.append(label)
        except Exception as e:  # noqa: BLE001
            errors.append(f'{label}: {type(e).__name__}: {e}')
    observed['inputs'] = {k: (v.tolist() if hasattr(v, 'tolist') else repr(v)) for k, v in olds.items()}
    observed['after'] = {k: (v.tolist() if hasattr(v, 'tolist') else repr(v))
                         for k, v in loc.items() if not k.startswith('__vf_') and
                         isinstance(v, (int, float, bool, np.ndarray, list, tuple))}
    if failed:
        return 'confirmed', 'the block of the real function violates: ' + ', '.join(failed), observed
    if errors:
        return 'error', 'contract clauses that could not be evaluated on the real run: ' + '; '.join(errors), observed
    return 'spurious', 'the block satisfies the contract on this input', observed


def replay_pyvc(rec):
    """Replay the counter-model; when it does not reproduce, try the alternative models the
    verifier recorded (the first confirmed one is reported)."""
    if (rec.get('replay') or {}).get('kind') == 'block':
        return _replay_block(rec, rec.get('model') or {})
    first = _replay_one(rec, rec.get('model') or {})
    if first[0] == 'confirmed':
        return first
    for k, alt in enumerate((rec.get('model') or {}).get('_alternatives', [])):
        r = _replay_one(rec, alt)
        if r[0] == 'confirmed':
            r[2]['model_used'] = {kk: vv for kk, vv in alt.items() if not kk.startswith('_')}
            return r[0], f'(alternative counter-model {k + 1}) ' + r[1], r[2]
    return first


def fuzz_pyvc(rec):
    """Run-time contract check on sampled inputs (bounded stand-in for a lost proof): the first
    input on which the real code violates the contract is reported."""
    tried = ok = 0
    for m in rec.get('fuzz_models', []):
        try:
            st, detail, obs = _replay_one(rec, m)
        except Exception as e:  # noqa: BLE001 - an input the builder cannot realise
            continue
        tried += 1
        if st == 'confirmed':
            obs['model_used'] = {k: v for k, v in m.items()}
            return 'confirmed', f'(sampled input {tried}) ' + detail, obs
        if st == 'spurious' and 'violates requires' not in detail:
            ok += 1
    return 'spurious', f'contract held on {ok} sampled inputs satisfying the precondition ' \
                       f'({tried} tried)', {'tried': tried, 'satisfied': ok}


def _replay_one(rec, fullmodel):
    model = {k: v for k, v in fullmodel.items() if not k.startswith('_')}
    case = fullmodel.get('_case', {})
    rp = rec['replay']
    modname, qual = rp['call'].split(':')
    mod = importlib.import_module(modname)
    obj = mod
    parts = qual.split('.')
    for p in parts[:-1]:
        obj = getattr(obj, p)
    argtypes = rp.get('argtypes', {})
    env = {}
    for a in rp.get('args', []):
        const = rp.get('const', {})
        v = const[a] if a in const else case[a] if a in case else gather(model, a)
        env[a] = build(argtypes.get(a), v)
    selfobj = None
    if rp.get('self') and rp['self'] != 'none':
        selfobj = build(rp['self'], gather(model, 'self'))
        env['self'] = selfobj
    cands = set([0, 1, -1])
    ints_of(model, cands)
    helpers = make_helpers(cands)
    approx = bool(rp.get('approx'))
    if approx:
        helpers.update(math_helpers())
    _compile = lambda t: compile_cl(t, approx)  # noqa: E731
    observed = {}
    raised = None
    try:
        if selfobj is not None:
            attr = getattr(type(selfobj), parts[-1], None)
            if isinstance(attr, property) or hasattr(attr, 'fget'):
                result = getattr(selfobj, parts[-1])
            else:
                result = getattr(selfobj, parts[-1])(*[env[a] for a in rp.get('args', [])])
        elif rp.get('self') == 'none':
            # a method that does not use its instance (model evaluate): called unbound
            result = getattr(obj, parts[-1])(None, *[env[a] for a in rp.get('args', [])])
        else:
            result = getattr(obj, parts[-1])(*[env[a] for a in rp.get('args', [])])
        if approx and hasattr(result, 'tolist'):
            result = result.tolist()
        if isinstance(result, list):
            result = tuple(result)
        observed['result'] = repr(result)
    except Exception as e:  # noqa: BLE001 - the raise behaviour is part of the contract
        raised = type(e).__name__
        observed['raised'] = f'{raised}: {e}'
        result = None
    # module-level constants of the function's module are visible to contract text
    scope = {k: v for k, v in vars(mod).items()
             if isinstance(v, (int, float)) and not k.startswith('__')}
    scope.update(helpers)
    scope.update(env)
    scope['result'] = result
    rel = rp.get('relate')
    if rel:
        # relational contract: second call on the derived inputs
        for a in rel.get('extra', []):
            scope[a] = build(argtypes.get(a), case[a] if a in case else gather(model, a))
        env2 = dict(env)
        for a, text in rel.get('second', {}).items():
            env2[a] = eval(_compile(text), scope)
        try:
            a2 = [env2[a] for a in rp.get('args', [])]
            if selfobj is not None:
                r2 = getattr(env2.get('self', selfobj), parts[-1])(*a2)
            elif rp.get('self') == 'none':
                r2 = getattr(obj, parts[-1])(None, *a2)
            else:
                r2 = getattr(obj, parts[-1])(*a2)
            if approx and hasattr(r2, 'tolist'):
                r2 = r2.tolist()
            scope['result2'] = tuple(r2) if isinstance(r2, list) else r2
            observed['result2'] = repr(scope['result2'])
        except Exception as e:  # noqa: BLE001
            observed['raised2'] = f'{type(e).__name__}: {e}'
            if raised is None:
                return 'confirmed', f'second run raised {type(e).__name__}, first did not', observed
            return 'spurious', 'both runs raise', observed
    # precondition must hold for the counterexample to count
    for r in rp.get('requires', []):
        try:
            if not eval(_compile(r), scope):
                return 'spurious', f'model violates requires {r!r} after float conversion', observed
        except Exception as e:  # noqa: BLE001
            return 'error', f'requires {r!r}: {e}', observed
    failed = []
    eval_errors = []
    if raised is None:
        for label, text in rp.get('ensures', []):
            try:
                ok = eval(_compile(text), scope)
            except Exception as e:  # noqa: BLE001
                # the clause cannot be evaluated on this input (a limit of the replay, not of
                # the code): never counted as a violation
                eval_errors.append(f'{label}: evaluation error {type(e).__name__}: {e}')
                continue
            if not ok:
                failed.append(label)
        for exc, cond in rp.get('raises', []):
            try:
                if eval(_compile(cond), scope):
                    failed.append(f'should raise {exc} ({cond})')
            except Exception:  # noqa: BLE001
                pass
    else:
        listed = False
        for exc, cond in rp.get('raises', []):
            if exc == raised:
                listed = True
                try:
                    if not eval(_compile(cond), scope):
                        failed.append(f'raised {exc} although not ({cond})')
                except Exception:  # noqa: BLE001
                    pass
        if not listed:
            failed.append(f'unlisted exception {observed["raised"]}')
    if failed:
        return 'confirmed', '; '.join(failed), observed
    if eval_errors:
        return 'error', '; '.join(eval_errors), observed
    return 'spurious', 'real code satisfies the contract on this input', observed


def main(path):
    rec = json.load(open(path))
    try:
        if rec.get('kind') == 'rtc':
            from vf.rtc.run import replay_case
            status, detail, observed = replay_case(rec)
        elif rec.get('fuzz_models') is not None and rec.get('replay'):
            status, detail, observed = fuzz_pyvc(rec)
        elif rec.get('replay'):
            status, detail, observed = replay_pyvc(rec)
        else:
            status, detail, observed = 'spurious', 'no replay recipe for this obligation', {}
    except Exception:  # noqa: BLE001
        status, detail, observed = 'error', traceback.format_exc()[-1500:], {}
    out = {'status': status, 'detail': detail, 'observed': observed}
    with open(path + '.result.json', 'w') as f:
        json.dump(out, f, indent=1, default=str)
    print(f'REPLAY {status} {detail[:300]}')
    return 0


if __name__ == '__main__':
    sys.exit(main(sys.argv[1]))
