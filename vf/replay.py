"""Replay of a refuted proof obligation (or an rtc case) against the REAL code.

Run with /venv/bin/python:  python -m vf.replay <replay.json>
Writes <replay.json>.result.json and prints one line: REPLAY confirmed|spurious|error <detail>.
"""
import ast
import importlib
import itertools
import json
import sys
import traceback
from fractions import Fraction


class _CL(ast.NodeTransformer):
    """Contract language -> plain Python (lazy implies/ite, iff)."""

    def visit_Call(self, node):
        self.generic_visit(node)
        name = node.func.id if isinstance(node.func, ast.Name) else None
        if name == 'implies' and len(node.args) == 2:
            return ast.BoolOp(op=ast.Or(), values=[ast.UnaryOp(op=ast.Not(), operand=node.args[0]),
                                                   node.args[1]])
        if name == 'ite' and len(node.args) == 3:
            return ast.IfExp(test=node.args[0], body=node.args[1], orelse=node.args[2])
        return node


def compile_cl(text):
    tree = ast.parse(text.strip(), mode='eval')
    tree = ast.fix_missing_locations(_CL().visit(tree))
    return compile(tree, '<contract>', 'eval')


def make_helpers(int_candidates):
    cands = sorted(set(int_candidates))

    def forall(fn, *ranges):
        n = len(ranges) if ranges else fn.__code__.co_argcount
        doms = []
        for k in range(n):
            r = ranges[k] if k < len(ranges) else None
            if r is None or r[0] is None or r[1] is None:
                lo = None if r is None else r[0]
                hi = None if r is None else r[1]
                d = [c for c in cands if (lo is None or c >= lo) and (hi is None or c < hi)]
            else:
                lo, hi = int(r[0]), int(r[1])
                d = list(range(lo, hi)) if hi - lo <= 64 else \
                    [c for c in cands if lo <= c < hi] + [lo, hi - 1]
            doms.append(d)
        return all(fn(*p) for p in itertools.product(*doms))

    def iff(a, b):
        return bool(a) == bool(b)

    def sq(x):
        return x * x

    def is_none(x):
        return x is None

    def is_int(x):
        import numbers
        return isinstance(x, numbers.Integral)
    return {'forall': forall, 'iff': iff, 'sq': sq, 'is_none': is_none, 'is_int': is_int}


def val(v):
    if isinstance(v, dict) and 'frac' in v:
        return float(Fraction(v['frac']))
    return v


def gather(model, name):
    """Rebuild a python value for parameter `name` from flattened model paths."""
    if name in model:
        return val(model[name])
    fields = {}
    items = {}
    for k, v in model.items():
        if k.startswith(name + '.'):
            fields[k[len(name) + 1:]] = v
        elif k.startswith(name + '['):
            idx = int(k[len(name) + 1:k.index(']')])
            rest = k[k.index(']') + 1:]
            items.setdefault(idx, {})[rest] = v
    if items:
        out = []
        for i in sorted(items):
            sub = items[i]
            out.append(val(sub['']) if '' in sub else gather({('x' + kk): vv for kk, vv in
                                                              sub.items()}, 'x'))
        return tuple(out)
    if fields:
        if 'arr' in fields:
            import numpy as np
            return np.array([[val(x) for x in row] for row in fields['arr']])
        if 'seq' in fields:
            import numpy as np
            return np.array([val(x) for x in fields['seq']])
        return {k: val(v) for k, v in fields.items() if '.' not in k and '[' not in k}
    raise KeyError(name)


def build(typ, v):
    if typ == 'BoundingBox':
        from photutils.aperture import BoundingBox
        return BoundingBox(int(v['ixmin']), int(v['ixmax']), int(v['iymin']), int(v['iymax']))
    return v


def ints_of(x, acc):
    if isinstance(x, bool):
        return
    if isinstance(x, int):
        acc.update((x - 1, x, x + 1))
    elif isinstance(x, float):
        import math
        if math.isfinite(x):
            acc.update((math.floor(x) - 1, math.floor(x), math.ceil(x), math.ceil(x) + 1))
    elif isinstance(x, dict):
        for v in x.values():
            ints_of(val(v) if isinstance(v, dict) and 'frac' in v else v, acc)
    elif isinstance(x, (list, tuple)):
        for v in x:
            ints_of(v, acc)


def replay_pyvc(rec):
    model = {k: v for k, v in (rec.get('model') or {}).items() if not k.startswith('_')}
    case = (rec.get('model') or {}).get('_case', {})
    rp = rec['replay']
    modname, qual = rp['call'].split(':')
    mod = importlib.import_module(modname)
    obj = mod
    parts = qual.split('.')
    for p in parts[:-1]:
        obj = getattr(obj, p)
    argtypes = rp.get('argtypes', {})
    env = {}
    for a in rp.get('args', []):
        v = case[a] if a in case else gather(model, a)
        env[a] = build(argtypes.get(a), v)
    selfobj = None
    if rp.get('self'):
        selfobj = build(rp['self'], gather(model, 'self'))
        env['self'] = selfobj
    cands = set([0, 1, -1])
    ints_of(model, cands)
    helpers = make_helpers(cands)
    observed = {}
    raised = None
    try:
        if selfobj is not None:
            attr = getattr(type(selfobj), parts[-1], None)
            if isinstance(attr, property) or hasattr(attr, 'fget'):
                result = getattr(selfobj, parts[-1])
            else:
                result = getattr(selfobj, parts[-1])(*[env[a] for a in rp.get('args', [])])
        else:
            result = getattr(obj, parts[-1])(*[env[a] for a in rp.get('args', [])])
        observed['result'] = repr(result)
    except Exception as e:  # noqa: BLE001 - the raise behaviour is part of the contract
        raised = type(e).__name__
        observed['raised'] = f'{raised}: {e}'
        result = None
    scope = dict(helpers)
    scope.update(env)
    scope['result'] = result
    rel = rp.get('relate')
    if rel:
        # relational contract: second call on the derived inputs
        for a in rel.get('extra', []):
            scope[a] = build(argtypes.get(a), case[a] if a in case else gather(model, a))
        env2 = dict(env)
        for a, text in rel.get('second', {}).items():
            env2[a] = eval(compile_cl(text), scope)
        try:
            fn = getattr(obj, parts[-1]) if selfobj is None else getattr(env2.get('self', selfobj),
                                                                          parts[-1])
            scope['result2'] = fn(*[env2[a] for a in rp.get('args', [])])
            observed['result2'] = repr(scope['result2'])
        except Exception as e:  # noqa: BLE001
            observed['raised2'] = f'{type(e).__name__}: {e}'
            if raised is None:
                return 'confirmed', f'second run raised {type(e).__name__}, first did not', observed
            return 'spurious', 'both runs raise', observed
    # precondition must hold for the counterexample to count
    for r in rp.get('requires', []):
        try:
            if not eval(compile_cl(r), scope):
                return 'spurious', f'model violates requires {r!r} after float conversion', observed
        except Exception as e:  # noqa: BLE001
            return 'error', f'requires {r!r}: {e}', observed
    failed = []
    if raised is None:
        for label, text in rp.get('ensures', []):
            try:
                ok = eval(compile_cl(text), scope)
            except Exception as e:  # noqa: BLE001
                failed.append(f'{label}: evaluation error {type(e).__name__}: {e}')
                continue
            if not ok:
                failed.append(label)
        for exc, cond in rp.get('raises', []):
            try:
                if eval(compile_cl(cond), scope):
                    failed.append(f'should raise {exc} ({cond})')
            except Exception:  # noqa: BLE001
                pass
    else:
        listed = False
        for exc, cond in rp.get('raises', []):
            if exc == raised:
                listed = True
                try:
                    if not eval(compile_cl(cond), scope):
                        failed.append(f'raised {exc} although not ({cond})')
                except Exception:  # noqa: BLE001
                    pass
        if not listed:
            failed.append(f'unlisted exception {observed["raised"]}')
    if failed:
        return 'confirmed', '; '.join(failed), observed
    return 'spurious', 'real code satisfies the contract on this input', observed


def main(path):
    rec = json.load(open(path))
    try:
        if rec.get('kind') == 'rtc':
            from vf.rtc.run import replay_case
            status, detail, observed = replay_case(rec)
        elif rec.get('replay'):
            status, detail, observed = replay_pyvc(rec)
        else:
            status, detail, observed = 'spurious', 'no replay recipe for this obligation', {}
    except Exception:  # noqa: BLE001
        status, detail, observed = 'error', traceback.format_exc()[-1500:], {}
    out = {'status': status, 'detail': detail, 'observed': observed}
    with open(path + '.result.json', 'w') as f:
        json.dump(out, f, indent=1, default=str)
    print(f'REPLAY {status} {detail[:300]}')
    return 0


if __name__ == '__main__':
    sys.exit(main(sys.argv[1]))
