"""Launcher of one property check (python3-vt).

    ./check Cxx [--tier quick|thorough] [--replay file]

Pipeline: proof obligations (pyvc / effects / coherence, reading /repo's current sources) ->
replay of every refuted obligation on the real code (/venv/bin/python) -> bounded run-time
contract driver (rtc) -> evidence + VIOLATION / KNOWN-FINDING lines + exit code.

Exit codes: 0 held, 1 violation, 2 undecided, 3 checker crash.
"""
import argparse
import hashlib
import json
import multiprocessing as mp
import os
import re
import subprocess
import sys
import time
import traceback

from . import report
from .common import (ALT_TREE, DISCHARGED, ERROR, LOST, OUT, REFUTED, REPLAYS, REPO, UNKNOWN,
                     VERIF, Obligation, dump, ensure_dirs)

# the real code under test: /repo is installed in /venv; a scratch tree is put first on the path
PYPATH = (REPO + os.pathsep + VERIF) if os.path.abspath(REPO) != '/repo' else VERIF

VENV_PY = os.environ.get('VERIF_VENV_PY', '/venv/bin/python')


def _pyvc_worker(args):
    target, thorough = args
    try:
        from .contracts import build_registry
        from .pyvc import solve
        from .pyvc.vcgen import Verifier, run_mutants
        reg = build_registry()
        c = reg.contracts[target]
        v = Verifier(reg, timeout_s=20)
        obs = v.verify(c)
        extra = {}
        if thorough and c.mutants and all(o.status == DISCHARGED for o in obs):
            k, t, surv = run_mutants(v, c)
            extra['mutants'] = (k, t, surv)
        return [o.to_json() for o in obs], extra, dict(solve.STATS), None
    except Exception:  # noqa: BLE001
        # an internal error of the verifier on one contract makes that contract undecided (the
        # other obligations, the replays and the bounded driver still run and report)
        tb = traceback.format_exc()[-1500:]
        ob = Obligation(f'pyvc:{target}/engine', '', 'pyvc', ERROR,
                        text='the verifier raised an internal error on this contract',
                        detail=tb, functions=[target.split('@')[0]])
        return [ob.to_json()], {}, {}, None


def run_pyvc(prop, tier):
    from .contracts import build_registry
    reg = build_registry()
    targets = [c.key for c in reg.for_prop(prop) if not c.assumed]
    assumed = [f'assumed contract: {c.target} -- {c.note}' for c in reg.for_prop(prop)
               if c.assumed]
    # assumptions stated by individual contracts (lemmas about uninterpreted functions, opaque
    # callables, specifications of numpy functions)
    assumed += sorted({f'contract note ({c.qualname}): {c.note}' for c in reg.for_prop(prop)
                       if c.note and not c.assumed})
    if not targets:
        return [], {'assumed': assumed}, None
    nproc = min(16, len(targets))
    with mp.get_context('fork').Pool(nproc) as pool:
        results = pool.map(_pyvc_worker, [(t, tier == 'thorough') for t in targets])
    obs, crash = [], None
    info = {'assumed': assumed, 'mutants_killed': 0, 'mutants_total': 0, 'survivors': [],
            'solver': {}}
    for o, extra, stats, err in results:
        obs.extend(o)
        if err:
            crash = (crash or '') + err
        if 'mutants' in extra:
            k, t, s = extra['mutants']
            info['mutants_killed'] += k
            info['mutants_total'] += t
            info['survivors'] += s
        for k, v in stats.items():
            info['solver'][k] = round(info['solver'].get(k, 0) + v, 3)
    from .pyvc.prims import NUMPY_MODEL
    info['numpy_model'] = NUMPY_MODEL
    obs += runtime_contract_checks(prop, reg, obs, info)
    return obs, info, crash


def runtime_contract_checks(prop, reg, obs, info):
    """A function contract whose proof is *lost* (function restructured beyond the verified
    subset, renamed, split) is still checked at run time, through its own text, on sampled inputs:
    a bounded stand-in, reported as such, that turns "undecided" into a concrete failing input
    when the restructured code no longer satisfies the contract."""
    from . import fuzz
    out = []
    lost = {}
    for o in obs:
        if o['status'] == LOST and o['oid'].rsplit('/', 1)[-1] in ('subset', 'extract'):
            lost[o['oid'][len('pyvc:'):].rsplit('/', 1)[0]] = o
    n_checked = 0
    for key, lo in lost.items():
        c = reg.contracts.get(key)
        if c is None or not c.replay or c.stmt or c.block or c.custom:
            continue
        models = fuzz.models(c.params, (c.relate or {}).get('extra'), c.cases, reg.records, 300,
                             seed=int(os.environ.get('VERIF_SEED', '0') or 0))
        rp = dict(c.replay)
        rp['ensures'] = [list(x) for x in c.ensures]
        rp['raises'] = [list(x) for x in c.raises]
        rp['requires'] = list(c.requires)
        if c.relate:
            rp['relate'] = {'second': dict(c.relate.get('second', {})),
                            'extra': sorted(c.relate.get('extra', {}))}
        d = os.path.join(REPLAYS, prop)
        os.makedirs(d, exist_ok=True)
        path = os.path.join(d, 'fuzz_' + sanitize(key) + '.json')
        dump(path, {'kind': 'obligation', 'property': prop,
                    'obligation': f'pyvc:{key}/runtime-contract-check', 'engine': 'pyvc',
                    'text': 'run-time check of the contract on sampled inputs (bounded stand-in '
                            'for the lost proof)', 'verifier_output': lo['detail'],
                    'replay': rp, 'fuzz_models': models, 'functions': lo['functions']})
        status, detail = _run_replay(path)
        n_checked += 1
        ob = Obligation(f'pyvc:{key}/runtime-contract-check', prop, 'pyvc',
                        REFUTED if status == 'confirmed' else (DISCHARGED if status == 'spurious'
                                                               else UNKNOWN),
                        backend='runtime-contract-check (bounded)', functions=lo['functions'],
                        text='BOUNDED stand-in (not a proof): the contract of a function whose '
                             'proof is lost holds on 300 sampled inputs of the real function',
                        detail=detail).to_json()
        if status == 'confirmed':
            ob['replay'] = rp
            ob['replay_file'] = os.path.relpath(path, VERIF)
            ob['replay_status'] = 'confirmed'
            ob['replay_detail'] = detail
            ob['prechecked'] = True
        out.append(ob)
    info['runtime_contract_checks'] = n_checked
    return out


def run_engine(modname, prop, tier):
    try:
        mod = __import__(f'vf.{modname}', fromlist=['run'])
    except ImportError:
        return [], {}, None
    try:
        obs, info = mod.run(prop, tier)
        return [o.to_json() if isinstance(o, Obligation) else o for o in obs], info, None
    except Exception:  # noqa: BLE001
        return [], {}, f'{modname}: {traceback.format_exc()[-2000:]}'


def sanitize(s):
    return re.sub(r'[^A-Za-z0-9_.-]+', '_', s)[-180:]


def replay_obligation(prop, ob):
    """Write the replay file for a refuted obligation and run it on the real code."""
    d = os.path.join(REPLAYS, prop)
    os.makedirs(d, exist_ok=True)
    path = os.path.join(d, sanitize(ob['oid']) + '.json')
    rec = {'kind': 'obligation', 'property': prop, 'obligation': ob['oid'], 'engine': ob['engine'],
           'text': ob['text'], 'verifier_output': ob['detail'], 'model': ob.get('model'),
           'replay': ob.get('replay'), 'functions': ob['functions']}
    dump(path, rec)
    status, detail = 'spurious', 'no replay recipe'
    if ob.get('replay'):
        status, detail = _run_replay(path)
    return path, status, detail


def _run_replay(path):
    env = dict(os.environ, PYTHONPATH=PYPATH)
    try:
        p = subprocess.run([VENV_PY, '-m', 'vf.replay', path], cwd=VERIF, env=env,
                           capture_output=True, text=True, timeout=600)
    except subprocess.TimeoutExpired:
        return 'error', 'replay timed out'
    try:
        r = json.load(open(path + '.result.json'))
        return r['status'], r['detail']
    except Exception:  # noqa: BLE001
        return 'error', (p.stdout + p.stderr)[-500:]


def run_rtc(prop, tier, seed):
    drv = os.path.join(VERIF, 'vf', 'rtc', 'drivers', f'{prop}.py')
    if not os.path.exists(drv):
        return None
    # scratch trees get their own intermediate file, so that a run against one never collides
    # with a concurrent run against /repo
    tag = '' if os.path.abspath(REPO) == '/repo' else \
        '.' + hashlib.md5(os.path.abspath(REPO).encode()).hexdigest()[:8]
    out = os.path.join(OUT, f'{prop}{tag}.rtc.json')
    if os.path.exists(out):
        os.remove(out)
    env = dict(os.environ, PYTHONPATH=PYPATH, OMP_NUM_THREADS='1', OPENBLAS_NUM_THREADS='1')
    try:
        p = subprocess.run([VENV_PY, '-m', 'vf.rtc.run', prop, '--tier', tier, '--seed',
                            str(seed), '--out', out], cwd=VERIF, env=env, capture_output=True,
                           text=True, timeout=3600 if tier == 'quick' else 6 * 3600)
    except subprocess.TimeoutExpired:
        return {'crashed': 'rtc driver timed out', 'failures': [], 'evaluations': 0,
                'distinct_nontrivial': 0, 'samples': []}
    if not os.path.exists(out):
        return {'crashed': 'rtc driver produced no output: ' + (p.stdout + p.stderr)[-1500:],
                'failures': [], 'evaluations': 0, 'distinct_nontrivial': 0, 'samples': []}
    return json.load(open(out))


def main(argv=None):
    ap = argparse.ArgumentParser()
    ap.add_argument('prop')
    ap.add_argument('--tier', default=None)
    ap.add_argument('--replay', default=None)
    a = ap.parse_args(argv)
    ensure_dirs()
    prop = a.prop
    if a.replay:
        status, detail = _run_replay(os.path.abspath(a.replay))
        print(f'REPLAY {status}: {detail}')
        if status == 'confirmed':
            print(f'VIOLATION property={prop} replay={a.replay}')
            return 1
        return 0
    tier = os.environ.get('VERIF_TIER') or a.tier or 'quick'
    if tier not in ('quick', 'thorough'):
        tier = 'quick'
    try:
        seed = int(os.environ.get('VERIF_SEED', '0'))
    except ValueError:
        seed = 0
    t0 = time.time()
    crashes = []
    obligations, infos = [], {}
    o, info, crash = run_pyvc(prop, tier)
    obligations += o
    infos['pyvc'] = info
    if crash:
        crashes.append(crash)
    for eng in ('effects', 'coherence'):
        o, info, crash = run_engine(eng, prop, tier)
        obligations += o
        infos[eng] = info
        if crash:
            crashes.append(crash)
    # replay refuted obligations on the real code
    for ob in obligations:
        if ob['status'] == REFUTED and ob.get('prechecked'):
            continue
        if ob['status'] == REFUTED:
            path, status, detail = replay_obligation(prop, ob)
            ob['replay_file'] = os.path.relpath(path, VERIF)
            ob['replay_status'] = status
            ob['replay_detail'] = detail
    rtc = run_rtc(prop, tier, seed)
    if rtc and rtc.get('crashed'):
        crashes.append('rtc: ' + rtc['crashed'])
    return report.finish(prop, tier, seed, obligations, infos, rtc, crashes, time.time() - t0)


if __name__ == '__main__':
    sys.exit(main())
