"""C05 - SegmentationImage attributes always describe the current label array (bounded rtc driver).

Real code: photutils.segmentation.SegmentationImage (all public mutators and derived attributes), with initial
objects built by the constructor, by detect_sources (pre-seeded labels/slices caches) and by deblend_sources
(real parent->children map).  Oracle: the set-theoretic effect of every operation computed on a plain numpy copy,
and every derived attribute recomputed from that copy by explicit pixel loops.

How staleness is observed without disturbing the cache state that a history builds up: after every step a
`copy.deepcopy` of the object under test (the *probe*, it carries the same instance dict, i.e. the same cached
values) is read attribute by attribute and compared with the oracle; the object itself only sees the reads that
are part of the history.
"""
import copy
import itertools
import time
import warnings

import numpy as np

BOUNDS = (
    "Label arrays of shape 2x3 and 3x3 over labels {0,1,2,3,5} (dtypes int32, uint8, int64; incl. disconnected "
    "labels, no-background, all-zero, single-label arrays), plus real detect_sources outputs on 4x4 images and a real "
    "deblend_sources output on a 14x16 scene; deblend map empty, hand-seeded (one or two parents) or real.  Operations "
    "(arguments derived from the current label set): reassign_label / reassign_labels (merge into a present label, "
    "fresh label, gap label, 0, empty list; relabel both), relabel_consecutive(1|2|4), keep_label(s), remove_label(s) "
    "(incl. [] and all labels; relabel both), remove_border_labels(0|1 where allowed; partial_overlap both; relabel "
    "both), remove_masked_labels(5 masks incl. empty and full; partial_overlap both; relabel both), data setter (3 "
    "arrays incl. all-zero and another dtype), one invalid-label call (must raise ValueError and change nothing), and "
    "reads of labels, nlabels, max_label, areas, slices, bbox, segments, polygons, missing_labels, is_consecutive, "
    "data_ma, background_area, deblended_labels, deblended_labels_map, deblended_labels_inverse_map, copy().  "
    "Histories: ALL histories of length 1 and 2 on a fixed set of initial objects (4 quick / 14 thorough), and seeded "
    "random histories of length 3 on random arrays of the stated family until the time budget (quick ~8 s, thorough "
    "~170 s of sampling) is used.  All comparisons exact (integers, slices, masks); polygon coverage by area "
    "(abs tol 1e-9) and pixel-centre containment."
)
RULE = (
    "The exhaustive part is a depth-first enumeration of the operation tree (seed-independent); the sampled part draws "
    "the initial array, dtype, map seed and each operation from ctx.rng.  One case = one history prefix applied to one "
    "initial object (the state after its last step is compared completely); distinct = distinct (initial object, "
    "operation sequence); non-trivial = a label was present at some point of the history."
)

BAD_LABEL = 77
READS = ('labels', 'nlabels', 'max_label', 'areas', 'slices', 'bbox', 'segments', 'polygons', 'missing_labels',
         'is_consecutive', 'data_ma', 'background_area', 'deblended_labels', 'deblended_labels_map',
         'deblended_labels_inverse_map', 'copy')
CHEAP = ('labels', 'nlabels', 'max_label', 'areas', 'slices', 'bbox', 'missing_labels', 'is_consecutive', 'data_ma',
         'background_area', 'deblended_labels', 'deblended_labels_map', 'deblended_labels_inverse_map')
MASKS = ('none', 'row0', 'last', 'checker', 'all')

_CAP = {}
_REAL = []
_FORCE = [False]


def _real():
    if not _REAL:
        import shapely
        from photutils.segmentation import SegmentationImage, deblend_sources, detect_sources
        _REAL.extend([SegmentationImage, detect_sources, deblend_sources, shapely])
    return _REAL


# ----------------------------------------------------------------------------- oracle: attributes from an array

_ORC = {}


def oracle_attrs(a):
    key = (a.shape, a.dtype.str, a.tobytes())
    got = _ORC.get(key)
    if got is not None:
        return got
    h, w = a.shape
    vals = a.tolist()
    pix = {}
    nzero = 0
    for y in range(h):
        for x in range(w):
            v = vals[y][x]
            if v != 0:
                pix.setdefault(v, []).append((y, x))
            else:
                nzero += 1
    labels = sorted(pix)
    areas = [len(pix[l]) for l in labels]
    slices, bbox, conn8 = [], [], {}
    for l in labels:
        ys = [p[0] for p in pix[l]]
        xs = [p[1] for p in pix[l]]
        slices.append((slice(min(ys), max(ys) + 1), slice(min(xs), max(xs) + 1)))
        bbox.append((min(xs), max(xs) + 1, min(ys), max(ys) + 1))     # ixmin, ixmax, iymin, iymax
        # 8-connectedness of the label's pixel set (flood fill)
        todo = [pix[l][0]]
        seen = {pix[l][0]}
        pset = set(pix[l])
        while todo:
            cy, cx = todo.pop()
            for dy in (-1, 0, 1):
                for dx in (-1, 0, 1):
                    q = (cy + dy, cx + dx)
                    if q in pset and q not in seen:
                        seen.add(q)
                        todo.append(q)
        conn8[l] = len(seen) == len(pset)
    mx = max(labels) if labels else 0
    got = {
        'labels': labels, 'nlabels': len(labels), 'max_label': mx, 'areas': areas, 'slices': slices, 'bbox': bbox,
        'missing_labels': sorted(set(range(1, mx + 1)) - set(labels)),
        'is_consecutive': len(labels) >= 1 and labels == list(range(1, len(labels) + 1)),
        'background_area': nzero, 'pix': {l: set(pix[l]) for l in labels},
        'all_connected': all(conn8.values()),
    }
    if len(_ORC) < 300000:
        _ORC[key] = got
    return got


def norm_map(m):
    return {int(k): sorted(int(v) for v in np.atleast_1d(vals)) for k, vals in m.items()}


def poly_covers(poly, pixset, h, w):
    shapely = _real()[3]
    try:
        g = poly if poly.is_valid else shapely.make_valid(poly)
        if abs(g.area - len(pixset)) > 1e-9:
            return False
        ys, xs = np.mgrid[0:h, 0:w]
        inside = shapely.contains_xy(g, xs.ravel().astype(float), ys.ravel().astype(float))
        got = {(int(y), int(x)) for y, x, i in zip(ys.ravel(), xs.ravel(), inside) if i}
        return got == pixset
    except Exception:  # noqa: BLE001
        return False


def attr_mismatch(attr, val, orc, a, emap):
    """None if `val` (the value of attribute `attr`) describes array `a`; otherwise a short description."""
    h, w = a.shape
    if attr == 'labels':
        v = np.asarray(val)
        if v.tolist() != orc['labels']:
            return f'labels {v.tolist()} expected {orc["labels"]}'
        if v.dtype != a.dtype:
            return f'labels dtype {v.dtype} != data dtype {a.dtype}'
        return None
    if attr in ('nlabels', 'max_label', 'background_area'):
        return None if int(val) == orc[attr] else f'{attr} {val} expected {orc[attr]}'
    if attr == 'is_consecutive':
        return None if bool(val) == orc[attr] else f'is_consecutive {val} expected {orc[attr]}'
    if attr in ('areas', 'missing_labels'):
        v = [int(x) for x in np.asarray(val).tolist()]
        return None if v == orc[attr] else f'{attr} {v} expected {orc[attr]}'
    if attr == 'slices':
        return None if list(val) == orc['slices'] else f'slices {val} expected {orc["slices"]}'
    if attr == 'bbox':
        v = [(b.ixmin, b.ixmax, b.iymin, b.iymax) for b in val]
        return None if v == orc['bbox'] else f'bbox {v} expected {orc["bbox"]}'
    if attr == 'data_ma':
        ok = (isinstance(val, np.ma.MaskedArray) and np.array_equal(np.ma.getdata(val), a)
              and np.array_equal(np.ma.getmaskarray(val), a == 0))
        return None if ok else f'data_ma {val!r} does not mask exactly the zeros of {a.tolist()}'
    if attr == 'deblended_labels':
        exp = sorted(c for ch in emap.values() for c in ch)
        v = [int(x) for x in np.asarray(val).tolist()]
        if v != exp:
            return f'deblended_labels {v} expected {exp}'
        absent = [c for c in v if c not in orc['labels']]
        return f'deblended_labels {v} names labels absent from the array {orc["labels"]}' if absent else None
    if attr == 'deblended_labels_inverse_map':
        v = norm_map(val)
        exp = {int(k): sorted(ch) for k, ch in emap.items()}
        if v != exp:
            return f'parent->children map {v} expected {exp}'
        return None
    if attr == 'deblended_labels_map':
        v = {int(k): int(p) for k, p in val.items()}
        children = sorted({c for ch in emap.values() for c in ch})
        if sorted(v) != children:
            return f'child->parent map {v} has keys != children {children}'
        for c, p in v.items():
            if p not in emap or c not in emap[p]:
                return f'child->parent map {v}: {c}->{p} not in parent->children {emap}'
        return None
    if attr == 'polygons':
        if len(val) != orc['nlabels']:
            return f'{len(val)} polygons for {orc["nlabels"]} labels'
        for k, l in enumerate(orc['labels']):
            if not poly_covers(val[k], orc['pix'][l], h, w):
                return f'polygon {k} ({val[k].wkt}) does not cover exactly the pixels of label {l}'
        return None
    if attr == 'segments':
        if len(val) != orc['nlabels']:
            return f'{len(val)} segments for {orc["nlabels"]} labels'
        for k, l in enumerate(orc['labels']):
            s = val[k]
            if int(s.label) != l or s.slices != orc['slices'][k] or int(s.area) != orc['areas'][k]:
                return f'segment {k}: label/slices/area {s.label} {s.slices} {s.area} expected {l} {orc["slices"][k]} {orc["areas"][k]}'
            b = s.bbox
            if (b.ixmin, b.ixmax, b.iymin, b.iymax) != orc['bbox'][k]:
                return f'segment {k}: bbox {b} expected {orc["bbox"][k]}'
            cut = a[orc['slices'][k]].copy()
            cut[cut != l] = 0
            if not np.array_equal(np.asarray(s.data), cut):
                return f'segment {k}: data {np.asarray(s.data).tolist()} expected {cut.tolist()}'
            if s.polygon is None or not poly_covers(s.polygon, orc['pix'][l], h, w):
                return f'segment {k}: polygon does not cover exactly the pixels of label {l}'
        return None
    raise KeyError(attr)


# ----------------------------------------------------------------------------- operations

def make_mask(mid, shape):
    h, w = shape
    m = np.zeros(shape, bool)
    if mid == 'row0':
        m[0, :] = True
    elif mid == 'last':
        m[h - 1, w - 1] = True
    elif mid == 'checker':
        ys, xs = np.mgrid[0:h, 0:w]
        m = (ys + xs) % 2 == 0
    elif mid == 'all':
        m[:] = True
    return m


def make_data(did, shape):
    h, w = shape
    if did == 0:
        ys, xs = np.mgrid[0:h, 0:w]
        return np.array([2, 0, 4], dtype=np.int32)[(ys + xs) % 3]
    if did == 1:
        return np.zeros(shape, dtype=np.int64)
    a = np.zeros(shape, dtype=np.uint8)
    a[0, :] = 7
    a[h - 1, w - 1] = 1
    return a


def ops_for(exp):
    """All operations offered in the state whose label array is `exp` (JSON-able lists)."""
    L = oracle_attrs(exp)['labels']
    h, w = exp.shape
    ops = [['read', r] for r in READS]
    mx = L[-1] if L else 0
    if L:
        ends = [L[0]] if len(L) == 1 else [L[0], L[-1]]
        gap = next(v for v in range(1, mx + 2) if v not in L)
        for l in ends:
            other = L[(L.index(l) + 1) % len(L)]
            targets = [(mx + 2, False), (mx + 2, True), (gap, False), (0, False)]
            if other != l:
                targets += [(other, False), (other, True)]
            else:
                targets += [(l, True)]
            for n, rl in targets:
                ops.append(['reassign_label', l, n, rl])
            for rl in (False, True):
                ops.append(['keep_label', l, rl])
                ops.append(['remove_label', l, rl])
        pair = sorted(set(ends))
        mid = L[len(L) // 2]
        for rl in (False, True):
            for n in (mx + 2, mid, 0):
                ops.append(['reassign_labels', pair, n, rl])
            for ls in (pair, list(L)):
                ops.append(['keep_labels', ls, rl])
                ops.append(['remove_labels', ls, rl])
    for rl in (False, True):
        ops.append(['reassign_labels', [], 7, rl])
        ops.append(['keep_labels', [], rl])
        ops.append(['remove_labels', [], rl])
    for s in (1, 2, 4):
        ops.append(['relabel_consecutive', s])
    for bw in (0, 1):
        if bw < min(h, w) / 2:
            for po in (True, False):
                for rl in (False, True):
                    ops.append(['remove_border_labels', bw, po, rl])
    for mid in MASKS:
        for po in (True, False):
            for rl in (False, True):
                ops.append(['remove_masked_labels', mid, po, rl])
    for did in (0, 1, 2):
        ops.append(['set_data', did])
    ops.append(['bad_label', 'remove_label'])
    ops.append(['bad_label', 'reassign_label'])
    return ops


def is_mutator(op):
    return op[0] not in ('read',)


def apply_real(seg, op):
    """Apply `op` to the real object. Returns (value, exception)."""
    name = op[0]
    try:
        with warnings.catch_warnings():
            warnings.simplefilter('ignore')
            if name == 'read':
                return (seg.copy() if op[1] == 'copy' else getattr(seg, op[1])), None
            if name == 'reassign_label':
                seg.reassign_label(op[1], op[2], relabel=op[3])
            elif name == 'reassign_labels':
                seg.reassign_labels(list(op[1]), op[2], relabel=op[3])
            elif name == 'relabel_consecutive':
                if op[1] == 1:
                    seg.relabel_consecutive()
                else:
                    seg.relabel_consecutive(start_label=op[1])
            elif name in ('keep_label', 'remove_label'):
                getattr(seg, name)(op[1], relabel=op[2])
            elif name in ('keep_labels', 'remove_labels'):
                getattr(seg, name)(list(op[1]), relabel=op[2])
            elif name == 'remove_border_labels':
                seg.remove_border_labels(op[1], partial_overlap=op[2], relabel=op[3])
            elif name == 'remove_masked_labels':
                seg.remove_masked_labels(make_mask(op[1], seg.data.shape), partial_overlap=op[2], relabel=op[3])
            elif name == 'set_data':
                seg.data = make_data(op[1], seg.data.shape)
            elif name == 'bad_label':
                if op[1] == 'reassign_label':
                    seg.reassign_label(BAD_LABEL, 1)
                else:
                    getattr(seg, op[1])(BAD_LABEL)
            else:
                raise KeyError(name)
        return None, None
    except Exception as e:  # noqa: BLE001
        return None, e


def rank_map(labels):
    return {l: i + 1 for i, l in enumerate(sorted(labels))}


def apply_oracle(exp, emap, op):
    """Documented effect of `op` on a plain numpy copy.

    Returns dict(exp=new array, emap=new parent->children, raises=bool, alt=array the real code would give if
    relabel were ignored (only when the effective label set is empty and relabel=True), empty=bool)
    """
    name = op[0]
    res = {'exp': exp, 'emap': emap, 'raises': False, 'alt': None}
    if name == 'read':
        return res
    if name == 'bad_label':
        res['raises'] = True
        return res
    if name == 'set_data':
        res['exp'] = make_data(op[1], exp.shape)
        res['emap'] = {}
        return res
    h, w = exp.shape
    vals = exp.tolist()
    L = oracle_attrs(exp)['labels']
    f = {l: l for l in L}          # label function old -> new
    relabel = False
    if name == 'relabel_consecutive':
        for i, l in enumerate(L):
            f[l] = op[1] + i
    else:
        if name == 'reassign_label':
            sel, new, relabel = [op[1]], op[2], op[3]
        elif name == 'reassign_labels':
            sel, new, relabel = list(op[1]), op[2], op[3]
        elif name == 'remove_label':
            sel, new, relabel = [op[1]], 0, op[2]
        elif name == 'remove_labels':
            sel, new, relabel = list(op[1]), 0, op[2]
        elif name == 'keep_label':
            sel, new, relabel = [l for l in L if l != op[1]], 0, op[2]
        elif name == 'keep_labels':
            sel, new, relabel = [l for l in L if l not in op[1]], 0, op[2]
        elif name in ('remove_border_labels', 'remove_masked_labels'):
            if name == 'remove_border_labels':
                bw = op[1]
                region = [[(y < bw or y >= h - bw or x < bw or x >= w - bw) for x in range(w)] for y in range(h)]
            else:
                region = make_mask(op[1], exp.shape).tolist()
            inside, outside = set(), set()
            for y in range(h):
                for x in range(w):
                    v = vals[y][x]
                    if v != 0:
                        (inside if region[y][x] else outside).add(v)
            sel = sorted(inside) if op[2] else sorted(inside - outside)
            new, relabel = 0, op[3]
        else:
            raise KeyError(name)
        for l in sel:
            f[l] = new
        if relabel:
            if not sel:
                res['alt'] = exp            # what an implementation that skips the relabel would leave
            rk = rank_map({v for v in f.values() if v != 0})
            f = {l: (rk[v] if v != 0 else 0) for l, v in f.items()}
    out = exp.copy()
    for y in range(h):
        for x in range(w):
            v = vals[y][x]
            if v != 0:
                out[y, x] = f[v]
    nm = {}
    for p, ch in emap.items():
        nl = []
        for c in ch:
            v = f.get(c, 0)
            if v != 0 and v not in nl:
                nl.append(v)
        if nl:
            nm[p] = nl
    res['exp'] = out
    res['emap'] = nm
    return res


# ----------------------------------------------------------------------------- state and one step

class St:
    def __init__(self, seg, exp, emap, lastmut='init', ever=False):
        self.seg, self.exp, self.emap, self.lastmut, self.ever = seg, exp, emap, lastmut, ever

    def clone(self):
        return St(copy.deepcopy(self.seg), self.exp.copy(), {k: list(v) for k, v in self.emap.items()},
                  self.lastmut, self.ever)


def fresh_check(a, viol):
    """The base getters on a freshly constructed object describe the array (memoised per array)."""
    key = ('fresh', a.shape, a.dtype.str, a.tobytes())
    if key in _ORC:
        return
    _ORC[key] = True
    orc = oracle_attrs(a)
    f = _real()[0](a.copy())
    for attr in CHEAP + ('polygons', 'segments'):
        try:
            with warnings.catch_warnings():
                warnings.simplefilter('ignore')
                val = getattr(f, attr)
            mm = attr_mismatch(attr, val, orc, a, {})
        except Exception as e:  # noqa: BLE001
            mm = f'raised {e!r}'
        if mm:
            if attr in ('polygons', 'segments') and not orc['all_connected']:
                viol.append(('polygons/disconnected-label', f'fresh SegmentationImage({a.tolist()}).{attr}: {mm}'))
            else:
                viol.append((f'getter/{attr}', f'fresh SegmentationImage({a.tolist()}).{attr}: {mm}'))


def check_object(obj, exp, emap, lastmut, viol, force_all=False, who='probe'):
    """Compare every derived attribute of `obj` with the oracle for array `exp`."""
    orc = oracle_attrs(exp)
    d = obj.__dict__
    todo = list(CHEAP)
    if force_all or _FORCE[0] or 'polygons' in d or '_geo_polygons' in d or 'segments' in d:
        todo += ['polygons', 'segments']
    for attr in todo:
        try:
            with warnings.catch_warnings():
                warnings.simplefilter('ignore')
                val = getattr(obj, attr)
            mm = attr_mismatch(attr, val, orc, exp, emap)
        except Exception as e:  # noqa: BLE001
            mm = f'raised {e!r}'
        if mm:
            if attr in ('polygons', 'segments') and not orc['all_connected']:
                viol.append(('polygons/disconnected-label', f'{attr} with a label that is not connected: {mm}; data={exp.tolist()}'))
            elif attr.startswith('deblended'):
                viol.append((f'bookkeeping/{attr}-after-{lastmut}', f'{who}.{attr}: {mm}; data={exp.tolist()}'))
            else:
                viol.append((f'cache/{attr}-after-{lastmut}', f'{who}.{attr}: {mm}; data={exp.tolist()}'))
    # bookkeeping never names a label absent from the array
    try:
        named = sorted({int(c) for ch in obj._deblend_label_map.values() for c in np.atleast_1d(ch)})
        absent = [c for c in named if c not in orc['labels']]
        if absent:
            viol.append((f'bookkeeping/absent-label-after-{lastmut}',
                         f'_deblend_label_map {norm_map(obj._deblend_label_map)} names {absent}, labels are {orc["labels"]}'))
    except Exception as e:  # noqa: BLE001
        viol.append(('bookkeeping/map-unreadable', repr(e)))


def do_step(st, op):
    """Apply one operation to the real object and to the oracle; compare. Returns list of (key, what)."""
    viol = []
    name = op[0]
    tag = name if name != 'read' else f'read-{op[1]}'
    before = st.exp
    val, exc = apply_real(st.seg, op)
    o = apply_oracle(st.exp, st.emap, op)
    orc_before = oracle_attrs(before)
    if o['raises']:
        if not isinstance(exc, ValueError):
            viol.append((f'{op[1]}/invalid-label-accepted', f'{op[1]}({BAD_LABEL}) on labels {orc_before["labels"]}: '
                         f'expected ValueError, got {exc!r}'))
    elif exc is not None:
        if name == 'read' and op[1] in ('polygons', 'segments') and not orc_before['all_connected']:
            viol.append(('polygons/disconnected-label', f'reading {op[1]} raised {exc!r}; data={before.tolist()}'))
        else:
            viol.append((f'exception/{tag}', f'{op} raised {exc!r}; data={before.tolist()}'))
    elif name == 'read':
        if op[1] == 'copy':
            c = val
            if not (isinstance(c, type(st.seg)) and c is not st.seg and np.array_equal(c.data, before)
                    and c.data.dtype == before.dtype and not np.shares_memory(c.data, st.seg.data)):
                viol.append(('copy/not-an-independent-equal-copy', f'copy() of data={before.tolist()}'))
            else:
                check_object(c, before, st.emap, st.lastmut, viol, who='copy()')
                try:
                    labs = orc_before['labels']
                    if labs:
                        c.remove_label(labs[0])
                    c._deblend_label_map[12345] = np.array([1])
                except Exception as e:  # noqa: BLE001
                    viol.append(('exception/mutating-a-copy', repr(e)))
        else:
            mm = attr_mismatch(op[1], val, orc_before, before, st.emap)
            if mm:
                if op[1] in ('polygons', 'segments') and not orc_before['all_connected']:
                    viol.append(('polygons/disconnected-label', f'{op[1]} with a label that is not connected: {mm}; data={before.tolist()}'))
                elif op[1].startswith('deblended'):
                    viol.append((f'bookkeeping/{op[1]}-after-{st.lastmut}', f'read {op[1]}: {mm}; data={before.tolist()}'))
                else:
                    viol.append((f'cache/{op[1]}-after-{st.lastmut}', f'read {op[1]}: {mm}; data={before.tolist()}'))
    # the label array after the step
    exp2, emap2 = o['exp'], o['emap']
    got = st.seg.data
    resync = False
    if not isinstance(got, np.ndarray) or got.shape != exp2.shape:
        viol.append((f'{tag}/data-shape', f'{op}: data shape {getattr(got, "shape", None)}'))
        resync = True
    else:
        if got.dtype != exp2.dtype:
            viol.append((f'{tag}/dtype-changed', f'{op} on {before.dtype} data {before.tolist()}: dtype {got.dtype}, '
                         f'expected {exp2.dtype}'))
            resync = True
        if not np.array_equal(got, exp2):
            resync = True
            if o['alt'] is not None and np.array_equal(got, o['alt']):
                viol.append(('relabel/empty-label-set-not-relabelled',
                             f'{op} on data {before.tolist()}: relabel=True but labels stay {sorted(set(got.ravel().tolist()) - {0})} '
                             f'(no label selected, the relabel step is skipped)'))
            else:
                viol.append((f'{tag}/data-effect', f'{op} on data {before.tolist()}: got {got.tolist()}, expected {exp2.tolist()}'))
    if resync:   # continue the history from the real state
        exp2 = np.array(got, copy=True)
        try:
            emap2 = {int(k): [int(v) for v in np.atleast_1d(ch)] for k, ch in st.seg._deblend_label_map.items()}
        except Exception:  # noqa: BLE001
            emap2 = {}
    st.exp, st.emap = exp2, emap2
    if is_mutator(op) and not o['raises']:
        st.lastmut = name
    if oracle_attrs(exp2)['nlabels'] > 0:
        st.ever = True
    # all attributes, read on a deep copy so that the cache state of the object under test is not disturbed
    if np.issubdtype(exp2.dtype, np.integer) and exp2.ndim == 2:
        fresh_check(exp2, viol)
        try:
            probe = copy.deepcopy(st.seg)
        except Exception as e:  # noqa: BLE001
            viol.append(('exception/deepcopy', repr(e)))
            return viol
        check_object(probe, exp2, emap2, st.lastmut, viol)
    return viol


# ----------------------------------------------------------------------------- initial objects

def deblend_scene(k=0):
    if k == 2:
        # two bright blended sources and a faint one nearer the top edge: the faint one is the
        # first marker in raster order and is dropped by the contrast criterion
        yy, xx = np.mgrid[0:41, 0:61]

        def g(a, x0, y0, s):
            return a * np.exp(-((xx - x0) ** 2 + (yy - y0) ** 2) / (2.0 * s * s))
        return g(6, 30, 9, 3) + g(60, 18, 24, 5) + g(50, 42, 24, 5)
    yy, xx = np.mgrid[0:14, 0:16]
    img = np.zeros(xx.shape)
    src = [(4, 4, 50.0), (8, 5, 35.0), (12, 10, 40.0)] if k == 0 else [(3, 3, 40.0), (7, 4, 45.0), (11, 9, 30.0), (13, 11, 28.0)]
    for (x0, y0, amp) in src:
        img += amp * np.exp(-((xx - x0) ** 2 + (yy - y0) ** 2) / 5.0)
    return img


def detect_image(code):
    """4x4 image from a 16-bit code (pixels 2.0 / 0.0)."""
    return np.array([2.0 if (code >> i) & 1 else 0.0 for i in range(16)]).reshape(4, 4)


def build_init(spec):
    """spec -> St (or None if the real constructor path gives no object)."""
    SegmentationImage, detect_sources, deblend_sources, _ = _real()
    kind = spec['kind']
    with warnings.catch_warnings():
        warnings.simplefilter('ignore')
        if kind == 'array':
            a = np.array(spec['data'], dtype=spec['dtype'])
            seg = SegmentationImage(a.copy())
            emap = {int(k): list(v) for k, v in spec.get('map', {}).items()}
            if emap:
                seg._deblend_label_map = {np.dtype(spec['dtype']).type(k): np.array(v, dtype=spec['dtype'])
                                          for k, v in emap.items()}
            return St(seg, a.copy(), emap)
        if kind == 'detect':
            seg = detect_sources(detect_image(spec['code']), 1.0, spec['npixels'], connectivity=spec['conn'])
            if seg is None:
                return None
            return St(seg, seg.data.copy(), {})
        if kind == 'deblend':
            img = deblend_scene(spec['scene'])
            npix = spec.get('npixels', 4)
            s0 = detect_sources(img, 1.0, npix)
            if spec.get('gap'):
                s0.relabel_consecutive(start_label=3)
            seg = deblend_sources(img, s0, npix, nlevels=spec.get('nlevels', 16),
                                  contrast=spec.get('contrast', 0.001), mode=spec.get('mode', 'exponential'),
                                  relabel=spec['relabel'], progress_bar=False)
            emap = {int(k): [int(v) for v in ch] for k, ch in seg._deblend_label_map.items()}
            return St(seg, seg.data.copy(), emap)
    raise KeyError(kind)


def arr_spec(data, dtype, emap=None):
    return {'kind': 'array', 'data': data, 'dtype': dtype, 'map': {str(k): v for k, v in (emap or {}).items()}}


EXHAUSTIVE_QUICK = [
    arr_spec([[1, 1, 0], [0, 2, 2], [5, 0, 3]], 'int32', {9: [1, 2]}),        # connected labels, gap at 4, seeded map
    arr_spec([[1, 0, 1], [2, 2, 0]], 'int64'),                               # label 1 not connected (F2)
    arr_spec([[1, 1, 2], [3, 2, 2], [3, 5, 5]], 'uint8', {7: [3, 5]}),        # no background pixel
    arr_spec([[0, 0, 0], [0, 0, 0]], 'int32'),                               # no label at all
]
EXHAUSTIVE_THOROUGH = EXHAUSTIVE_QUICK + [
    {'kind': 'detect', 'code': 0b1001011000001111, 'npixels': 1, 'conn': 4},
    {'kind': 'detect', 'code': 0b1100110000110011, 'npixels': 2, 'conn': 8},
    {'kind': 'deblend', 'scene': 0, 'relabel': True},
    {'kind': 'deblend', 'scene': 1, 'relabel': False, 'gap': True},
    arr_spec([[3, 3, 3], [3, 3, 3]], 'uint8'),                               # one label, no background
    arr_spec([[0, 2, 0], [5, 0, 2], [0, 5, 0]], 'int32', {4: [2], 6: [5]}),   # diagonal-only contacts, two parents
    arr_spec([[2, 0, 3], [0, 0, 0], [3, 0, 2]], 'int64', {9: [2, 3]}),        # two disconnected labels
    arr_spec([[0, 0, 0], [0, 5, 0], [0, 0, 0]], 'int32'),                     # interior label only (border ops)
    arr_spec([[1, 2, 3], [5, 5, 5]], 'uint8', {8: [1, 5]}),
    arr_spec([[5, 3, 5], [2, 1, 2], [5, 3, 5]], 'int32'),                     # everything disconnected, no background
]


def random_spec(rng):
    if rng.random() < 0.08:
        return {'kind': 'detect', 'code': int(rng.integers(1, 1 << 16)), 'npixels': int(rng.integers(1, 4)),
                'conn': int(rng.choice([4, 8]))}
    if rng.random() < 0.05:
        return {'kind': 'deblend', 'scene': int(rng.integers(0, 2)), 'relabel': bool(rng.integers(0, 2)),
                'gap': bool(rng.integers(0, 2))}
    h, w = (2, 3) if rng.random() < 0.4 else (3, 3)
    pz = rng.choice([0.0, 0.2, 0.45, 0.7])
    vals = np.array([1, 2, 3, 5])
    a = np.where(rng.random((h, w)) < pz, 0, rng.choice(vals, size=(h, w)))
    dtype = str(rng.choice(['int32', 'uint8', 'int64']))
    labs = sorted(set(a.ravel().tolist()) - {0})
    emap = {}
    r = rng.random()
    if labs and r < 0.35:
        k = int(rng.integers(1, min(2, len(labs)) + 1))
        emap = {9: [int(v) for v in rng.choice(labs, size=k, replace=False)]}
    elif len(labs) >= 2 and r < 0.5:
        ch = [int(v) for v in rng.choice(labs, size=2, replace=False)]
        emap = {8: [ch[0]], 4: [ch[1]]}
    return arr_spec(a.tolist(), dtype, emap)


# ----------------------------------------------------------------------------- drivers

def _report(ctx, viol, spec, hist):
    for key, what in viol:
        n = _CAP.get(key, 0)
        _CAP[key] = n + 1
        if n < 3:
            ctx.check(False, key, f'{what} [history {hist} from {spec}]',
                      {'init': spec, 'history': [list(o) for o in hist], 'key': key})


def explore(ctx, spec, st, hist, maxdepth, stats):
    ops = ops_for(st.exp)
    for op in ops:
        child = st.clone()
        viol = do_step(child, op)
        h2 = hist + [op]
        ctx.case((repr(spec), repr(h2)), nontrivial=child.ever or st.ever,
                 contract=f'history-len-{len(h2)}/state==oracle',
                 sample={'init': spec, 'history': h2} if (ctx.evaluations % 9973 == 11) else None)
        stats['nodes'] += 1
        _report(ctx, viol, spec, h2)
        if len(h2) < maxdepth:
            explore(ctx, spec, child, h2, maxdepth, stats)


def initial_checks(ctx, spec, st):
    """Length-0 history: the freshly built object describes its array."""
    viol = []
    fresh_check(st.exp, viol)
    check_object(copy.deepcopy(st.seg), st.exp, st.emap, 'init', viol, force_all=True)
    if oracle_attrs(st.exp)['nlabels'] > 0:
        st.ever = True
    ctx.case((repr(spec), 'init'), nontrivial=st.ever, contract='history-len-0/state==oracle')
    _report(ctx, viol, spec, [])


def overflow_stage(ctx):
    """relabel_consecutive with a start label that does not fit the dtype must not silently lose a label."""
    SegmentationImage = _real()[0]
    for start in (254, 255):
        a = np.array([[1, 2, 3], [0, 0, 3]], dtype=np.uint8)
        seg = SegmentationImage(a.copy())
        viol = []
        try:
            with warnings.catch_warnings():
                warnings.simplefilter('ignore')
                seg.relabel_consecutive(start_label=start)
            raised = False
        except Exception:  # noqa: BLE001
            raised = True          # refusing is fine
        if not raised:
            got = seg.data
            nlab = len(set(got.ravel().tolist()) - {0})
            same_partition = all(len(set(got[a == l].tolist())) == 1 for l in (1, 2, 3)) and nlab == 3 \
                and np.array_equal(got == 0, a == 0)
            if not same_partition or [int(v) for v in seg.labels] != sorted(set(got.ravel().tolist()) - {0}):
                viol.append(('relabel_consecutive/dtype-overflow-loses-label',
                             f'uint8 data {a.tolist()}, relabel_consecutive({start}) -> data {got.tolist()}, labels {seg.labels.tolist()}'))
        ctx.case(('overflow', start), nontrivial=True, contract='relabel_consecutive/no-silent-label-loss')
        _report(ctx, viol, {'kind': 'overflow', 'start': start}, [])


def run(ctx):
    _CAP.clear()
    t0 = time.time()
    rng = ctx.rng
    # sanity of the probe optimisation: reading polygons leaves a recognisable cache entry
    f = _real()[0](np.array([[1, 0], [0, 2]]))
    f.polygons
    f.segments
    if not ({'polygons', 'segments'} <= set(f.__dict__)):
        ctx.note('polygons/segments are not cached under their own names; probes read them at every step')
        _FORCE[0] = True

    overflow_stage(ctx)
    # deblended images whose first marker was dropped by the contrast criterion: bookkeeping only
    for relabel in (False, True):
        spec = {'kind': 'deblend', 'scene': 2, 'relabel': relabel, 'npixels': 5, 'nlevels': 32,
                'contrast': 0.02, 'mode': 'linear'}
        st = build_init(spec)
        initial_checks(ctx, spec, st)
    stats = {'nodes': 0}
    specs = EXHAUSTIVE_THOROUGH if ctx.thorough else EXHAUSTIVE_QUICK
    for spec in specs:
        st = build_init(spec)
        initial_checks(ctx, spec, st)
        explore(ctx, spec, st, [], 2, stats)
    ctx.note(f'exhaustive length<=2 histories: {stats["nodes"]} nodes on {len(specs)} initial objects, '
             f'{time.time() - t0:.1f} s')
    # sampled histories of length 3 on the broad array family
    budget = (170.0 if ctx.thorough else 8.0)
    t1 = time.time()
    nh = 0
    while time.time() - t1 < budget:
        spec = random_spec(rng)
        st = build_init(spec)
        if st is None:
            continue
        if nh % 4 == 0:
            initial_checks(ctx, spec, st)
        hist = []
        for _ in range(3):
            ops = ops_for(st.exp)
            # favour mutators a little less than their share so that read;mutate;read patterns are frequent
            op = ops[int(rng.integers(len(ops)))]
            if rng.random() < 0.25:
                op = ['read', READS[int(rng.integers(len(READS)))]]
            viol = do_step(st, op)
            hist.append(op)
            ctx.case((repr(spec), repr(hist)), nontrivial=st.ever, contract=f'history-len-{len(hist)}/state==oracle')
            _report(ctx, viol, spec, list(hist))
        # finally read everything on the object itself
        viol = []
        check_object(st.seg, st.exp, st.emap, st.lastmut, viol, force_all=True, who='object')
        _report(ctx, viol, spec, list(hist) + [['read-all']])
        nh += 1
    ctx.note(f'sampled length-3 histories: {nh}')


def replay(case):
    try:
        spec = case['init']
        if spec.get('kind') == 'overflow':
            class _C:
                failures = []
                evaluations = 0

                def case(self, *a, **k):
                    pass

                def check(self, ok, key, what, case=None):
                    self.failures.append((key, what))
            c = _C()
            _CAP.clear()
            overflow_stage(c)
            return ('confirmed', c.failures[0][1], [k for k, _ in c.failures]) if c.failures else ('spurious', 'no loss', [])
        st = build_init(spec)
        allv = []
        fresh_check(st.exp, allv)
        check_object(copy.deepcopy(st.seg), st.exp, st.emap, 'init', allv, force_all=True)
        for op in case['history']:
            if op[0] == 'read-all':
                check_object(st.seg, st.exp, st.emap, st.lastmut, allv, force_all=True, who='object')
            else:
                # forget the memo of fresh-object checks so that a replay re-evaluates them
                for k in [k for k in _ORC if k and k[0] == 'fresh']:
                    del _ORC[k]
                allv += do_step(st, op)
    except Exception as e:  # noqa: BLE001
        return 'error', repr(e), None
    keys = [k for k, _ in allv]
    if case.get('key') in keys:
        return 'confirmed', next(w for k, w in allv if k == case['key']), keys
    if allv:
        return 'confirmed', 'different violation: ' + '; '.join(f'{k}: {w}' for k, w in allv[:3]), keys
    return 'spurious', 'no violation on replay', []
