"""C17 -- centroid functions locate symmetric sources exactly and act per source.

Bounded run-time contract driver (engine E4).  Oracles written from the property statement: the
intensity-weighted mean by an explicit pixel loop, the analytic vertex of an exactly quadratic peak, the
symmetry centre of point-symmetric sources, the flip / transpose / rescale images of a result, and -- for
centroid_sources -- the centroid function called by the driver on the cutout it extracts itself
(footprint-shaped window centred on the position, trimmed at the image border; mask = mask cutout OR
not-footprint; error cutout; xpeak/ypeak shifted to the cutout origin; extra keywords unchanged).
"""
import itertools
import math

import numpy as np

BOUNDS = (
    "Cutouts 3x3 .. 12x12 (odd, even and rectangular), float64.  centroid_com: 11 shapes x 4 data kinds "
    "(positive noise, peaked, signed with positive total, with NaN/inf) x 3 mask fractions vs pixel-loop "
    "oracle, tol 1e-10*sum|d|/|sum d|.  centroid_quadratic: exact quadratics c0-a(x-x0)^2-b(y-y0)^2-c(x-x0)(y-y0) "
    "with 4 coefficient sets, vertex lattice (1.0, 1.3, 1.5, centre, centre+0.37, n-2.4, n-2) per axis, 9 shapes, "
    "fit_boxsize in {3,5,7,(3,5),(5,3)} incl. boxes larger than an axis of 3x9 / 9x3 / 4x7 data, keyword modes {none, xpeak/ypeak at the peak pixel, fractional "
    "xpeak/ypeak, displaced xpeak/ypeak + search_boxsize 3/5}, 0-2 masked pixels (junk values) and an unmasked NaN; "
    "tol 1e-9 (design matrices with smallest singular value < 1e-6*largest are skipped).  Symmetric sources: f + "
    "point-mirror(f) on 10 centred shapes (odd/even) and sources 1-3 px from the border made symmetric by masking "
    "pixels whose mirror image is outside the cutout, optional symmetric masks / error maps; tol 1e-10 (com), "
    "1e-9 (quadratic), 1e-5 (1dg, 2dg: least-squares fit tolerance).  Commutation with flipx/flipy/flipxy/"
    "transpose and rescaling by {0.5, 3.7, 1000} on 3 asymmetric scenes x masks x error maps x keywords, same "
    "tolerances except 1e-4 for the fits (optimiser termination).  Masked-value blindness: masked values replaced by {0, 1e30, -50, NaN, +inf, noise}; results "
    "must agree to 1e-12 (com, quadratic) / 1e-9 (fits).  centroid_sources: 30x34 image, 7 positions (integer, "
    "fractional, 2 px from the border), box sizes 5/7/9/11/(5,9), disk and cross footprints, mask on/off, error "
    "map on/off, quadratic keywords {fit_boxsize, xpeak/ypeak, search_boxsize}; calls with all positions in 4 "
    "(quick) / 10 orders, each single position, pairs with duplicates; results must equal the driver's own "
    "cutout call to 1e-12 (com, quadratic) / 1e-9 (fits)."
)
RULE = (
    "Every case is one (function, input, keywords) evaluation; the key is the tuple of lattice indices.  A case "
    "is trivial (not counted) when the documented edge rule applies (maximum pixel on the cutout border: the "
    "pixel position is returned), when there are ties for the maximum, when the fit window is rank deficient "
    "after masking, or when the expected result is NaN by documentation (xpeak outside the cutout).  Random "
    "parts (noise, junk under masks) come from ctx.rng; the lattices do not depend on the seed."
)

TOL = {'com': 1e-10, 'quadratic': 1e-9, '1dg': 1e-5, '2dg': 1e-5}
# transformed inputs change the optimiser's path (termination at relative cost change ~1e-8 => ~1e-4 px)
TOL_COMMUTE = {'com': 1e-10, 'quadratic': 1e-9, '1dg': 1e-4, '2dg': 1e-4}
TOL_SAME = {'com': 1e-12, 'quadratic': 1e-12, '1dg': 1e-9, '2dg': 1e-9}


def _funcs():
    from photutils.centroids import centroid_1dg, centroid_2dg, centroid_com, centroid_quadratic
    return {'com': centroid_com, 'quadratic': centroid_quadratic, '1dg': centroid_1dg, '2dg': centroid_2dg}


def call(fn, data, mask=None, error=None, **kw):
    """Call a centroid function; returns (x, y) as floats or ('raise', msg)."""
    f = _funcs()[fn]
    kws = dict(kw)
    if mask is not None:
        kws['mask'] = mask
    if error is not None and fn in ('1dg', '2dg'):
        kws['error'] = error
    try:
        r = f(data, **kws)
    except Exception as exc:  # noqa: BLE001
        return ('raise', f'{type(exc).__name__}: {exc}')
    return (float(r[0]), float(r[1]))


def _same(a, b, tol):
    if isinstance(a[0], str) or isinstance(b[0], str):
        return isinstance(a[0], str) and isinstance(b[0], str)
    for u, v in zip(a, b):
        if math.isnan(u) or math.isnan(v):
            if not (math.isnan(u) and math.isnan(v)):
                return False
        elif abs(u - v) > tol:
            return False
    return True


def _J(a):
    return None if a is None else np.asarray(a).tolist()


def _A(a, dtype=float):
    return None if a is None else np.array(a, dtype=dtype)


def gauss(shape, xc, yc, sx, sy, th, amp):
    yy, xx = np.mgrid[0:shape[0], 0:shape[1]]
    c, s = math.cos(th), math.sin(th)
    u = (xx - xc) * c + (yy - yc) * s
    v = -(xx - xc) * s + (yy - yc) * c
    return amp * np.exp(-0.5 * (u * u / sx ** 2 + v * v / sy ** 2))


class Rec:
    """Collects failures; forwards to ctx when given."""

    def __init__(self, ctx=None):
        self.ctx = ctx
        self.fails = []

    def case(self, *a, **k):
        if self.ctx is not None:
            self.ctx.case(*a, **k)

    def check(self, ok, key, what, case):
        if not ok:
            self.fails.append((key, what))
            if self.ctx is not None:
                self.ctx.check(False, key, what, case)
        return ok


# --------------------------------------------------------------------------------------------------
# A. centroid_com == intensity-weighted mean of unmasked finite pixels
# --------------------------------------------------------------------------------------------------
def com_oracle(data, mask):
    s = sx = sy = sa = 0.0
    ny, nx = data.shape
    for i in range(ny):
        for j in range(nx):
            if mask is not None and mask[i, j]:
                continue
            v = data[i, j]
            if not math.isfinite(v):
                continue
            s += v
            sx += j * v
            sy += i * v
            sa += abs(v)
    return s, sx, sy, sa


def check_com(rec, data, mask, tag):
    case = {'kind': 'com', 'data': _J(data), 'mask': _J(mask)}
    d0 = data.copy()
    m0 = None if mask is None else mask.copy()
    got = call('com', data, mask)
    s, sx, sy, sa = com_oracle(data, mask)
    nontriv = abs(s) > 1e-3 * sa and sa > 0
    rec.case(('com', tag), nontrivial=nontriv, contract='com==weighted-mean')
    if isinstance(got[0], str):
        rec.check(False, 'com/raises', f'centroid_com raised {got[1]} ({tag})', case)
        return
    if nontriv:
        exp = (sx / s, sy / s)
        tol = 1e-10 * sa / abs(s) * max(data.shape)
        rec.check(_same(got, exp, tol), 'com/not-weighted-mean-of-unmasked-finite-pixels',
                  f'centroid_com {got} != loop oracle {exp} ({tag})', case)
    same_in = np.array_equal(data, d0, equal_nan=True) and (mask is None or np.array_equal(mask, m0))
    rec.check(same_in, 'com/input-modified', f'centroid_com modified its input ({tag})', case)


def part_com(ctx):
    rec = Rec(ctx)
    rng = ctx.rng
    shapes = [(3, 3), (3, 4), (4, 3), (4, 4), (5, 5), (5, 8), (6, 6), (7, 7), (8, 5), (9, 9), (12, 12)]
    for si, shape in enumerate(shapes):
        for kind in ('positive', 'peaked', 'signed', 'nonfinite'):
            for frac in (0.0, 0.2, 0.5):
                if kind == 'positive':
                    d = rng.uniform(0.1, 5.0, shape)
                elif kind == 'peaked':
                    d = gauss(shape, shape[1] * 0.37, shape[0] * 0.61, 1.1, 0.8, 0.4, 50.0) + rng.uniform(0, 0.5, shape)
                elif kind == 'signed':
                    d = rng.normal(0.0, 1.0, shape) + 2.0
                else:
                    d = rng.uniform(0.1, 5.0, shape)
                    idx = rng.choice(d.size, size=min(3, d.size - 1), replace=False)
                    d.flat[idx[0]] = np.nan
                    d.flat[idx[1]] = np.inf
                    if len(idx) > 2:
                        d.flat[idx[2]] = -np.inf
                mask = None
                if frac > 0:
                    mask = rng.random(shape) < frac
                    if mask.all():
                        mask[0, 0] = False
                    # junk under the mask
                    d = d.copy()
                    d[mask] = rng.choice([1e6, -1e6, np.nan, np.inf], size=int(mask.sum()))
                check_com(rec, d, mask, (si, kind, frac))
    # integer input and 1-pixel-wide unmasked region
    d = np.arange(20).reshape(4, 5).astype(float)
    m = np.ones((4, 5), bool)
    m[2, 3] = False
    check_com(rec, d, m, 'single-unmasked-pixel')
    m = np.ones((4, 5), bool)
    m[:, 1] = False
    check_com(rec, d, m, 'single-unmasked-column')


# --------------------------------------------------------------------------------------------------
# B. centroid_quadratic returns the vertex of an exactly quadratic peak
# --------------------------------------------------------------------------------------------------
def _pair(v):
    return (v, v) if np.isscalar(v) else tuple(v)


def _round_half_away(v):
    return int(math.floor(v + 0.5)) if v >= 0 else -int(math.floor(-v + 0.5))


def quad_start_pixel(data, mask, xpeak, ypeak, search):
    """Start pixel by the documented rules; returns (xi, yi, ties)."""
    ny, nx = data.shape
    good = np.isfinite(data)
    if mask is not None:
        good &= ~mask
    if xpeak is None:
        win = (0, ny, 0, nx)
    else:
        xi, yi = _round_half_away(xpeak), _round_half_away(ypeak)
        if search is None:
            return xi, yi, False
        sy, sx = _pair(search)
        win = (max(yi - sy // 2, 0), min(yi + sy // 2 + 1, ny), max(xi - sx // 2, 0), min(xi + sx // 2 + 1, nx))
    best = None
    ties = False
    for i in range(win[0], win[1]):
        for j in range(win[2], win[3]):
            if not good[i, j]:
                continue
            if best is None or data[i, j] > best[0]:
                best = (data[i, j], j, i)
                ties = False
            elif data[i, j] == best[0]:
                ties = True
    if best is None:
        return None, None, True
    return best[1], best[2], ties


def quad_window(shape, xi, yi, fit):
    ny, nx = shape
    fy, fx = _pair(fit)
    fy, fx = min(fy, ny), min(fx, nx)
    x0 = min(max(xi - fx // 2, 0), nx - fx)
    y0 = min(max(yi - fy // 2, 0), ny - fy)
    return y0, y0 + fy, x0, x0 + fx


def quad_rank_ok(data, mask, win):
    y0, y1, x0, x1 = win
    rows = []
    for i in range(y0, y1):
        for j in range(x0, x1):
            if (mask is not None and mask[i, j]) or not math.isfinite(data[i, j]):
                continue
            rows.append([1.0, j, i, j * i, j * j, i * i])
    if len(rows) < 6:
        return False
    sv = np.linalg.svd(np.array(rows), compute_uv=False)
    return sv[-1] > 1e-6 * sv[0]


def check_quadratic(rec, shape, coef, vertex, fit, mode, nmask, seed, tag):
    """Exactly quadratic data -> vertex.  All inputs JSON-able for replay."""
    case = {'kind': 'quad', 'shape': list(shape), 'coef': list(coef), 'vertex': list(vertex),
            'fit': fit if np.isscalar(fit) else list(fit), 'mode': mode, 'nmask': nmask, 'seed': seed}
    ny, nx = shape
    a, b, c = coef
    x0, y0 = vertex
    yy, xx = np.mgrid[0:ny, 0:nx].astype(float)
    data = 10.0 - a * (xx - x0) ** 2 - b * (yy - y0) ** 2 - c * (xx - x0) * (yy - y0)
    rl = np.random.default_rng(seed)
    mask = None
    if nmask:
        mask = np.zeros(shape, bool)
        idx = rl.choice(ny * nx, size=min(abs(nmask), ny * nx - 6), replace=False)
        if nmask > 0:
            mask.flat[idx] = True
            data.flat[idx] = rl.choice([1e3, -1e3, np.nan, 37.0], size=len(idx))
        else:                                   # unmasked non-finite pixels (automatic masking)
            mask = None
            data.flat[idx] = np.nan
    kw = {'fit_boxsize': fit}
    pxi, pyi, _ = quad_start_pixel(data, mask, None, None, None)
    xpeak = ypeak = search = None
    if mode == 'peak':
        xpeak, ypeak = pxi, pyi
    elif mode == 'peak-frac':
        xpeak, ypeak = min(pxi + 0.3, nx - 1.0), max(pyi - 0.4, 0.0)
    elif mode.startswith('search'):
        search = int(mode[6:])
        if search > min(ny, nx):
            return                              # larger boxes are reset to the image size (not enumerated)
        h = search // 2
        xpeak = min(max(pxi + h, 0), nx - 1)
        ypeak = min(max(pyi - h, 0), ny - 1)
    elif mode == 'off-peak':                    # box centred one pixel beside the maximum, no search
        xpeak, ypeak = min(pxi + 1, nx - 1), max(pyi - 1, 0)
    if xpeak is not None:
        kw.update(xpeak=xpeak, ypeak=ypeak)
        if search is not None:
            kw['search_boxsize'] = search
    sxi, syi, ties = quad_start_pixel(data, mask, xpeak, ypeak, search)
    if sxi is None or ties:
        rec.case(('quad', tag), nontrivial=False, contract='quadratic==vertex')
        return
    edge = sxi in (0, nx - 1) or syi in (0, ny - 1)
    win = quad_window(shape, sxi, syi, fit)
    got = call('quadratic', data, mask, **kw)
    if isinstance(got[0], str):
        rec.case(('quad', tag), nontrivial=True, contract='quadratic==vertex')
        rec.check(False, 'quadratic/raises', f'centroid_quadratic raised {got[1]} ({tag}) kw={kw}', case)
        return
    if edge:
        rec.case(('quad', tag), nontrivial=False, contract='quadratic-edge-rule')
        rec.check(_same(got, (float(sxi), float(syi)), 0.0), 'quadratic/edge-rule-not-max-pixel',
                  f'max pixel on the border: got {got}, documented result is the pixel ({sxi},{syi}) ({tag})', case)
        return
    if not quad_rank_ok(data, mask, win):
        rec.case(('quad', tag), nontrivial=False, contract='quadratic==vertex')
        return
    rec.case(('quad', tag), nontrivial=True, contract='quadratic==vertex')
    rec.check(_same(got, (x0, y0), TOL['quadratic']), 'quadratic/not-vertex-of-exact-quadratic',
              f'centroid_quadratic {got} != vertex {(x0, y0)} shape={shape} coef={coef} kw={kw} nmask={nmask} ({tag})',
              case)


def part_quadratic(ctx):
    rec = Rec(ctx)
    shapes = [(3, 3), (4, 4), (5, 5), (5, 6), (6, 5), (7, 7), (8, 8), (7, 10), (9, 9),
              (3, 9), (9, 3), (4, 7)]
    coefs = [(1.0, 1.0, 0.0), (0.5, 2.0, 0.3), (1.2, 0.7, -0.9), (3.0, 0.2, 0.5)]
    modes = ['none', 'peak', 'peak-frac', 'search3', 'search5', 'off-peak']
    n = 0
    for si, shape in enumerate(shapes):
        ny, nx = shape

        def lat(m):
            vals = [1.0, 1.3, 1.5, (m - 1) / 2.0, (m - 1) / 2.0 + 0.37, m - 2.4, m - 2.0]
            return sorted({round(v, 6) for v in vals if 0.55 < v < m - 1.55})
        # a box larger than the image along an axis uses the whole axis (each axis clipped by its
        # own length: on non-square data the other axis keeps the requested size)
        fits = [f for f in (3, 5, 7, (3, 5), (5, 3))
                if min(_pair(f)[0], ny) * min(_pair(f)[1], nx) >= 6]
        for ci, coef in enumerate(coefs):
            for x0 in lat(nx):
                for y0 in lat(ny):
                    for fi, fit in enumerate(fits):
                        for mi, mode in enumerate(modes):
                            for nmask in (0, 1, 2, -1):
                                n += 1
                                if n % (3 if ctx.thorough else 29):
                                    continue
                                check_quadratic(rec, shape, coef, (x0, y0), fit, mode, nmask, n,
                                                (si, ci, x0, y0, fi, mode, nmask))


# --------------------------------------------------------------------------------------------------
# C. symmetric sources -> symmetry centre (all four functions)
# --------------------------------------------------------------------------------------------------
def lopsided(dx, dy, rng_par):
    """An arbitrary smooth, peaked, NOT symmetric function h(dx, dy)."""
    p = rng_par
    return (p[0] * np.exp(-0.5 * ((dx * p[6] + dy * p[7]) ** 2 / p[1] ** 2 + (-dx * p[7] + dy * p[6]) ** 2 / p[2] ** 2))
            + p[3] * np.exp(-0.5 * ((dx - p[4]) ** 2 + (dy - p[5]) ** 2) / 0.8 ** 2))


def symmetric_scene(shape, centre, par, noise_seed, sym_mask_pairs, with_error, bowl=0.0):
    """data = h(p-c) + h(c-p) + symmetric noise; mask = pixels whose mirror image is outside the cutout
    (+ optional symmetric pairs); error map symmetric.  Junk is stored under the mask."""
    ny, nx = shape
    cx, cy = centre
    yy, xx = np.mgrid[0:ny, 0:nx].astype(float)
    dx, dy = xx - cx, yy - cy
    data = lopsided(dx, dy, par) + lopsided(-dx, -dy, par)
    # an over-subtracted background: the source keeps its point symmetry and a positive total, its
    # wings become negative
    data = data - bowl * par[0]
    rl = np.random.default_rng(noise_seed)
    # symmetric noise / error: n(p) + n(mirror(p)) is point-symmetric by construction
    n1 = rl.uniform(0, 0.025 * par[0], shape)
    n2 = rl.uniform(0, 0.5, shape)
    err = np.zeros(shape)
    mask = np.zeros(shape, bool)
    for i in range(ny):
        for j in range(nx):
            mj, mi = 2 * cx - j, 2 * cy - i
            if not (0 <= mj <= nx - 1 and 0 <= mi <= ny - 1):
                mask[i, j] = True
                continue
            mj, mi = int(round(mj)), int(round(mi))
            data[i, j] += n1[i, j] + n1[mi, mj]
            err[i, j] = 0.3 + n2[i, j] + n2[mi, mj]
    for k in range(sym_mask_pairs):
        cand = np.argwhere(~mask)
        i, j = cand[rl.integers(len(cand))]
        mj, mi = int(round(2 * cx - j)), int(round(2 * cy - i))
        if (abs(i - cy) < 1.1 and abs(j - cx) < 1.1):
            continue                           # keep the core
        mask[i, j] = True
        mask[mi, mj] = True
    junk = rl.choice([1e4, -1e4, np.nan, np.inf, 3.0], size=int(mask.sum()))
    data[mask] = junk
    err[mask] = 1.0
    return data, (mask if mask.any() else None), (err if with_error else None)


def check_symmetric(rec, fn, shape, centre, par, noise_seed, pairs, with_error, kw, tag, bowl=0.0):
    case = {'kind': 'sym', 'fn': fn, 'shape': list(shape), 'centre': list(centre), 'par': list(par),
            'noise_seed': noise_seed, 'pairs': pairs, 'with_error': with_error, 'kw': kw, 'bowl': bowl}
    data, mask, err = symmetric_scene(shape, centre, par, noise_seed, pairs, with_error, bowl)
    nontriv = True
    kws = dict(kw)
    if 'fit_boxsize' in kws and not np.isscalar(kws['fit_boxsize']):
        kws['fit_boxsize'] = tuple(kws['fit_boxsize'])
    if fn == 'quadratic':
        # needs the maximum on the centre pixel (integer centre) and not on the border
        cx, cy = centre
        sxi, syi, ties = quad_start_pixel(data, mask, None, None, None)
        if (cx != int(cx) or cy != int(cy) or ties or (sxi, syi) != (int(cx), int(cy))
                or sxi in (0, shape[1] - 1) or syi in (0, shape[0] - 1)):
            rec.case(('sym', tag), nontrivial=False, contract='symmetric->centre')
            return
        fit = kws.get('fit_boxsize', 5)
        if _pair(fit)[0] > shape[0] or _pair(fit)[1] > shape[1]:
            rec.case(('sym', tag), nontrivial=False, contract='symmetric->centre')
            return
        win = quad_window(shape, sxi, syi, fit)
        # the unmasked part of the window must itself be point-symmetric about the centre
        pts = {(i, j) for i in range(win[0], win[1]) for j in range(win[2], win[3])
               if not (mask is not None and mask[i, j])}
        symw = all((int(2 * cy - i), int(2 * cx - j)) in pts for (i, j) in pts)
        if not symw or not quad_rank_ok(np.where(np.isfinite(data), data, 0.0), mask, win):
            rec.case(('sym', tag), nontrivial=False, contract='symmetric->centre')
            return
    if fn == '2dg' and (mask is not None and (~mask).sum() < 7):
        nontriv = False
    if kws.pop('half_peak', False):
        # a guess exactly half a pixel below the centre pixel in x and y: "the pixel containing
        # the position" rounds half away from zero, whatever the parity of the pixel index
        kws['xpeak'] = centre[0] - 0.5
        kws['ypeak'] = centre[1] - 0.5
    got = call(fn, data, mask, err, **kws)
    rec.case(('sym', tag), nontrivial=nontriv, contract='symmetric->centre')
    if not nontriv:
        return
    if isinstance(got[0], str):
        rec.check(False, f'symmetric/{fn}/raises', f'centroid_{fn} raised {got[1]} ({tag})', case)
        return
    rec.check(_same(got, (float(centre[0]), float(centre[1])), TOL[fn]), f'symmetric/{fn}/not-symmetry-centre',
              f'centroid_{fn} {got} != symmetry centre {centre} shape={shape} err={with_error} kw={kw} ({tag})', case)


def part_symmetric(ctx):
    rec = Rec(ctx)
    rng = ctx.rng
    cfgs = []
    for shape in [(5, 5), (6, 6), (7, 7), (7, 8), (8, 7), (9, 9), (10, 10), (9, 12), (12, 9), (11, 11)]:
        cfgs.append((shape, ((shape[1] - 1) / 2.0, (shape[0] - 1) / 2.0)))
    # peaks near the border: symmetric after masking the pixels without mirror image
    for shape, c in [((11, 11), (2.0, 3.0)), ((11, 11), (1.0, 1.0)), ((10, 12), (9.0, 7.0)), ((10, 12), (10.0, 2.0)),
                     ((9, 9), (1.5, 2.5)), ((10, 10), (7.5, 7.5)), ((9, 11), (2.0, 6.5)), ((12, 12), (3.0, 8.0))]:
        cfgs.append((shape, c))
    npar = 3 if ctx.thorough else 1
    for gi, (shape, centre) in enumerate(cfgs):
        for pi in range(npar):
            th = rng.uniform(0, math.pi)
            par = [float(rng.uniform(20, 60)), float(rng.uniform(0.9, 1.6)), float(rng.uniform(0.8, 1.3)),
                   float(rng.uniform(1.0, 4.0)), float(rng.uniform(-1.5, 1.5)), float(rng.uniform(-1.5, 1.5)),
                   math.cos(th), math.sin(th)]
            seed = int(rng.integers(1 << 30))
            for pairs in (0, 2):
                for fn in ('com', 'quadratic', '1dg', '2dg'):
                    if fn == 'quadratic':
                        kwl = [{}, {'fit_boxsize': 3}, {'fit_boxsize': [3, 5]}, {'fit_boxsize': 7},
                               {'half_peak': True}, {'half_peak': True, 'fit_boxsize': 3}]
                    else:
                        kwl = [{}]
                    for kw in kwl:
                        for with_error in ((False, True) if fn in ('1dg', '2dg') else (False,)):
                            check_symmetric(rec, fn, shape, centre, par, seed, pairs, with_error, kw,
                                            (gi, pi, pairs, fn, str(kw), with_error))
    # negative wings (over-subtracted background) on centred sources: the total stays positive, the
    # flux-weighted second moment of the marginals does not
    th = 0.7
    par = [40.0, 1.3, 1.0, 2.0, 0.5, -0.7, math.cos(th), math.sin(th)]
    for shape, bowl in (((15, 15), 0.04), ((15, 21), 0.04), ((21, 15), 0.04), ((11, 11), 0.08), ((21, 21), 0.04)):
        centre = ((shape[1] - 1) / 2.0, (shape[0] - 1) / 2.0)
        for fn in ('com', '1dg', '2dg'):
            check_symmetric(rec, fn, shape, centre, par, 1, 0, False, {}, ('bowl', shape, bowl, fn), bowl=bowl)


# --------------------------------------------------------------------------------------------------
# D/E. commutation with flips, transposition, positive rescaling; masked values ignored
# --------------------------------------------------------------------------------------------------
def asym_scene(name, seed):
    rl = np.random.default_rng(seed)
    if name == 'blob':
        shape = (11, 13)
        d = gauss(shape, 6.3, 4.6, 1.8, 1.2, 0.7, 10) + gauss(shape, 7.5, 5.5, 1, 1, 0, 3) + 0.02 * rl.random(shape)
    elif name == 'even':
        shape = (10, 8)
        d = gauss(shape, 3.2, 5.4, 1.3, 1.6, 0.2, 25) + gauss(shape, 4.4, 4.1, 0.9, 0.9, 0, 6) + 0.05 * rl.random(shape)
    elif name == 'near-edge':
        shape = (9, 9)
        d = gauss(shape, 2.2, 6.1, 1.2, 1.0, 1.1, 40) + gauss(shape, 3.0, 5.2, 1.0, 1.0, 0, 5) + 0.05 * rl.random(shape)
    else:
        raise ValueError(name)
    mask = rl.random(shape) < 0.12
    pk = np.unravel_index(np.argmax(d), shape)
    mask[max(pk[0] - 1, 0):pk[0] + 2, max(pk[1] - 1, 0):pk[1] + 2] = False   # keep the core
    err = 0.5 + rl.random(shape)
    return d, mask, err


TRANS = {
    'flipx': (lambda a: a[:, ::-1], lambda p, s: (s[1] - 1 - p[0], p[1])),
    'flipy': (lambda a: a[::-1, :], lambda p, s: (p[0], s[0] - 1 - p[1])),
    'flipxy': (lambda a: a[::-1, ::-1], lambda p, s: (s[1] - 1 - p[0], s[0] - 1 - p[1])),
    'transpose': (lambda a: a.T, lambda p, s: (p[1], p[0])),
}


def check_commute(rec, fn, scene, seed, use_mask, use_err, kw, tname, tag):
    case = {'kind': 'commute', 'fn': fn, 'scene': scene, 'seed': seed, 'use_mask': use_mask, 'use_err': use_err,
            'kw': kw, 'tname': tname}
    d, mask, err = asym_scene(scene, seed)
    if not use_mask:
        mask = None
    else:
        d = d.copy()
        d[mask] = 777.0
    if not use_err:
        err = None
    kws = {k: (tuple(v) if isinstance(v, list) else v) for k, v in kw.items()}
    if kws.pop('peak', False):
        dd = np.where(mask, -np.inf, d) if mask is not None else d
        pk = np.unravel_index(np.argmax(dd), d.shape)
        kws['xpeak'], kws['ypeak'] = int(pk[1]), int(pk[0])
    base = call(fn, d, mask, err, **kws)
    if isinstance(base[0], str):
        rec.case(('commute', tag), nontrivial=True, contract='commutes-with-transform')
        rec.check(False, f'commute/{fn}/raises', f'centroid_{fn} raised {base[1]} ({tag})', case)
        return
    nontriv = not (math.isnan(base[0]) or math.isnan(base[1]))
    rec.case(('commute', tag), nontrivial=nontriv, contract='commutes-with-transform')
    if tname.startswith('scale'):
        k = float(tname[5:])
        got = call(fn, d * k, mask, err, **kws)
        exp = base
    else:
        T, P = TRANS[tname]
        k2 = dict(kws)
        if 'xpeak' in k2:
            k2['xpeak'], k2['ypeak'] = P((kws['xpeak'], kws['ypeak']), d.shape)
        if tname == 'transpose':
            for nm in ('fit_boxsize', 'search_boxsize'):
                if nm in k2 and not np.isscalar(k2[nm]):
                    k2[nm] = tuple(k2[nm])[::-1]
        got = call(fn, np.ascontiguousarray(T(d)), None if mask is None else np.ascontiguousarray(T(mask)),
                   None if err is None else np.ascontiguousarray(T(err)), **k2)
        exp = P(base, d.shape) if nontriv else base
    ok = (not isinstance(got[0], str)) and _same(got, exp, TOL_COMMUTE[fn])
    rec.check(ok, f'commute/{fn}/{"rescale" if tname.startswith("scale") else tname}',
              f'centroid_{fn}: result on {tname} input {got} != transformed result {exp} (base {base}) ({tag})', case)


def check_maskblind(rec, fn, scene, seed, use_err, kw, tag):
    case = {'kind': 'maskblind', 'fn': fn, 'scene': scene, 'seed': seed, 'use_err': use_err, 'kw': kw}
    d, mask, err = asym_scene(scene, seed)
    if not use_err:
        err = None
    kws = {k: (tuple(v) if isinstance(v, list) else v) for k, v in kw.items()}
    rl = np.random.default_rng(seed + 1)
    n = int(mask.sum())
    fills = [np.zeros(n), np.full(n, 1e30), np.full(n, -50.0), np.full(n, np.nan), np.full(n, np.inf),
             rl.normal(0, 100, n)]
    res = []
    for f in fills:
        dd = d.copy()
        dd[mask] = f
        res.append(call(fn, dd, mask.copy(), err, **kws))
    if err is not None and n > 0:
        # the error values of masked pixels are masked values too (a hot pixel has a huge error)
        for ef in (np.full(n, 250.0), np.full(n, 1e-3), rl.uniform(0.1, 50.0, n)):
            ee = np.array(err, dtype=float, copy=True)
            ee[mask] = ef
            res.append(call(fn, d.copy(), mask.copy(), ee, **kws))
    rec.case(('maskblind', tag), nontrivial=n > 0, contract='masked-values-ignored')
    ok = all(_same(res[0], r, TOL_SAME[fn]) for r in res[1:]) and not isinstance(res[0][0], str)
    rec.check(ok, f'masked-values-not-ignored/{fn}',
              f'centroid_{fn} depends on the values of masked pixels: {res} ({tag})', case)


def part_commute(ctx):
    rec = Rec(ctx)
    seed0 = int(ctx.rng.integers(1 << 30))
    tnames = ['flipx', 'flipy', 'flipxy', 'transpose', 'scale0.5', 'scale3.7', 'scale1000']
    for si, scene in enumerate(['blob', 'even', 'near-edge']):
        for fn in ('com', 'quadratic', '1dg', '2dg'):
            if fn == 'quadratic':
                kwl = [{}, {'fit_boxsize': 3}, {'fit_boxsize': [3, 5]}, {'peak': True},
                       {'peak': True, 'search_boxsize': [3, 5], 'fit_boxsize': [5, 3]}]
            else:
                kwl = [{}]
            for ki, kw in enumerate(kwl):
                for use_mask in (False, True):
                    for use_err in ((False, True) if fn in ('1dg', '2dg') else (False,)):
                        # extreme but valid flux scales (SI units, raw counts): only for the
                        # closed-form centroids, the Gaussian fitters have their own tolerances
                        extra = ['scale1e-12', 'scale1e-26', 'scale1e+15'] \
                            if fn in ('com', 'quadratic') else []
                        for tn in tnames + extra:
                            check_commute(rec, fn, scene, seed0 + si, use_mask, use_err, kw, tn,
                                          (scene, fn, ki, use_mask, use_err, tn))
                for use_err in ((False, True) if fn in ('1dg', '2dg') else (False,)):
                    kw2 = {k: v for k, v in kw.items() if k != 'peak'}
                    check_maskblind(rec, fn, scene, seed0 + si, use_err, kw2, (scene, fn, ki, use_err))


# --------------------------------------------------------------------------------------------------
# F. centroid_sources == centroid function on each position's own cutout
# --------------------------------------------------------------------------------------------------
POS = [(8.0, 7.0), (20.3, 9.6), (14.7, 20.2), (27.0, 24.0), (2.0, 3.0), (31.6, 27.8), (9.2, 22.9)]


def sources_scene(seed):
    rl = np.random.default_rng(seed)
    shape = (30, 34)
    d = 0.05 * rl.normal(0, 1, shape)
    for k, (x, y) in enumerate(POS):
        d += gauss(shape, x + 0.3 * math.sin(k), y + 0.25 * math.cos(2 * k), 1.3 + 0.1 * k, 1.1 + 0.05 * k,
                   0.3 * k, 30.0 + 7 * k)
    mask = rl.random(shape) < 0.03
    mask[12:14, 15:18] = True
    for (x, y) in POS:                                    # keep the cores unmasked
        mask[int(y) - 1:int(y) + 2, int(x) - 1:int(x) + 2] = False
    err = 0.4 + rl.random(shape)
    return d, mask, err


def footprint_of(spec):
    if isinstance(spec, (int, list, tuple)):
        by, bx = _pair(spec) if not isinstance(spec, list) else tuple(spec)
        return np.ones((by, bx), bool)
    if spec == 'disk7':
        yy, xx = np.mgrid[-3:4, -3:4]
        return (xx * xx + yy * yy) <= 9
    if spec == 'cross9x7':
        fp = np.zeros((9, 7), bool)
        fp[3:6, :] = True
        fp[:, 2:5] = True
        return fp
    raise ValueError(spec)


def own_cutout_call(fn, data, mask, err, fp, xp, yp, kw):
    """The statement's right-hand side: the centroid function on this position's cutout."""
    ny, nx = data.shape
    fy, fx = fp.shape
    # footprint-shaped window centred on the position (odd sizes): first index = ceil(p - size/2)
    y0 = int(math.ceil(yp - fy / 2.0))
    x0 = int(math.ceil(xp - fx / 2.0))
    y1, x1 = y0 + fy, x0 + fx
    ys, xs = max(y0, 0), max(x0, 0)
    ye, xe = min(y1, ny), min(x1, nx)
    cut = data[ys:ye, xs:xe]
    fpc = fp[ys - y0:ye - y0, xs - x0:xe - x0]
    m = ~fpc
    if mask is not None:
        m = m | mask[ys:ye, xs:xe]
    kws = {}
    sig = {'com': (), 'quadratic': ('xpeak', 'ypeak', 'fit_boxsize', 'search_boxsize'),
           '1dg': ('error',), '2dg': ('error',)}[fn]
    for k, v in kw.items():
        if k in sig:
            kws[k] = v
    e = None
    if err is not None and 'error' in sig:
        e = err[ys:ye, xs:xe]
    if kws.get('xpeak') is not None and kws.get('ypeak') is not None:
        kws['xpeak'] = kws['xpeak'] - xs
        kws['ypeak'] = kws['ypeak'] - ys
    else:
        kws.pop('xpeak', None)
        kws.pop('ypeak', None)
    r = call(fn, cut, m, e, **kws)
    if isinstance(r[0], str):
        # documented: NaN where the centroid failed (ValueError/TypeError inside the function)
        return (float('nan'), float('nan'))
    return (r[0] + xs, r[1] + ys)


def check_sources(rec, fn, seed, boxspec, use_mask, use_err, kw, orders, tag):
    from photutils.centroids import centroid_sources
    case = {'kind': 'sources', 'fn': fn, 'seed': seed, 'box': boxspec, 'use_mask': use_mask, 'use_err': use_err,
            'kw': kw, 'orders': [list(o) for o in orders]}
    data, mask, err = sources_scene(seed)
    if not use_mask:
        mask = None
    if not use_err:
        err = None
    kws = {k: (tuple(v) if isinstance(v, list) else v) for k, v in kw.items()}
    fp = footprint_of(boxspec)
    args = {}
    if isinstance(boxspec, str):
        args['footprint'] = fp
        fp_in = fp.copy()
    else:
        args['box_size'] = boxspec if isinstance(boxspec, int) else tuple(boxspec)
    if err is not None:
        kws_call = dict(kws, error=err)
    else:
        kws_call = dict(kws)
    snap = (data.copy(), None if mask is None else mask.copy(), None if err is None else err.copy())
    expected = [own_cutout_call(fn, data, mask, err, fp, x, y, kws) for (x, y) in POS]
    tol = TOL_SAME[fn]
    f = _funcs()[fn]
    for order in orders:
        xs = [POS[i][0] for i in order]
        ys = [POS[i][1] for i in order]
        try:
            gx, gy = centroid_sources(data, xs, ys, mask=mask, centroid_func=f, **args, **kws_call)
        except Exception as exc:  # noqa: BLE001
            rec.case(('sources', tag, tuple(order)), nontrivial=True, contract='sources==per-cutout-call')
            rec.check(False, f'sources/{fn}/raises', f'centroid_sources raised {type(exc).__name__}: {exc} ({tag})',
                      case)
            continue
        exp = [expected[i] for i in order]
        nontriv = any(not math.isnan(e[0]) for e in exp)
        rec.case(('sources', tag, tuple(order)), nontrivial=nontriv, contract='sources==per-cutout-call')
        bad = [(k, order[k], (float(gx[k]), float(gy[k])), exp[k]) for k in range(len(order))
               if not _same((float(gx[k]), float(gy[k])), exp[k], tol)]
        if len(order) == 1:
            key = f'sources/{fn}/single-position-differs-from-cutout-call'
        elif bad and all(b[0] > 0 for b in bad):
            key = f'sources/{fn}/later-positions-differ-from-cutout-call'
        else:
            key = f'sources/{fn}/multi-position-differs-from-cutout-call'
        rec.check(not bad, key,
                  f'centroid_sources({fn}, order={list(order)}, box={boxspec}, mask={use_mask}, error={use_err}, '
                  f'kw={kw}): (slot, position index, got, expected-from-own-cutout) = {bad[:3]} ({tag})', case)
    same_in = (np.array_equal(data, snap[0]) and (mask is None or np.array_equal(mask, snap[1]))
               and (err is None or np.array_equal(err, snap[2])) and (not isinstance(boxspec, str) or np.array_equal(fp, fp_in)))
    rec.check(same_in, f'sources/{fn}/input-modified', f'centroid_sources modified an input array ({tag})', case)


def part_sources(ctx):
    rec = Rec(ctx)
    seed = int(ctx.rng.integers(1 << 30))
    n = len(POS)
    full = list(range(n))
    orders = [full, full[::-1], full[3:] + full[:3], [2, 2, 5, 0, 2]] + [[i] for i in range(n)] + [[4, 1], [1, 4]]
    if ctx.thorough:
        rl = np.random.default_rng(5)
        orders += [list(rl.permutation(n)) for _ in range(6)] + [[6, 0, 6], [5], [3, 4, 5]]
        orders = [[int(i) for i in o] for o in orders]
    cfg = []
    for box in (5, 7, [5, 9], 'disk7'):
        for um in (False, True):
            cfg.append(('com', box, um, False, {}))
    cfg.append(('com', 7, True, True, {}))                # error keyword is dropped for centroid_com
    for box in (7, 9, [7, 9], 'cross9x7'):
        for um in (False, True):
            for kw in ({}, {'fit_boxsize': 3}, {'xpeak': 20, 'ypeak': 10}, {'xpeak': 15.2, 'ypeak': 20.4, 'fit_boxsize': [3, 5]},
                       {'xpeak': 9, 'ypeak': 6, 'search_boxsize': 3}, {'xpeak': 27, 'ypeak': 24, 'search_boxsize': [5, 3], 'fit_boxsize': 3},
                       {'xpeak': 8, 'ypeak': None}):
                cfg.append(('quadratic', box, um, False, kw))
    for fn in ('1dg', '2dg'):
        for box in (9, 11, [9, 7], 'disk7'):
            for um in (False, True):
                for ue in (False, True):
                    cfg.append((fn, box, um, ue, {}))
    for ci, (fn, box, um, ue, kw) in enumerate(cfg):
        if not ctx.thorough and fn in ('1dg', '2dg') and box in (11,) and not (um and ue):
            continue
        check_sources(rec, fn, seed, box, um, ue, kw, orders, (ci, fn, str(box), um, ue, str(kw)))


# --------------------------------------------------------------------------------------------------
def run(ctx):
    part_com(ctx)
    part_quadratic(ctx)
    part_symmetric(ctx)
    part_commute(ctx)
    part_sources(ctx)
    ctx.note('centroid_quadratic on even cutouts is exercised with exactly quadratic peaks whose vertex is at a '
             'half-integer (point-symmetric about the vertex): an odd fit box cannot be symmetric about a half-integer '
             'centre, so non-quadratic symmetric sources are checked for quadratic on integer centres only.')


def replay(case):
    rec = Rec(None)
    k = case.get('kind')
    try:
        if k == 'com':
            check_com(rec, _A(case['data']), _A(case['mask'], bool), 'replay')
        elif k == 'quad':
            fit = case['fit'] if np.isscalar(case['fit']) else tuple(case['fit'])
            check_quadratic(rec, tuple(case['shape']), tuple(case['coef']), tuple(case['vertex']), fit, case['mode'],
                            case['nmask'], case['seed'], 'replay')
        elif k == 'sym':
            check_symmetric(rec, case['fn'], tuple(case['shape']), tuple(case['centre']), case['par'],
                            case['noise_seed'], case['pairs'], case['with_error'], case['kw'], 'replay',
                            bowl=case.get('bowl', 0.0))
        elif k == 'commute':
            check_commute(rec, case['fn'], case['scene'], case['seed'], case['use_mask'], case['use_err'], case['kw'],
                          case['tname'], 'replay')
        elif k == 'maskblind':
            check_maskblind(rec, case['fn'], case['scene'], case['seed'], case['use_err'], case['kw'], 'replay')
        elif k == 'sources':
            check_sources(rec, case['fn'], case['seed'], case['box'], case['use_mask'], case['use_err'], case['kw'],
                          case['orders'], 'replay')
        else:
            return 'error', f'unknown kind {k}', None
    except Exception as exc:  # noqa: BLE001
        return 'error', f'{type(exc).__name__}: {exc}', None
    if rec.fails:
        return 'confirmed', rec.fails[0][1][:500], [f[0] for f in rec.fails]
    return 'spurious', 'all contracts hold on replay', None
