"""C12 -- PSF photometry recovers rendered scenes and keeps its bookkeeping straight (bounded rtc driver).

Three families of cases, each a pure function of a JSON-able dict (``_KINDS``):

* ``grouper``  SourceGrouper(min_separation)(x, y) against brute-force single linkage (union-find over
               all pairs with sqrt(dx^2+dy^2) <= min_separation) with first-appearance labels.
* ``scene``    a noise-free scene rendered from the PSF model; PSFPhotometry is run on it (then again on
               permuted rows, on the scene scaled by 4, through IterativePSFPhotometry(maxiters=1) and
               after a call that supplied group_id) and the table is compared with the truth and with
               explicit oracles for ids / groups / npixfit / flags / cfit.
* ``fixed`` / ``finder``  fixed parameters keep their initial value; finder-driven runs.

Recovery (x, y, flux == truth) is asserted only where the statement promises it: the fitted model
matches the data on the fitted pixels, i.e. every source whose light reaches a fit window
(contamination > 1e-9 of the source flux) is fitted in the same group, no corrupted pixel is left
unmasked and no bound is hit.  Starting points are (a) the truth itself -- required of every such
scene, however crowded -- and (b) a seeded offset of up to 0.4 px / 10-20 % in flux for scenes in
the conditioned domain (pairs >= 0.5 px apart, larger groups >= 0.8 fwhm apart).
"""
import itertools
import json
import math

import numpy as np

BOUNDS = (
    "Grouper: every non-empty subset of <= 6 points of the 3x3 integer lattice (thorough: 4x4) in sorted, "
    "reversed and one seeded order, plus the same subsets scaled by 2.5 (half-integer distances) and with a "
    "duplicated point, x min_separation in {1, sqrt2, 1.5, 2, 2.5, 5} (all six for subsets of <= 3 (thorough: 4) points, three of them in rotation for larger ones; ties at exactly min_separation are "
    "linked, the documented `fcluster` rule `<=`; the class docstring only promises `<`), x/y given as lists, "
    "arrays and Table columns; N=1.  Scenes: image 35x45 , 1-6 sources, types {isolated "
    "(>= 15 px apart), pair at 0.5/0.7/1/1.5/2/3/5 px, chain of 3-6 at 0.8/1/1.5 fwhm, dense chain of 3-6 at "
    "0.5 px, two interleaved groups, edge (centres 0.2-1.5 px from / up to 1.3 px outside the border)} x models "
    "{CircularGaussianPRF fwhm 1.6/2.5/3.5, GaussianPRF (2,3,theta 0/30), ImagePSF sampled from a Gaussian "
    "(25x25 os 1, 51x51 os 2), GriddedPSFModel 2x2 of Gaussians} x fit_shape {3,5,7,(5,7),(7,3)} x grouping "
    "{none, SourceGrouper, supplied group_id (relabelled/interleaved e.g. [2,1,2], all-in-one, split)} x mask "
    "{none, corrupted pixels masked, NaN pixels, NaN pixels + mask, centre pixel masked} x error {none, flat, "
    "random, 1e12 on corrupted unmasked pixels} x local background {none, local_bkg column, LocalBackground "
    "estimator} x xy_bounds {none, 1.0, (0.05, None) [hit], (1.0, 0.05) [hit], (None, 0.05) [hit]} x column naming {x/y/flux, *_init, *_0, "
    "xcentroid/ycentroid + aperture flux} x one seeded row permutation; tolerances |x,y - truth| <= 1e-6, "
    "|flux/truth - 1| <= 1e-6, residual image <= 1e-6 * peak (the parameter tolerance propagated), "
    "permuted/scaled runs 2e-6, *_err columns on perturbed data (amplitude 2e-3 peak, conditioned scenes only) permutation-covariant to 1e-3, IterativePSFPhotometry(maxiters=1) bitwise equal; npixfit/flags/ids/group "
    "columns exact.  Flag 2 is only asserted where unambiguous (set if the fitted centre is < -0.5 or > n; "
    "clear if inside [0, n-1]).")

RULE = (
    "Grouper cases are exhaustive over the stated lattice subsets.  Scene cases enumerate scene type x model x "
    "grouping mode; the remaining options cycle through their value sets with strides coprime to the loop "
    "lengths and positions/fluxes/offsets/masked pixels come from ctx.rng; every generated number is stored in "
    "the case so that replay is deterministic.  A case is distinct iff its dict differs; a scene case is "
    "non-trivial iff it has >= 1 source (all have); grouper cases with N = 1 are trivial.")


# ----------------------------------------------------------------------------------------------
# oracles
# ----------------------------------------------------------------------------------------------
def single_linkage(xs, ys, t):
    """Brute-force single-linkage clusters (pairs with distance <= t linked), first-appearance ids."""
    n = len(xs)
    parent = list(range(n))

    def find(a):
        while parent[a] != a:
            parent[a] = parent[parent[a]]
            a = parent[a]
        return a
    for i in range(n):
        for j in range(i + 1, n):
            dx, dy = xs[i] - xs[j], ys[i] - ys[j]
            if math.sqrt(dx * dx + dy * dy) <= t:
                parent[find(i)] = find(j)
    lab, out = {}, []
    for i in range(n):
        r = find(i)
        if r not in lab:
            lab[r] = len(lab) + 1
        out.append(lab[r])
    return out


def window(n, pos, size):
    lo = math.ceil(pos - size / 2.0)
    return [j for j in range(n) if lo <= j < lo + size]


def k_grouper(c):
    from astropy.table import Table
    from photutils.psf import SourceGrouper
    xs, ys, t = c['x'], c['y'], c['t']
    exp = single_linkage(xs, ys, t)
    g = SourceGrouper(t)
    form = c.get('form', 'list')
    if form == 'array':
        got = g(np.array(xs, float), np.array(ys, float))
    elif form == 'table':
        tb = Table({'x': np.array(xs, float), 'y': np.array(ys, float)})
        got = g(tb['x'], tb['y'])
    else:
        got = g(list(xs), list(ys))
    got = [int(v) for v in np.asarray(got).ravel()]
    tie = any(math.sqrt((xs[i] - xs[j]) ** 2 + (ys[i] - ys[j]) ** 2) == t
              for i in range(len(xs)) for j in range(i))
    key = 'grouper/tie-at-min-separation' if (tie and got != exp) else 'grouper/single-linkage-first-appearance'
    return [(got == exp, key, f'SourceGrouper({t})(x={xs}, y={ys}) = {got}, single-linkage oracle {exp}',
             {'got': got, 'expected': exp})]


# ----------------------------------------------------------------------------------------------
# models and scenes
# ----------------------------------------------------------------------------------------------
_MODEL_CACHE = {}
K = 2.0 * math.sqrt(2.0 * math.log(2.0))


def build_model(spec, shape):
    import photutils.psf as P
    key = json.dumps([spec, shape], sort_keys=True)
    if key in _MODEL_CACHE:
        return _MODEL_CACHE[key].copy()
    n = spec['name']
    if n == 'cgprf':
        m = P.CircularGaussianPRF(fwhm=spec['fwhm'])
    elif n == 'gprf':
        m = P.GaussianPRF(x_fwhm=spec['x_fwhm'], y_fwhm=spec['y_fwhm'], theta=spec['theta'])
    elif n == 'imagepsf':
        os_, npx = spec['os'], spec['n']
        c0 = (npx - 1) / 2.0
        jj, ii = np.mgrid[0:npx, 0:npx]
        s = spec['fwhm'] / K
        d = np.exp(-0.5 * (((ii - c0) / os_) ** 2 + ((jj - c0) / os_) ** 2) / s ** 2) / (2 * math.pi * s * s)
        m = P.ImagePSF(d, oversampling=os_)
    elif n == 'gridded':
        from astropy.nddata import NDData
        os_, npx = spec['os'], spec['n']
        c0 = (npx - 1) / 2.0
        jj, ii = np.mgrid[0:npx, 0:npx]
        ny, nx = shape
        pos = [(0.0, 0.0), (nx - 1.0, 0.0), (0.0, ny - 1.0), (nx - 1.0, ny - 1.0)]
        arrs = []
        for fw in (2.0, 2.4, 2.8, 3.2):
            s = fw / K
            arrs.append(np.exp(-0.5 * (((ii - c0) / os_) ** 2 + ((jj - c0) / os_) ** 2) / s ** 2) / (2 * math.pi * s * s))
        m = P.GriddedPSFModel(NDData(np.array(arrs), meta={'grid_xypos': pos, 'oversampling': os_}))
    else:
        raise KeyError(n)
    _MODEL_CACHE[key] = m
    return m.copy()


def model_fwhm(spec):
    if spec['name'] == 'gprf':
        return max(spec['x_fwhm'], spec['y_fwhm'])
    if spec['name'] == 'gridded':
        return 3.2
    return spec['fwhm']


def render_each(model, src, shape):
    yy, xx = np.mgrid[0:shape[0], 0:shape[1]]
    out = []
    for (x, y, f) in src:
        m = model.copy()
        m.x_0, m.y_0, m.flux = x, y, f
        out.append(np.asarray(m(xx, yy), float))
    return out


_STYLES = [('x', 'y', 'flux'), ('x_init', 'y_init', 'flux_init'), ('x_0', 'y_0', 'flux_0'),
           ('xcentroid', 'ycentroid', None)]


def _init_table(c, order=None, scale=1.0):
    from astropy.table import Table
    xn, yn, fn = _STYLES[c.get('style', 0)]
    idx = list(range(len(c['sources']))) if order is None else list(order)
    t = Table()
    t[xn] = np.array([c['init'][i][0] for i in idx], float)
    t[yn] = np.array([c['init'][i][1] for i in idx], float)
    if fn is not None:
        t[fn] = np.array([c['init'][i][2] * scale for i in idx], float)
    if c['bkgmode'] == 'column':
        t['local_bkg'] = np.full(len(idx), c['bkg'] * scale)
    if c['grouping']['mode'] == 'ids':
        t['group_id'] = np.array([c['grouping']['ids'][i] for i in idx], int)
    return t


def _make_phot(c, model, cls='psf'):
    from photutils.background import LocalBackground
    from photutils.psf import IterativePSFPhotometry, PSFPhotometry, SourceGrouper
    g = c['grouping']
    grouper = SourceGrouper(g['minsep']) if g.get('minsep') is not None else None
    lbe = LocalBackground(*c['lbe']) if c['bkgmode'] == 'estimator' else None
    fs = c['fit_shape']
    fs = fs if np.isscalar(fs) else tuple(fs)
    b = c.get('xy_bounds')
    b = None if b is None else (b if np.isscalar(b) else tuple(b))
    kw = dict(grouper=grouper, localbkg_estimator=lbe, xy_bounds=b, aperture_radius=c.get('aper', 3.0))
    if cls == 'iter':
        from photutils.detection import DAOStarFinder
        return IterativePSFPhotometry(model, fs, DAOStarFinder(threshold=1e30, fwhm=2.0), maxiters=1, **kw), grouper
    return PSFPhotometry(model, fs, **kw), grouper


def _expected_groups(c, order):
    g = c['grouping']
    n = len(order)
    if g['mode'] == 'ids':
        return [g['ids'][i] for i in order]
    if g['mode'] == 'grouper':
        return single_linkage([c['init'][i][0] for i in order], [c['init'][i][1] for i in order], g['minsep'])
    return list(range(1, n + 1))


def _colval(col):
    return np.asarray(getattr(col, 'value', col))


def _tables_equal(a, b, skip=()):
    if a is None or b is None:
        return a is b, 'one table is None'
    for cn in a.colnames:
        if cn in skip:
            continue
        if cn not in b.colnames:
            return False, f'column {cn} missing'
        va, vb = _colval(a[cn]), _colval(b[cn])
        if va.shape != vb.shape:
            return False, f'column {cn} shape'
        if va.dtype.kind in 'fc':
            if not np.array_equal(va, vb, equal_nan=True):
                return False, f'column {cn}: {va.tolist()} vs {vb.tolist()}'
        elif not np.array_equal(va, vb):
            return False, f'column {cn}: {va.tolist()} vs {vb.tolist()}'
    return True, ''


def k_scene(c):
    shape = tuple(c['shape'])
    ny, nx = shape
    src = [tuple(s) for s in c['sources']]
    N = len(src)
    model = build_model(c['model'], list(shape))
    each = render_each(model, src, shape)
    clean = np.sum(each, axis=0) + c['bkg']
    peak = float(np.max(clean - c['bkg']))
    data = clean.copy()
    for (j, i) in c.get('corrupt', []):
        data[j, i] += 50.0 * peak + 7.0
    for (j, i) in c.get('nanpix', []):
        data[j, i] = np.nan
    mask = None
    if c['maskmode'] in ('pixels', 'nan+mask', 'centre'):
        mask = np.zeros(shape, bool)
        for (j, i) in c.get('maskpix', []):
            mask[j, i] = True
    error = None
    if c['errmode'] == 'flat':
        error = np.full(shape, 2.0)
    elif c['errmode'] in ('random', 'huge'):
        error = 0.5 + np.random.default_rng(c['eseed']).random(shape)
        if c['errmode'] == 'huge':
            for (j, i) in c.get('errpix', []):
                error[j, i] = 1e12
    ignored = ~np.isfinite(data)
    if mask is not None:
        ignored |= mask
    fs = c['fit_shape']
    fsy, fsx = (fs, fs) if np.isscalar(fs) else fs
    order0 = list(range(N))
    desc = f'scene {json.dumps({k: v for k, v in c.items() if k not in ("eseed",)}, default=str)}'
    out = []
    nanmask = c['maskmode'] == 'nan+mask'

    # windows, npixfit and contamination per source (explicit pixel sets)
    wins = []
    for (x, y, _f) in c['init']:
        js, is_ = window(ny, y, fsy), window(nx, x, fsx)
        pix = [(j, i) for j in js for i in is_ if not ignored[j, i]]
        wins.append(pix)
    unmasked_bad = set(map(tuple, c.get('corrupt', []))) - set(map(tuple, c.get('maskpix', []))) \
        - set(map(tuple, c.get('nanpix', []))) - (set(map(tuple, c.get('errpix', []))) if c['errmode'] == 'huge' else set())
    groups0 = _expected_groups(c, order0)
    matched = True
    for k in range(N):
        cont = 0.0
        for l in range(N):
            if groups0[l] != groups0[k]:
                cont += sum(abs(each[l][j, i]) for (j, i) in wins[k])
        if cont > 1e-9 * abs(src[k][2]):
            matched = False
        if any(p in unmasked_bad for p in wins[k]):
            matched = False
    bounds_hit = c.get('bounds_hit', False)
    expect_recovery = matched and not bounds_hit and (c['start'] == 'truth' or c.get('conditioned', False))
    if c['bkgmode'] == 'estimator' and not c.get('lbe_clean', True):
        expect_recovery = False

    def run(phot, order, scale=1.0, dat=None):
        t = _init_table(c, order, scale)
        d = (data if dat is None else dat)
        kw = {}
        if mask is not None:
            kw['mask'] = mask.copy()
        if error is not None:
            kw['error'] = error * scale
        return phot(d * scale, init_params=t, **kw), t

    def check_table(res, order, label, scale=1.0, recov=expect_recovery, tol=1e-6):
        o = []
        n = len(order)
        if res is None or len(res) != n:
            return [(False, 'table/row-count', f'{desc} [{label}]: {None if res is None else len(res)} rows for {n} sources', None)]
        ids = [int(v) for v in res['id']]
        o.append((ids == list(range(1, n + 1)), 'table/ids', f'{desc} [{label}]: ids {ids}', {'ids': ids}))
        xi = [float(v) for v in _colval(res['x_init'])]
        yi = [float(v) for v in _colval(res['y_init'])]
        o.append((xi == [c['init'][i][0] for i in order] and yi == [c['init'][i][1] for i in order], 'table/row-order',
                  f'{desc} [{label}]: x_init/y_init rows are not the input rows in input order: {xi}, {yi}', None))
        eg = _expected_groups(c, order)
        gg = [int(v) for v in res['group_id']]
        gkey = 'groups/supplied-group-id' if c['grouping']['mode'] == 'ids' else 'groups/group-id'
        o.append((gg == eg, gkey, f'{desc} [{label}]: group_id {gg}, expected {eg}', {'got': gg, 'expected': eg}))
        es = [eg.count(v) for v in eg]
        gs = [int(v) for v in res['group_size']]
        o.append((gs == es, 'groups/group-size', f'{desc} [{label}]: group_size {gs}, expected {es}', {'got': gs, 'expected': es}))
        enp = [len(wins[i]) for i in order]
        gnp = [int(v) for v in res['npixfit']]
        o.append((gnp == enp, 'npixfit', f'{desc} [{label}]: npixfit {gnp}, expected {enp} (window & image & ~mask & finite)',
                  {'got': gnp, 'expected': enp}))
        fl = [int(v) for v in res['flags']]
        xf = [float(v) for v in _colval(res['x_fit'])]
        yf = [float(v) for v in _colval(res['y_fit'])]
        ff = [float(v) for v in _colval(res['flux_fit'])]
        for r, i in enumerate(order):
            e1 = enp[r] < fsy * fsx
            o.append((bool(fl[r] & 1) == e1, 'flags/1-masked-or-clipped',
                      f'{desc} [{label}]: source {i}: flag 1 is {bool(fl[r] & 1)}, npixfit {enp[r]} of {fsy * fsx}', None))
            if xf[r] < -0.5 or yf[r] < -0.5 or xf[r] > nx or yf[r] > ny:
                o.append((bool(fl[r] & 2), 'flags/2-outside', f'{desc} [{label}]: source {i} fitted at ({xf[r]},{yf[r]}) '
                          f'outside the {shape} image but flag 2 is clear', None))
            elif 0 <= xf[r] <= nx - 1 and 0 <= yf[r] <= ny - 1:
                o.append((not (fl[r] & 2), 'flags/2-outside', f'{desc} [{label}]: source {i} fitted at ({xf[r]},{yf[r]}) '
                          f'inside the {shape} image but flag 2 is set', None))
            o.append((bool(fl[r] & 4) == (ff[r] <= 0), 'flags/4-nonpositive-flux',
                      f'{desc} [{label}]: source {i}: flux_fit {ff[r]}, flag 4 is {bool(fl[r] & 4)}', None))
            b = c.get('xy_bounds')
            bx, by = (None, None) if b is None else ((b, b) if np.isscalar(b) else b)
            at = False
            if bx is not None:
                at |= xf[r] in (xi[r] - bx, xi[r] + bx)
                o.append((abs(xf[r] - xi[r]) <= bx * (1 + 1e-12), 'bounds/respected',
                          f'{desc} [{label}]: source {i}: |x_fit - x_init| = {abs(xf[r] - xi[r])} > bound {bx}', None))
            if by is not None:
                at |= yf[r] in (yi[r] - by, yi[r] + by)
                o.append((abs(yf[r] - yi[r]) <= by * (1 + 1e-12), 'bounds/respected',
                          f'{desc} [{label}]: source {i}: |y_fit - y_init| = {abs(yf[r] - yi[r])} > bound {by}', None))
            o.append((bool(fl[r] & 32) == bool(at), 'flags/32-at-bound',
                      f'{desc} [{label}]: source {i}: flag 32 is {bool(fl[r] & 32)}, fitted ({xf[r]},{yf[r]}), init '
                      f'({xi[r]},{yi[r]}), bounds {b}', None))
            cpx = (math.ceil(c['init'][i][1] - 0.5), math.ceil(c['init'][i][0] - 0.5))
            cf = float(_colval(res['cfit'])[r])
            o.append((math.isnan(cf) == (cpx not in wins[i]), 'cfit/nan-iff-centre-pixel-unused',
                      f'{desc} [{label}]: source {i}: cfit = {cf}, centre pixel {cpx} fitted: {cpx in wins[i]}', None))
        lb = [float(v) for v in _colval(res['local_bkg'])]
        if c['bkgmode'] == 'column':
            o.append((lb == [c['bkg'] * scale] * n, 'local-bkg/column', f'{desc} [{label}]: local_bkg {lb}', None))
        elif c['bkgmode'] == 'none':
            o.append((lb == [0.0] * n, 'local-bkg/column', f'{desc} [{label}]: local_bkg {lb} without estimator', None))
        elif c.get('lbe_clean', True):
            o.append((max(abs(v - c['bkg'] * scale) for v in lb) <= 1e-9 * max(1.0, peak * scale), 'local-bkg/estimator',
                      f'{desc} [{label}]: estimated local_bkg {lb} for a constant background {c["bkg"] * scale}', None))
        if recov:
            ex = max(abs(xf[r] - src[i][0]) for r, i in enumerate(order))
            ey = max(abs(yf[r] - src[i][1]) for r, i in enumerate(order))
            ef = max(abs(ff[r] / (src[i][2] * scale) - 1) for r, i in enumerate(order))
            fam = 'recovery/from-truth' if c['start'] == 'truth' else 'recovery/from-offset'
            if c['grouping']['mode'] != 'none' and max(es) > 1:
                fam += '-grouped'
            if nanmask:
                fam = 'recovery/nan-with-mask'
            o.append((ex <= tol and ey <= tol and ef <= tol, fam,
                      f'{desc} [{label}]: max |x-truth| {ex:.2e}, |y-truth| {ey:.2e}, |flux/truth-1| {ef:.2e}; '
                      f'flags {fl}', {'ex': ex, 'ey': ey, 'ef': ef}))
            qf = [float(v) for v in _colval(res['qfit'])]
            o.append((all(0 <= q <= 1e-5 for q in qf), 'qfit/zero-on-exact-fit', f'{desc} [{label}]: qfit {qf}', None))
        return o

    phot, grouper = _make_phot(c, model)
    init_snap = None
    try:
        res, t0 = run(phot, order0)
    except Exception as exc:  # noqa: BLE001
        key = 'nan-with-mask/exception' if nanmask else 'call/exception'
        return [(False, key, f'{desc}: PSFPhotometry raised {type(exc).__name__}: {exc}', {'exception': repr(exc)})]
    out += check_table(res, order0, 'base')
    out.append((phot.results is res or _tables_equal(phot.results, res)[0], 'table/results-attribute',
                f'{desc}: phot.results differs from the returned table', None))
    # inputs unchanged
    t_again = _init_table(c, order0)
    out.append((_tables_equal(t0, t_again)[0] and t0.colnames == t_again.colnames, 'inputs-unchanged/init-params',
                f'{desc}: init_params was modified by the call', None))
    # grouper configuration survives
    out.append((phot.grouper is grouper and (grouper is None or grouper.min_separation == c['grouping']['minsep']),
                'grouper-config/survives-call', f'{desc}: phot.grouper is {phot.grouper!r} after the call, configured '
                f'{grouper!r}', None))
    if c['grouping']['mode'] == 'ids' and grouper is not None:
        c2 = dict(c, grouping={'mode': 'grouper', 'minsep': c['grouping']['minsep']})
        try:
            r2 = phot(data, init_params=_init_table(c2, order0), **({'mask': mask} if mask is not None else {}),
                      **({'error': error} if error is not None else {}))
            eg = _expected_groups(c2, order0)
            gg = [int(v) for v in r2['group_id']]
            out.append((gg == eg, 'grouper-config/survives-call',
                        f'{desc}: a second call without group_id gives group_id {gg}, the configured grouper implies {eg}',
                        {'got': gg, 'expected': eg}))
        except Exception as exc:  # noqa: BLE001
            out.append((False, 'grouper-config/survives-call', f'{desc}: second call raised {exc!r}', None))
        phot, grouper = _make_phot(c, model)
        res, t0 = run(phot, order0)
    # residual image
    if expect_recovery and c['bkg'] == 0.0:
        P = c.get('psf_shape', 25)
        rimg = np.asarray(phot.make_residual_image(clean, psf_shape=(P, P)), float)
        d = float(np.max(np.abs(rimg)))
        out.append((d <= 1e-6 * peak, 'residual/zero', f'{desc}: max |residual| = {d:.3e} for peak {peak:.3e}', {'max': d}))
    # IterativePSFPhotometry(maxiters=1) == PSFPhotometry
    if c.get('do_iter', True):
        try:
            it, _ = _make_phot(c, model, cls='iter')
            ri, _t = run(it, order0)
            okc = list(ri['iter_detected']) == [1] * N
            eq, why = _tables_equal(res, ri)
            out.append((eq and okc, 'iterative-maxiters1/equals-psfphotometry',
                        f'{desc}: IterativePSFPhotometry(maxiters=1) differs from PSFPhotometry: {why}; iter_detected '
                        f'{list(ri["iter_detected"])}', None))
        except Exception as exc:  # noqa: BLE001
            out.append((False, 'iterative-maxiters1/exception' if not nanmask else 'nan-with-mask/exception',
                        f'{desc}: IterativePSFPhotometry(maxiters=1) raised {type(exc).__name__}: {exc}', None))
    # permuted rows, same object (per-call reset)
    perm = c.get('perm')
    if perm and N > 1:
        try:
            rp, _t = run(phot, perm)
            out += check_table(rp, perm, f'rows permuted {perm}')
            if expect_recovery:
                dmax = 0.0
                for r, i in enumerate(perm):
                    for cn in ('x_fit', 'y_fit'):
                        dmax = max(dmax, abs(float(_colval(rp[cn])[r]) - float(_colval(res[cn])[i])))
                    dmax = max(dmax, abs(float(_colval(rp['flux_fit'])[r]) / float(_colval(res['flux_fit'])[i]) - 1))
                out.append((dmax <= 2e-6, 'row-order/permutation-covariant',
                            f'{desc}: results of rows permuted by {perm} differ from the permuted results by {dmax:.2e}', None))
        except Exception as exc:  # noqa: BLE001
            out.append((False, 'call/exception', f'{desc}: rows permuted {perm} raised {type(exc).__name__}: {exc}', None))
    # parameter errors follow their source: on data with a small deterministic perturbation (so that the
    # errors are not ~0) the *_err columns of a permuted table are the permuted *_err columns
    if perm and N > 1 and expect_recovery and c.get('conditioned') and c['bkgmode'] != 'estimator':
        try:
            jj, ii = np.mgrid[0:ny, 0:nx]
            pert = data + 2e-3 * peak * np.sin(1.7 * ii + 0.9 * jj * jj)
            ra, _t = run(phot, order0, dat=pert)
            rb, _t = run(phot, perm, dat=pert)
            worst, wcol = 0.0, None
            for cn in ('x_err', 'y_err', 'flux_err', 'x_fit', 'y_fit', 'flux_fit'):
                va, vb = _colval(ra[cn]).astype(float), _colval(rb[cn]).astype(float)
                for r, i in enumerate(perm):
                    if np.isfinite(va[i]) and np.isfinite(vb[r]) and va[i] != 0:
                        d = abs(vb[r] / va[i] - 1)
                        if d > worst:
                            worst, wcol = d, cn
            fin = bool(np.all(np.isfinite(_colval(ra['flux_err']).astype(float))))
            out.append((worst <= 1e-3 and fin, 'param-errors/follow-their-source',
                        f'{desc}: perturbed data: column {wcol} of the table with rows permuted by {perm} differs from the '
                        f'permuted column by a factor {worst:.2e} (flux_err {list(_colval(ra["flux_err"]))} vs '
                        f'{list(_colval(rb["flux_err"]))})', {'worst': worst, 'col': wcol}))
        except Exception as exc:  # noqa: BLE001
            out.append((False, 'call/exception', f'{desc}: perturbed run raised {type(exc).__name__}: {exc}', None))
    # scaling by k = 4 (data, init flux, local_bkg, error)
    if c.get('do_scale', True) and c['bkgmode'] != 'estimator':
        try:
            rs, _t = run(phot, order0, scale=4.0)
            out += check_table(rs, order0, 'scaled x4', scale=4.0)
            if expect_recovery:
                d = max(abs(float(a) / (4.0 * float(b)) - 1) for a, b in zip(_colval(rs['flux_fit']), _colval(res['flux_fit'])))
                dx = max(abs(float(a) - float(b)) for a, b in zip(_colval(rs['x_fit']), _colval(res['x_fit'])))
                out.append((d <= 2e-6 and dx <= 2e-6, 'scaling/flux-scales-with-k',
                            f'{desc}: image x4: flux_fit/(4 flux_fit) - 1 = {d:.2e}, x shift {dx:.2e}', None))
        except Exception as exc:  # noqa: BLE001
            out.append((False, 'call/exception', f'{desc}: scaled run raised {type(exc).__name__}: {exc}', None))
    return out


def k_fixed(c):
    """Fixed parameters keep their initial value (and free ones are still recovered)."""
    from astropy.table import Table
    from photutils.psf import CircularGaussianPRF, PSFPhotometry, SourceGrouper
    shape = tuple(c['shape'])
    src = [tuple(s) for s in c['sources']]
    tf = c['fwhm']
    model = CircularGaussianPRF(fwhm=tf)
    data = np.sum(render_each(model, src, shape), axis=0)
    m = CircularGaussianPRF(fwhm=c.get('fwhm_init', tf))
    for p in c['fixed']:
        getattr(m, p).fixed = True
    for p in c.get('free', []):
        getattr(m, p).fixed = False
    t = Table()
    t['x'] = [v[0] for v in c['init']]
    t['y'] = [v[1] for v in c['init']]
    t['flux'] = [v[2] for v in c['init']]
    if 'fwhm' in c.get('free', []):
        t['fwhm'] = [c['fwhm_init']] * len(src)
    phot = PSFPhotometry(m, c['fit_shape'], grouper=SourceGrouper(c['minsep']) if c.get('minsep') else None)
    if c.get('units'):
        # data in Jy, the initial fluxes given in mJy (an equivalent unit): same physical scene
        import astropy.units as u
        from astropy.table import QTable
        qt = QTable(t)
        qt['flux'] = np.array(t['flux'], float) * 1000.0 * u.mJy
        res = phot(data * u.Jy, init_params=qt)
        desc = f'fixed-parameter case {c}'
        out = []
        ff = [float(v) for v in res['flux_fit'].to_value(u.Jy)]
        fi = [float(v) for v in res['flux_init'].to_value(u.Jy)]
        want = [float(v[2]) for v in c['init']]
        out.append((max(abs(a / b - 1) for a, b in zip(ff, want)) <= 1e-12 and
                    max(abs(a / b - 1) for a, b in zip(fi, want)) <= 1e-12,
                    'fixed-parameter/keeps-initial-value-across-equivalent-units',
                    f'{desc}: flux_fit {ff} Jy, flux_init {fi} Jy, given {want} Jy (as mJy)', {'fit': ff}))
        for p_, col_ in (('x_0', 'x'), ('y_0', 'y')):
            if p_ in c['fixed']:
                continue
            a = [float(v) for v in _colval(res[f'{col_}_fit'])]
            tr = [s_[0 if p_ == 'x_0' else 1] for s_ in src]
            e = max(abs(u_ - v_) for u_, v_ in zip(a, tr))
            out.append((e <= 1e-6, 'fixed-parameter/free-ones-recovered', f'{desc}: free {p_} off by {e:.2e}', {'err': e}))
        return out
    res = phot(data, init_params=t)
    desc = f'fixed-parameter case {c}'
    out = []
    col = {'x_0': 'x', 'y_0': 'y', 'flux': 'flux', 'fwhm': 'fwhm'}
    for p in c['fixed']:
        if p == 'fwhm':
            mp = phot._fit_model_params if hasattr(phot, '_fit_model_params') else None
            ok = mp is not None and all(float(v) == c.get('fwhm_init', tf) for v in mp['fwhm'])
            out.append((ok, 'fixed-parameter/keeps-initial-value', f'{desc}: fixed fwhm changed', None))
            continue
        a = [float(v) for v in _colval(res[f'{col[p]}_fit'])]
        b = [float(v) for v in _colval(res[f'{col[p]}_init'])]
        out.append((a == b and b == [float(v) for v in t[col[p]]], 'fixed-parameter/keeps-initial-value',
                    f'{desc}: fixed {p}: fit {a} vs init {b}', {'fit': a, 'init': b}))
        er = [float(v) for v in _colval(res[f'{col[p]}_err'])]
        out.append((all(math.isnan(v) for v in er), 'fixed-parameter/err-nan', f'{desc}: fixed {p} has errors {er}', None))
    truth = {'x_0': [s[0] for s in src], 'y_0': [s[1] for s in src], 'flux': [s[2] for s in src], 'fwhm': [tf] * len(src)}
    for p in ('x_0', 'y_0', 'flux') + (('fwhm',) if 'fwhm' in c.get('free', []) else ()):
        if p in c['fixed']:
            continue
        a = [float(v) for v in _colval(res[f'{col[p]}_fit'])]
        e = max(abs(u / v - 1) if p in ('flux', 'fwhm') else abs(u - v) for u, v in zip(a, truth[p]))
        out.append((e <= 1e-6, 'fixed-parameter/free-ones-recovered', f'{desc}: free {p} off by {e:.2e}', {'err': e}))
    out.append(([int(v) for v in res['id']] == list(range(1, len(src) + 1)), 'table/ids', f'{desc}: ids', None))
    if 'fwhm' in c.get('free', []):
        # the residual image must be made with every *fitted* model parameter (here the width,
        # which differs from the template's), not only x, y and flux
        peak = float(np.max(data))
        rimg = np.asarray(phot.make_residual_image(data, psf_shape=(25, 25)), float)
        d = float(np.max(np.abs(rimg)))
        out.append((d <= 1e-5 * peak, 'residual/zero-with-a-fitted-extra-parameter',
                    f'{desc}: max |residual| = {d:.3e} for peak {peak:.3e}', {'max': d}))
    return out


def k_finder(c):
    """Finder-driven run: ids 1..N in finder order, each truth recovered once, Iterative(maxiters=1) identical."""
    from photutils.detection import DAOStarFinder
    from photutils.psf import CircularGaussianPRF, IterativePSFPhotometry, PSFPhotometry, SourceGrouper
    shape = tuple(c['shape'])
    src = [tuple(s) for s in c['sources']]
    fw = c['fwhm']
    model = CircularGaussianPRF(fwhm=fw)
    data = np.sum(render_each(model, src, shape), axis=0)
    finder = DAOStarFinder(threshold=0.5, fwhm=fw)
    g = SourceGrouper(c['minsep']) if c.get('minsep') else None
    phot = PSFPhotometry(model, c['fit_shape'], finder=finder, grouper=g, aperture_radius=fw)
    res = phot(data)
    desc = f'finder case {c}'
    out = []
    if res is None or len(res) != len(src):
        return [(False, 'finder/count', f'{desc}: {None if res is None else len(res)} sources found', None)]
    out.append(([int(v) for v in res['id']] == list(range(1, len(src) + 1)), 'table/ids', f'{desc}: ids {list(res["id"])}', None))
    fr = phot.finder_results
    out.append(([float(v) for v in res['x_init']] == [float(v) for v in fr['xcentroid']], 'table/row-order',
                f'{desc}: rows are not in finder order', None))
    used = set()
    worst = 0.0
    for r in range(len(res)):
        x, y, f = float(res['x_fit'][r]), float(res['y_fit'][r]), float(res['flux_fit'][r])
        k = int(np.argmin([math.hypot(x - s[0], y - s[1]) for s in src]))
        used.add(k)
        worst = max(worst, abs(x - src[k][0]), abs(y - src[k][1]), abs(f / src[k][2] - 1))
    out.append((len(used) == len(src) and worst <= 1e-6, 'recovery/from-finder',
                f'{desc}: worst deviation {worst:.2e}, {len(used)} distinct truths matched', {'worst': worst}))
    eg = single_linkage([float(v) for v in res['x_init']], [float(v) for v in res['y_init']], c['minsep']) if g else \
        list(range(1, len(src) + 1))
    out.append(([int(v) for v in res['group_id']] == eg, 'groups/group-id', f'{desc}: group_id {list(res["group_id"])} vs {eg}', None))
    it = IterativePSFPhotometry(model, c['fit_shape'], finder, grouper=g, aperture_radius=fw, maxiters=1)
    ri = it(data)
    eq, why = _tables_equal(res, ri)
    out.append((eq and list(ri['iter_detected']) == [1] * len(src), 'iterative-maxiters1/equals-psfphotometry',
                f'{desc}: {why}', None))
    return out


def k_finder_blend(c):
    """A blend the finder resolves only in the residual image: with maxiters=1 there is exactly one
    detect-and-fit pass, so IterativePSFPhotometry must equal PSFPhotometry row for row."""
    from photutils.detection import DAOStarFinder
    from photutils.psf import (CircularGaussianPRF, IterativePSFPhotometry, PSFPhotometry,
                               SourceGrouper)
    shape = tuple(c['shape'])
    src = [tuple(s) for s in c['sources']]
    fw = c['fwhm']
    model = CircularGaussianPRF(fwhm=fw)
    data = np.sum(render_each(model, src, shape), axis=0)
    finder = DAOStarFinder(threshold=c['threshold'], fwhm=fw)
    grp = SourceGrouper(2.0 * fw) if c['mode'] == 'all' else None
    phot = PSFPhotometry(model, c['fit_shape'], finder=finder, aperture_radius=fw, grouper=grp)
    res = phot(data)
    desc = f'finder-blend case {c}'
    if res is None:
        return [(False, 'finder/count', f'{desc}: nothing found', None)]
    it = IterativePSFPhotometry(model, c['fit_shape'], finder, aperture_radius=fw, maxiters=1,
                                mode=c['mode'], grouper=grp)
    ri = it(data)
    eq, why = _tables_equal(res, ri)
    npass = len(it.fit_results)
    ok = eq and list(ri['iter_detected']) == [1] * len(res) and npass == 1
    # the scene must be one where a second pass *would* add sources (else the case says nothing)
    it2 = IterativePSFPhotometry(model, c['fit_shape'], finder, aperture_radius=fw, maxiters=2,
                                 mode=c['mode'], grouper=grp)
    r2 = it2(data)
    discriminating = r2 is not None and (len(r2) > len(res) or len(it2.fit_results) > 1)
    return [(ok, 'iterative-maxiters1/equals-psfphotometry',
             f'{desc}: {why}; rows {len(ri)} vs {len(res)}, iter_detected {list(ri["iter_detected"])}, '
             f'{npass} fit pass(es)', {'discriminating': bool(discriminating)})]


_KINDS = {'grouper': k_grouper, 'scene': k_scene, 'fixed': k_fixed, 'finder': k_finder,
          'finder-blend': k_finder_blend}


def _evaluate(case):
    try:
        return _KINDS[case['kind']](case)
    except Exception as exc:  # noqa: BLE001
        import traceback
        return [(False, f"exception/{case['kind']}", f'{case}: raised {type(exc).__name__}: {exc} '
                 f'[{traceback.format_exc()[-400:]}]', {'exception': repr(exc)})]


class _Emitter:
    def __init__(self, ctx, cap=3):
        self.ctx, self.cap, self.n = ctx, cap, {}
        self.stats = {}

    def do(self, case, contract, nontrivial=True):
        self.ctx.case(json.dumps(case, sort_keys=True, default=str), nontrivial=nontrivial, contract=contract,
                      sample={k: case.get(k) for k in ('kind', 'type', 'model', 'grouping', 'x', 'y', 't') if k in case})
        res = _evaluate(case)
        for ok, key, what, obs in res:
            fam = key.split('/')[0]
            self.stats[fam] = self.stats.get(fam, 0) + 1
            if ok:
                continue
            self.n[key] = self.n.get(key, 0) + 1
            if self.n[key] <= self.cap:
                self.ctx.check(False, key, what, dict(case, _key=key, _observed=obs))


# ----------------------------------------------------------------------------------------------
# enumeration
# ----------------------------------------------------------------------------------------------
def _grouper_cases(ctx):
    side = 4 if ctx.thorough else 3
    pts = [(float(i), float(j)) for j in range(side) for i in range(side)]
    ts = [1.0, math.sqrt(2.0), 1.5, 2.0, 2.5, 5.0]
    n = 0
    for k in range(1, 7):
        for sub in itertools.combinations(range(len(pts)), k):
            n += 1
            orders = [list(sub), list(sub)[::-1], [int(v) for v in ctx.rng.permutation(sub)]]
            for oi, od in enumerate(orders[: 3 if k > 1 else 1]):
                xs = [pts[i][0] for i in od]
                ys = [pts[i][1] for i in od]
                tsel = ts if k <= (4 if ctx.thorough else 3) else [ts[(n + oi) % 6], ts[(n + oi + 2) % 6], ts[(n + oi + 3) % 6]]
                for t in tsel:
                    yield {'kind': 'grouper', 'x': xs, 'y': ys, 't': t, 'form': ['list', 'array', 'table'][(n + oi) % 3]}
            if n % 7 == 0:
                # scaled lattice (half-integer distances, ties at 2.5 and 5) and a duplicated point
                xs = [pts[i][0] * 2.5 for i in sub]
                ys = [pts[i][1] * 2.5 for i in sub]
                for t in (2.5, 5.0, 3.0):
                    yield {'kind': 'grouper', 'x': xs, 'y': ys, 't': t, 'form': 'array'}
                if k < 6:
                    xs = [pts[i][0] for i in sub] + [pts[sub[0]][0]]
                    ys = [pts[i][1] for i in sub] + [pts[sub[0]][1]]
                    yield {'kind': 'grouper', 'x': xs, 'y': ys, 't': 1.0, 'form': 'list'}
    # y must matter; negative and large coordinates
    for t in (1.0, 3.0):
        yield {'kind': 'grouper', 'x': [5.0, 5.0, 5.0, 9.0], 'y': [0.0, 2.5, 7.0, 7.0], 't': t, 'form': 'array'}
        yield {'kind': 'grouper', 'x': [-3.0, 1e4, -2.0, 1e4 + 0.5], 'y': [1e4, -7.0, 1e4, -7.5], 't': t, 'form': 'list'}


MODELS = [{'name': 'cgprf', 'fwhm': 2.5}, {'name': 'cgprf', 'fwhm': 1.6}, {'name': 'cgprf', 'fwhm': 3.5},
          {'name': 'gprf', 'x_fwhm': 2.0, 'y_fwhm': 3.0, 'theta': 0.0}, {'name': 'gprf', 'x_fwhm': 2.0, 'y_fwhm': 3.0, 'theta': 30.0},
          {'name': 'imagepsf', 'fwhm': 2.5, 'os': 1, 'n': 25}, {'name': 'imagepsf', 'fwhm': 2.5, 'os': 2, 'n': 51},
          {'name': 'gridded', 'os': 1, 'n': 25}]
TYPES = ['isolated', 'pair', 'chain', 'dense', 'interleaved', 'edge']
GROUPINGS = ['none', 'grouper', 'ids-natural', 'ids-all', 'ids-split']
FIT_SHAPES = [5, 7, [5, 7], 3, [7, 3]]
MASKMODES = ['none', 'pixels', 'nan', 'nan+mask', 'none', 'centre']
ERRMODES = ['none', 'flat', 'random', 'none', 'huge']
BKGMODES = ['none', 'column', 'none', 'estimator']
BOUNDS_ = [None, 1.0, None, [0.05, None], [1.0, 0.05], [None, 0.05]]


def _rot_chain(rng, n, step, x0, y0):
    pts = [(x0, y0)]
    a = rng.uniform(0, 2 * math.pi)
    for _ in range(n - 1):
        a += rng.uniform(-0.6, 0.6)
        pts.append((pts[-1][0] + step * math.cos(a), pts[-1][1] + step * math.sin(a)))
    return pts


def _make_scene(rng, n_case, typ, model, gmode, start, opt=None):
    shape = [35, 45]
    ny, nx = shape
    fw = model_fwhm(model)
    fs = FIT_SHAPES[int(rng.integers(5))]
    opt = opt or {}
    conditioned = True
    if typ == 'isolated':
        cells = [(6.0, 7.0), (38.0, 27.0), (22.0, 7.0), (6.0, 27.0), (38.0, 7.0), (22.0, 27.0)]
        n = opt.get('n', 1 + n_case % 6)
        pts = [(cx + rng.uniform(-1, 1), cy + rng.uniform(-1, 1)) for cx, cy in cells[:n]]
    elif typ == 'pair':
        sep = [0.5, 0.7, 1.0, 1.5, 2.0, 3.0, 5.0][n_case % 7]
        a = rng.uniform(0, 2 * math.pi)
        x0, y0 = 12.0 + rng.uniform(-1, 1), 13.0 + rng.uniform(-1, 1)
        pts = [(x0, y0), (x0 + sep * math.cos(a), y0 + sep * math.sin(a))]
        if n_case % 2:
            pts.append((34.0 + rng.uniform(-1, 1), 26.0 + rng.uniform(-1, 1)))
        if np.isscalar(fs) and fs == 3:
            fs = 5
    elif typ == 'chain':
        n = 3 + n_case % 4
        step = [0.8, 1.0, 1.5][n_case % 3] * fw
        while True:
            pts = _rot_chain(rng, n, step, 20.0 + rng.uniform(-2, 2), 17.0 + rng.uniform(-2, 2))
            P = np.array(pts)
            D = np.hypot(P[:, None, 0] - P[None, :, 0], P[:, None, 1] - P[None, :, 1]) + np.eye(n) * 99
            if D.min() >= 0.999 * step and P.min() > 5 and P[:, 0].max() < nx - 6 and P[:, 1].max() < ny - 6:
                break
        if np.isscalar(fs) and fs == 3:
            fs = 5
    elif typ == 'dense':
        n = 3 + n_case % 4
        pts = _rot_chain(rng, n, 0.5, 20.0 + rng.uniform(-1, 1), 16.0 + rng.uniform(-1, 1))
        conditioned = False
    elif typ == 'interleaved':
        na, nb = 2 + n_case % 2, 1 + (n_case // 2) % 2
        A = _rot_chain(rng, na, 1.2 * fw, 8.0 + rng.uniform(-1, 1), 9.0 + rng.uniform(-1, 1))
        B = _rot_chain(rng, nb + 1, 1.2 * fw, nx - 10.0 + rng.uniform(-1, 1), ny - 9.0 + rng.uniform(-1, 1))
        pts = []
        for k in range(max(len(A), len(B))):
            if k < len(B):
                pts.append(B[k])
            if k < len(A):
                pts.append(A[k])
        pts = pts[:6]
    else:  # edge
        cand = [(0.2, 0.4), (nx - 1.3, ny - 0.6), (-1.3, 16.0), (18.0, ny + 0.2), (nx - 0.8, 2.2), (1.5, ny - 1.5)]
        n = 1 + n_case % 3
        pts = [cand[(n_case + 2 * k) % 6] for k in range(n)]
        pts = [(p[0] + rng.uniform(-0.1, 0.1), p[1] + rng.uniform(-0.1, 0.1)) for p in pts]
        conditioned = all(0.0 <= p[0] <= nx - 1 and 0.0 <= p[1] <= ny - 1 for p in pts)
        if not np.isscalar(fs) or fs == 3:
            fs = 7
    src = [[float(np.round(x, 6)), float(np.round(y, 6)), float(np.round(rng.uniform(50, 200), 4))] for x, y in pts]
    N = len(src)
    # nearest-neighbour separation -> starting offsets
    mind = [min([math.hypot(src[i][0] - src[j][0], src[i][1] - src[j][1]) for j in range(N) if j != i] or [99.0]) for i in range(N)]
    if start == 'truth':
        init = [[s[0], s[1], s[2]] for s in src]
    else:
        init = []
        for i, s in enumerate(src):
            off = min(0.4, 0.2 * mind[i]) if typ != 'chain' else 0.3
            init.append([float(np.round(s[0] + rng.uniform(-off, off), 6)), float(np.round(s[1] + rng.uniform(-off, off), 6)),
                         float(np.round(s[2] * rng.uniform(0.9, 1.1), 4))])
    # grouping
    ix, iy = [v[0] for v in init], [v[1] for v in init]
    reach = 6.0 * fw / K + (max(fs) if not np.isscalar(fs) else fs) * 0.71 + 1.5
    if model['name'] in ('imagepsf', 'gridded'):
        reach = 12.5 * 1.42 + 5
    nat_t = min(reach, 13.0)
    natural = single_linkage(ix, iy, nat_t)
    grouping = {'mode': 'none', 'minsep': None}
    if gmode == 'grouper':
        grouping = {'mode': 'grouper', 'minsep': nat_t}
    elif gmode == 'ids-natural':
        # relabel non-contiguously and in decreasing order so that group order != row order
        m = max(natural)
        grouping = {'mode': 'ids', 'ids': [3 * (m - g) + 2 for g in natural], 'minsep': nat_t if n_case % 2 else None}
    elif gmode == 'ids-all':
        grouping = {'mode': 'ids', 'ids': [7] * N, 'minsep': 2.0 if n_case % 2 else None}
    elif gmode == 'ids-split':
        grouping = {'mode': 'ids', 'ids': [(i % 2) + 1 for i in range(N)], 'minsep': nat_t if n_case % 2 else None}
    case = {'kind': 'scene', 'type': typ, 'shape': shape, 'model': model, 'sources': src, 'init': init, 'start': start,
            'fit_shape': fs, 'grouping': grouping, 'conditioned': conditioned, 'style': 0,
            'maskmode': 'none', 'errmode': 'none', 'bkgmode': 'none', 'bkg': 0.0, 'xy_bounds': None,
            'psf_shape': 25 if model['name'] not in ('imagepsf', 'gridded') else 27}
    # masks: choose pixels inside the fit windows (never the centre pixel unless 'centre')
    fsy, fsx = (fs, fs) if np.isscalar(fs) else fs
    mm = opt.get('maskmode', MASKMODES[int(rng.integers(6))])
    if fsy * fsx <= 9 and mm != 'none':
        mm = 'none'
    winpix = []
    for v in init:
        js, is_ = window(ny, v[1], fsy), window(nx, v[0], fsx)
        cpx = (math.ceil(v[1] - 0.5), math.ceil(v[0] - 0.5))
        cand = [(j, i) for j in js for i in is_ if (j, i) != cpx and abs(j - cpx[0]) + abs(i - cpx[1]) >= 2]
        if cand:
            sel = rng.choice(len(cand), size=min(2, len(cand)), replace=False)
            winpix.append([[int(cand[s][0]), int(cand[s][1])] for s in sel])
        else:
            winpix.append([])
    case['maskmode'] = mm
    if mm == 'pixels':
        case['corrupt'] = [w[0] for w in winpix if w]
        case['maskpix'] = [w[0] for w in winpix if w]
    elif mm == 'nan':
        case['nanpix'] = [w[0] for w in winpix if w]
    elif mm == 'nan+mask':
        case['nanpix'] = [w[0] for w in winpix if w]
        case['corrupt'] = [w[1] for w in winpix if len(w) > 1]
        case['maskpix'] = [w[1] for w in winpix if len(w) > 1]
    elif mm == 'centre':
        v = init[0]
        cpx = [math.ceil(v[1] - 0.5), math.ceil(v[0] - 0.5)]
        if 0 <= cpx[0] < ny and 0 <= cpx[1] < nx:
            case['maskpix'] = [cpx]
            case['corrupt'] = [cpx]
        else:
            case['maskmode'] = 'none'
    em = opt.get('errmode', ERRMODES[int(rng.integers(5))])
    case['errmode'] = em
    case['eseed'] = int(rng.integers(1 << 30))
    if em == 'huge':
        if mm == 'none' and all(len(w) > 1 for w in winpix):
            case['corrupt'] = [w[1] for w in winpix]
            case['errpix'] = [w[1] for w in winpix]
        else:
            case['errmode'] = 'random'
    bm = opt.get('bkgmode', BKGMODES[int(rng.integers(4))])
    if bm == 'estimator':
        iso_ok = typ == 'isolated' and N <= 2 and model['name'] not in ('gridded',) and mm == 'none' and em != 'huge'
        if iso_ok:
            r_in = max(6.0, 8.5 * fw / K)
            case['bkgmode'], case['bkg'], case['lbe'] = 'estimator', 1.5, [r_in, r_in + 3.0]
        else:
            bm = 'column'
    if bm == 'column':
        case['bkgmode'], case['bkg'] = 'column', 1.5
    b = opt.get('bounds', BOUNDS_[int(rng.integers(6))])
    if b is not None:
        case['xy_bounds'] = b
        if not np.isscalar(b):
            case['bounds_hit'] = any((b[0] is not None and abs(v[0] - s[0]) > b[0] * 0.999)
                                     or (b[1] is not None and abs(v[1] - s[1]) > b[1] * 0.999) for v, s in zip(init, src))
            if start == 'truth':
                case['bounds_hit'] = False
    st = opt.get('style', int(rng.integers(4)))
    if st == 3 and not (typ == 'isolated' and mm == 'none' and em != 'huge' and case['bkgmode'] == 'none'):
        st = 1
    case['style'] = st
    if st == 3:
        case['aper'] = 1.2 * fw
    if N > 1:
        p = [int(v) for v in rng.permutation(N)]
        if p == list(range(N)):
            p = p[::-1]
        case['perm'] = p
    case['do_iter'] = bool(rng.integers(2))
    case['do_scale'] = bool(rng.integers(3) == 0)
    return case


def run(ctx):
    em = _Emitter(ctx)
    for case in _grouper_cases(ctx):
        em.do(case, 'grouper-single-linkage', nontrivial=len(case['x']) > 1)
    # fixed parameters
    fx = 0
    for fixed, free in ((['x_0', 'y_0'], []), (['flux'], []), (['x_0'], []), ([], ['fwhm']), (['y_0', 'flux'], []), (['fwhm'], [])):
        for sources in ([[12.3, 10.6, 100.0]], [[12.3, 10.6, 100.0], [14.9, 11.4, 60.0]], [[6.2, 7.1, 100.0], [20.4, 18.3, 60.0], [21.9, 19.7, 80.0]]):
            fx += 1
            init = []
            for s in sources:
                d = [0.0 if 'x_0' in fixed else 0.25, 0.0 if 'y_0' in fixed else -0.2, 1.0 if 'flux' in fixed else 0.9]
                init.append([s[0] + d[0], s[1] + d[1], s[2] * d[2]])
            em.do({'kind': 'fixed', 'shape': [27, 29], 'fwhm': 2.4, 'fwhm_init': 2.4 if 'fwhm' not in free else 2.7,
                   'sources': sources, 'init': init, 'fixed': fixed, 'free': free, 'fit_shape': [5, 7][fx % 2],
                   'minsep': 5.0 if len(sources) > 1 else None}, 'fixed-parameters')
    # forced flux with the initial fluxes in an equivalent unit of the data unit
    for sources in ([[12.3, 10.6, 100.0]], [[6.2, 7.1, 100.0], [20.4, 18.3, 60.0]]):
        init = [[s[0] + 0.25, s[1] - 0.2, s[2]] for s in sources]
        em.do({'kind': 'fixed', 'shape': [27, 29], 'fwhm': 2.4, 'fwhm_init': 2.4, 'sources': sources, 'init': init,
               'fixed': ['flux'], 'free': [], 'fit_shape': 5, 'minsep': None, 'units': True}, 'fixed-parameters')
    # finder-driven
    for fi, sources in enumerate(([[12.3, 10.6, 100.0]], [[6.2, 7.1, 100.0], [22.4, 19.3, 60.0]],
                                 [[6.2, 7.1, 100.0], [22.4, 19.3, 60.0], [7.9, 21.7, 80.0], [23.1, 6.4, 150.0]])):
        for ms in (None, 20.0):
            em.do({'kind': 'finder', 'shape': [29, 31], 'fwhm': 2.4, 'sources': sources, 'fit_shape': 5, 'minsep': ms},
                  'finder-driven')
    # blends resolved only in the residual image: maxiters=1 means one pass
    for mode in ('new', 'all'):
        for sources, thr in (([[14.2, 13.6, 1000.0], [17.4, 14.9, 90.0]], 2.0),
                             ([[10.3, 12.1, 600.0], [12.9, 10.4, 70.0], [24.0, 22.5, 300.0]], 1.5)):
            em.do({'kind': 'finder-blend', 'shape': [29, 31], 'fwhm': 2.6, 'sources': sources,
                   'fit_shape': 5, 'threshold': thr, 'mode': mode}, 'finder-driven')
    # scenes
    rng = ctx.rng
    n = 0
    reps = 3 if ctx.thorough else 1
    for rep in range(reps):
        for typ, model, gmode in itertools.product(TYPES, MODELS, GROUPINGS):
            n += 1
            if not ctx.thorough and (n % 3) != 1:
                continue
            starts = ['truth'] if typ == 'dense' else (['offset', 'truth'] if (n % 4 == 0 or ctx.thorough and n % 2) else ['offset'])
            for start in starts:
                case = _make_scene(rng, n + 13 * rep, typ, model, gmode, start)
                if not case['conditioned'] and start == 'offset':
                    case = _make_scene(rng, n + 13 * rep, typ, model, gmode, 'truth')
                em.do(case, f'scene-{typ}')
    # dedicated: LocalBackground estimator and finder-style column names with aperture fluxes (isolated scenes)
    m = 0
    for model, nsrc, bkgmode, style in itertools.product(MODELS[:7], (1, 2), ('estimator', 'none'), (3, 0)):
        if bkgmode == 'none' and style == 0:
            continue
        m += 1
        if not ctx.thorough and m % 2:
            continue
        case = _make_scene(rng, m, 'isolated', model, ['none', 'grouper', 'ids-all'][m % 3], 'offset',
                           opt={'n': nsrc, 'maskmode': 'none', 'errmode': ['none', 'flat', 'random'][m % 3],
                                'bkgmode': bkgmode, 'bounds': None, 'style': style})
        em.do(case, 'scene-isolated-estimator-or-aperture-flux')
    # mask x local-background estimator (never combined above): most of the annulus of an isolated
    # source is masked and holds junk; the estimate must come from the unmasked remainder
    for m2, model in enumerate(MODELS[:3]):
        case = _make_scene(rng, 500 + m2, 'isolated', model, 'none', 'truth',
                           opt={'n': 1, 'maskmode': 'none', 'errmode': 'none', 'bkgmode': 'estimator',
                                'bounds': None, 'style': 0})
        if case['bkgmode'] != 'estimator':
            continue
        (x0, y0, _f) = case['sources'][0]
        r_in, r_out = case['lbe']
        ny_, nx_ = case['shape']
        junk = []
        for j in range(ny_):
            for i in range(nx_):
                r = math.hypot(i - x0, j - y0)
                ang = math.atan2(j - y0, i - x0) % (2 * math.pi)
                if r_in - 1.0 <= r <= r_out + 1.0 and ang < 1.35 * math.pi:
                    junk.append([j, i])
        case['maskmode'], case['maskpix'], case['corrupt'] = 'pixels', junk, junk
        em.do(case, 'scene-isolated-estimator-with-masked-junk-in-the-annulus')
    for key, cnt in em.n.items():
        ctx.note(f'{key}: {cnt} failing checks (at most {em.cap} recorded)')
    ctx.note('checks evaluated per family: ' + json.dumps(em.stats, sort_keys=True))


def replay(case):
    want = case.get('_key')
    c = {k: v for k, v in case.items() if not k.startswith('_')}
    res = _evaluate(c)
    bad = [(key, what, obs) for ok, key, what, obs in res if not ok and (want is None or key == want)]
    if bad:
        return 'confirmed', bad[0][1], bad[0][2]
    return 'spurious', 'all contracts of this case hold', None
