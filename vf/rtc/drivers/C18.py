"""C18 -- rendered model images are the exact superposition of their sources (bounded rtc driver).

Oracle: explicit per-row rendering.  For every row a *fresh* deep copy of the model gets the row's
parameters (documented mapping: params_map > x_name/y_name > columns named like parameters); the
window is the set of pixels j with ceil(y0 - h/2) <= j < ceil(y0 + h/2), 0 <= j < ny (same for x;
the documented astropy ``overlap_slices(mode='trim')`` convention), found by an explicit pixel
loop; the model is discretised on the window by the documented rule of ``discretize_method`` and
the row's local_bkg is added on the same window.  Rows whose window misses the image add nothing.
"""
import itertools
import json
import math

import numpy as np

BOUNDS = (
    "make_model_image: image shapes {(1,1),(1,5),(4,1),(3,3),(8,9),(12,7)} (+(30,40) thorough) x models "
    "{Gaussian2D (x_mean/y_mean names, rotated), Moffat2D, CircularGaussianPRF (optionally a per-row fwhm "
    "column), GaussianPRF, ImagePSF (oversampling 1,2,(2,3)), GriddedPSFModel 2x2, compound Gaussian2D+Gaussian2D "
    "via params_map, make_psf_model(Gaussian2D)*, unit-ful CircularGaussianPRF (Jy) and Gaussian2D (mJy) with "
    "QTable} x tables of 0-6 rows whose centres are drawn (seeded) from the boundary lattice {far outside, window "
    "just touching the image (no overlap), window overlapping by one pixel, -0.5, 0, 0.49, 0.5, interior integer / "
    "half-integer / fractional, n-1, n-0.5, n-1+w/2} per axis, with forced scenarios {first row off-image, all rows "
    "off-image, single row, empty table, duplicate rows, one row whose window ends exactly at pixel 0 (no overlap)} x model_shape given as keyword (int, (h,w), odd and even, "
    "1), as a per-row column (ints or (h,w) pairs, also together with the keyword) or None (bounding box; plus 10 "
    "fixed cases with bbox_factor in {2, 3, None} on non-square fixed-box models (ImagePSF 5x9 / 9x11, GaussianPRF) and "
    "on Gaussian2D, where the factor scales the box) x "
    "local_bkg column present/absent x column naming (parameter names / renamed through params_map, extra ignored "
    "columns) x discretize_method {center, interp, oversample(3,4)} (+ integrate on 2 tiny cases, thorough).  "
    "Tolerances: |image - oracle| <= 1e-13*max(1,max|oracle|) (integrate: 1e-7), permutations and vstack "
    "additivity 1e-12*scale; units compared exactly; model parameters/fixed/bounds and table contents compared "
    "exactly before/after.  PSFPhotometry / IterativePSFPhotometry make_model_image, make_residual_image on "
    "fitted 1-4 source scenes (psf_shape in {5,(7,9),None}, include_localbkg both, ndarray / Quantity / NDData "
    "data): model image vs oracle from the result table (1e-12), residual == data - model bitwise.  "
    "make_psf_model_image: n_sources in {1,5,12}, 3 seeds, model_shape in {None,5,(7,9)}: data vs oracle from the "
    "returned table, ids 1..N.")

RULE = (
    "Scenario x model x shape-mode x naming x discretisation combinations are enumerated; row positions, "
    "fluxes, per-row shapes and permutations come from ctx.rng over the stated lattices.  A case is its full "
    "parameter dict (distinct iff the dicts differ).  A case is non-trivial iff at least one row overlaps the "
    "image (superposition/units), or it has >= 1 row (skip clause); empty tables count as trivial.")


# ----------------------------------------------------------------------------------------------
# models
# ----------------------------------------------------------------------------------------------
_MODEL_CACHE = {}


def _build_model(spec):
    """-> (fresh model, info); make_psf_model is slow (it integrates the model), so the built
    models are cached and a deep copy is handed out."""
    from copy import deepcopy
    key = json.dumps(spec, sort_keys=True)
    if key not in _MODEL_CACHE:
        _MODEL_CACHE[key] = _build_model_uncached({k: v for k, v in spec.items() if k != 'fixed'})
    m, info = _MODEL_CACHE[key]
    m = deepcopy(m)
    for pname in spec.get('fixed', []):       # forced photometry: position parameters held fixed
        getattr(m, pname).fixed = True
    return m, dict(info)


def _build_model_uncached(spec):
    """-> (model, info) ; info: x_name, y_name, flux (param name), extra mapping for compound."""
    import astropy.units as u
    from astropy.modeling.models import Gaussian2D, Moffat2D
    import photutils.psf as P
    n = spec['name']
    unit = spec.get('unit')
    q = (lambda v: v * u.Unit(unit)) if unit else (lambda v: v)
    if n == 'cgprf':
        return P.CircularGaussianPRF(flux=q(1.0), fwhm=spec.get('fwhm', 2.0)), dict(x='x_0', y='y_0', f=['flux'])
    if n == 'gprf':
        return (P.GaussianPRF(flux=q(1.0), x_fwhm=spec['x_fwhm'], y_fwhm=spec['y_fwhm'], theta=spec['theta']),
                dict(x='x_0', y='y_0', f=['flux']))
    if n == 'gauss2d':
        return (Gaussian2D(amplitude=q(1.0), x_mean=0, y_mean=0, x_stddev=spec['x_stddev'], y_stddev=spec['y_stddev'],
                           theta=spec['theta']), dict(x='x_mean', y='y_mean', f=['amplitude']))
    if n == 'moffat2d':
        return Moffat2D(amplitude=1.0, gamma=spec['gamma'], alpha=spec['alpha']), dict(x='x_0', y='y_0', f=['amplitude'])
    if n == 'imagepsf':
        rng = np.random.default_rng(spec['dseed'])
        d = rng.random(tuple(spec['shape'])) + 0.1
        os_ = spec['os']
        return (P.ImagePSF(d, flux=q(1.0), oversampling=os_ if np.isscalar(os_) else tuple(os_),
                           fill_value=spec.get('fill', 0.0)),
                dict(x='x_0', y='y_0', f=['flux']))
    if n == 'gridded':
        from astropy.nddata import NDData
        rng = np.random.default_rng(spec['dseed'])
        d = rng.random((4, 9, 9)) + 0.1
        nd = NDData(d, meta={'grid_xypos': [(0, 0), (0, 10), (10, 0), (10, 10)], 'oversampling': spec['os']})
        return P.GriddedPSFModel(nd, flux=q(1.0)), dict(x='x_0', y='y_0', f=['flux'])
    if n == 'compound':
        m = Gaussian2D(1, 0, 0, 1.0, 1.3, 0.4) + Gaussian2D(0.5, 0, 0, 2.5, 2.0, -0.2)
        return m, dict(x='x_mean_0', y='y_mean_0', f=['amplitude_0', 'amplitude_1'],
                       also={'x_mean_1': 'x', 'y_mean_1': 'y'})
    if n == 'psfmodel':
        m = P.make_psf_model(Gaussian2D(1, 0, 0, 1.5, 1.1, 0.3), x_name='x_mean', y_name='y_mean')
        return m, dict(x=m.x_name, y=m.y_name, f=[m.flux_name])
    raise KeyError(n)


def _snapshot_model(m):
    out = []
    for name in m.param_names:
        p = getattr(m, name)
        out.append((name, np.array(p.value).tolist(), str(p.unit), bool(p.fixed), tuple(p.bounds)))
    return out


def _snapshot_table(t):
    out = [tuple(t.colnames), type(t).__name__]
    for cn in t.colnames:
        col = t[cn]
        # repr of the values: NaN entries (errors of fixed parameters) compare equal to themselves
        out.append((cn, str(getattr(col, 'unit', None)), str(np.asarray(getattr(col, 'value', col)).dtype),
                    repr(np.asarray(getattr(col, 'value', col)).tolist())))
    return out


def _build_table(c, info):
    """Build the params table and the keyword arguments of make_model_image for case c."""
    import astropy.units as u
    from astropy.table import QTable, Table
    spec = c['model']
    unit = spec.get('unit')
    rows = c['rows']
    mapped = c.get('naming') == 'mapped' or 'also' in info
    t = QTable() if unit else Table()
    n = len(rows)
    xcol, ycol = ('x', 'y') if 'also' in info else (('xc', 'yc') if mapped else (info['x'], info['y']))
    t['id'] = np.arange(n) + 1
    t[xcol] = np.array([r['x'] for r in rows], float)
    t[ycol] = np.array([r['y'] for r in rows], float)
    pm = {info['x']: xcol, info['y']: ycol} if mapped else None
    if 'also' in info:
        pm.update(info['also'])
    for k, fname in enumerate(info['f']):
        col = np.array([r['f'] * (1.0 if k == 0 else 0.5) for r in rows], float)
        cn = f'{fname}_f200w' if mapped else fname
        t[cn] = col * u.Unit(unit) if unit else col
        if mapped:
            pm[fname] = cn
    if c.get('fwhm_col'):
        t['fwhm'] = np.array([r['fwhm'] for r in rows], float)
    t['junk'] = np.arange(n) * 1.5          # ignored column
    if c.get('bkg'):
        col = np.array([r['bkg'] for r in rows], float)
        t['local_bkg'] = col * u.Unit(unit) if unit else col
    kw = dict(x_name=info['x'], y_name=info['y'])
    if pm:
        kw['params_map'] = pm
    ms = c['mshape']
    if ms['mode'] in ('kw', 'col1+kw', 'col2+kw'):
        v = ms['kw']
        kw['model_shape'] = v if np.isscalar(v) else tuple(v)
    if ms['mode'].startswith('col1'):
        t['model_shape'] = np.array([r['ms'] for r in rows], int)
    if ms['mode'].startswith('col2'):
        t['model_shape'] = np.array([r['ms'] for r in rows], int).reshape(n, 2)
    if ms.get('factor') is not None:
        kw['bbox_factor'] = ms['factor']
    d = c.get('disc', 'center')
    if d != 'center':
        kw['discretize_method'] = d
        kw['discretize_oversample'] = c.get('os', 10)
    return t, kw


# ----------------------------------------------------------------------------------------------
# oracle
# ----------------------------------------------------------------------------------------------
def _window(n, pos, size):
    """Pixel indices of ceil(pos - size/2) <= j < ceil(pos + size/2) inside [0, n) (explicit loop)."""
    lo = math.ceil(pos - size / 2.0)
    hi = math.ceil(pos + size / 2.0)
    return [j for j in range(n) if lo <= j < hi]


def _discretise(m, js, is_, disc, os_):
    jj, ii = np.meshgrid(np.array(js, float), np.array(is_, float), indexing='ij')
    if disc == 'center':
        return m(ii, jj)
    if disc == 'interp':
        acc = 0
        for dy, dx in itertools.product((-0.5, 0.5), repeat=2):
            acc = acc + m(ii + dx, jj + dy)
        return acc / 4.0
    if disc == 'oversample':
        acc = 0
        sub = [-0.5 + (k + 0.5) / os_ for k in range(os_)]
        for dy, dx in itertools.product(sub, repeat=2):
            acc = acc + m(ii + dx, jj + dy)
        return acc / (os_ * os_)
    if disc == 'integrate':
        g, w = np.polynomial.legendre.leggauss(16)
        g, w = g / 2.0, w / 2.0
        acc = 0
        for (dy, wy), (dx, wx) in itertools.product(zip(g, w), repeat=2):
            acc = acc + m(ii + dx, jj + dy) * (wy * wx)
        return acc
    raise KeyError(disc)


def _row_shape(m, row, msmode, kwshape, factor=None):
    if msmode.startswith('col'):
        v = row['ms']
        return (int(v), int(v)) if np.isscalar(v) else (int(v[0]), int(v[1]))
    if msmode == 'kw':
        return (int(kwshape), int(kwshape)) if np.isscalar(kwshape) else (int(kwshape[0]), int(kwshape[1]))
    bb = m.bounding_box.bounding_box()       # documented: the model's bounding box; ((ylo, yhi), (xlo, xhi))
    if factor is not None:
        # documented: bbox_factor scales the bounding box of models that accept a factor and is
        # ignored for models whose bounding box is fixed
        try:
            bb = m.bounding_box(factor=factor)
        except NotImplementedError:
            pass
    return int(math.ceil(bb[0][1] - bb[0][0])), int(math.ceil(bb[1][1] - bb[1][0]))


def _oracle(shape, model, rows_params, row_shapes_fn, bkgs, disc='center', os_=10):
    """rows_params: list of {param_name: value}; returns (float image, unit or None, n overlapping rows)."""
    import astropy.units as u
    from copy import deepcopy
    ny, nx = shape
    img = np.zeros(shape, float)
    unit = None
    nover = 0
    for k, rp in enumerate(rows_params):
        m = deepcopy(model)
        for name, val in rp['set'].items():
            setattr(m, name, val)
        h, w = row_shapes_fn(m, k)
        js = _window(ny, rp['y'], h)
        is_ = _window(nx, rp['x'], w)
        if not js or not is_:
            continue
        nover += 1
        v = _discretise(m, js, is_, disc, os_)
        b = bkgs[k]
        if isinstance(v, u.Quantity):
            if unit is None:
                unit = v.unit
            v = v.to_value(unit)
            if isinstance(b, u.Quantity):
                b = b.to_value(unit)
        for a, j in enumerate(js):
            for bb_, i in enumerate(is_):
                img[j, i] += v[a, bb_] + b
    return img, unit, nover


def _val(img, unit):
    import astropy.units as u
    if isinstance(img, u.Quantity):
        return img.to_value(unit) if unit is not None else img.value
    return np.asarray(img, float)


def _rows_params(t, kw, model):
    """Row parameter dicts by the documented mapping rule (independent re-statement)."""
    xn, yn = kw['x_name'], kw['y_name']
    mapping = {xn: xn, yn: yn}
    for cn in t.colnames:
        if cn in model.param_names:
            mapping[cn] = cn
    mapping.update(kw.get('params_map') or {})
    out = []
    for r in range(len(t)):
        st = {p: t[cn][r] for p, cn in mapping.items()}
        out.append({'set': st, 'x': float(getattr(st[xn], 'value', st[xn])), 'y': float(getattr(st[yn], 'value', st[yn]))})
    return out


def _render(c, model, t, kw):
    rows = c['rows']
    ms = c['mshape']
    msmode = ms['mode'].split('+')[0]

    def shp(m, k, rows=rows):
        return _row_shape(m, rows[k], msmode, ms.get('kw'), ms.get('factor'))
    bk = [t['local_bkg'][r] for r in range(len(t))] if 'local_bkg' in t.colnames else [0.0] * len(t)
    return _oracle(tuple(c['shape']), model, _rows_params(t, kw, model), shp, bk, c.get('disc', 'center'), c.get('os', 10))


TOUCH_KEY = 'off-image-row-window-ending-at-pixel-0/exception'


def _touches_zero(c, model, t, kw):
    """True iff some row's window ends exactly at pixel 0 on an axis: ceil(pos + size/2) == 0."""
    from copy import deepcopy
    ms = c['mshape']
    msmode = ms['mode'].split('+')[0]
    for k, rp in enumerate(_rows_params(t, kw, model)):
        m = deepcopy(model)
        for name, val in rp['set'].items():
            setattr(m, name, val)
        h, w = _row_shape(m, c['rows'][k], msmode, ms.get('kw'))
        if math.ceil(rp['y'] + h / 2.0) == 0 or math.ceil(rp['x'] + w / 2.0) == 0:
            return True
    return False


def _sub(c, idx):
    return dict(c, rows=[c['rows'][i] for i in idx])


def k_mmi(c):
    import astropy.units as u
    from photutils.datasets import make_model_image
    shape = tuple(c['shape'])
    model, info = _build_model(c['model'])
    unitful = bool(c['model'].get('unit'))
    t, kw = _build_table(c, info)
    snap_m, snap_t = _snapshot_model(model), _snapshot_table(t)
    desc = f"make_model_image({shape}, {c['model']}, rows={c['rows']}, mshape={c['mshape']}, disc={c.get('disc', 'center')}, naming={c.get('naming')})"
    out = []
    exp, unit, nover = _render(c, model, t, kw)
    touch0 = _touches_zero(c, model, t, kw)

    def exc_key(default):
        # a row whose window ends exactly at pixel 0 (no overlap) has its own key (see TOUCH_KEY)
        return TOUCH_KEY if touch0 else ('units/exception' if unitful else default)
    try:
        img = make_model_image(shape, model, t, **kw)
    except Exception as exc:  # noqa: BLE001
        return [(False, exc_key('make_model_image/exception'), f'{desc}: raised {type(exc).__name__}: {exc}',
                 {'exception': repr(exc)})]
    scale = max(1.0, float(np.max(np.abs(exp))))
    tol = (1e-7 if c.get('disc') == 'integrate' else 1e-13) * scale
    v = _val(img, unit)
    okshape = v.shape == shape and v.dtype == np.float64
    out.append((okshape, 'superposition/shape-dtype', f'{desc}: output shape/dtype {v.shape}/{v.dtype}', None))
    if not okshape:
        return out
    d = float(np.max(np.abs(v - exp))) if v.size else 0.0
    fam = 'superposition' if nover else 'off-image-rows-not-skipped'
    out.append((d <= tol and bool(np.all(np.isfinite(v))), fam if c.get('disc', 'center') == 'center' else f'superposition/{c["disc"]}',
                f'{desc}: differs from the explicit per-row superposition by {d:.3e} ({nover} overlapping rows)',
                {'maxdiff': d}))
    if unitful and nover:
        oku = isinstance(img, u.Quantity) and img.unit == unit
        out.append((oku, 'units/missing', f'{desc}: output is {type(img).__name__} with unit '
                    f'{getattr(img, "unit", None)}, expected {unit}', None))
    if not unitful:
        out.append((not isinstance(img, u.Quantity), 'units/spurious', f'{desc}: unit-less model gave a Quantity', None))
    out.append((_snapshot_model(model) == snap_m, 'inputs-unchanged/model', f'{desc}: the input model was modified', None))
    out.append((_snapshot_table(t) == snap_t, 'inputs-unchanged/table', f'{desc}: the input table was modified', None))
    n = len(c['rows'])
    if n >= 2:
        rng = np.random.default_rng(c.get('pseed', 0))
        perms = [list(range(n))[::-1], [int(i) for i in rng.permutation(n)], list(range(1, n)) + [0]]
        for pi in perms:
            c2 = _sub(c, pi)
            t2, kw2 = _build_table(c2, info)
            try:
                img2 = make_model_image(shape, model, t2, **kw2)
            except Exception as exc:  # noqa: BLE001
                out.append((False, exc_key('row-order/exception'),
                            f'{desc}: rows permuted by {pi} raised {type(exc).__name__}: {exc}', {'perm': pi}))
                continue
            d = float(np.max(np.abs(_val(img2, unit) - v)))
            out.append((d <= 1e-12 * scale, 'row-order', f'{desc}: rows permuted by {pi} change the image by {d:.3e}',
                        {'perm': pi, 'maxdiff': d}))
            if unitful and nover:
                out.append((isinstance(img2, u.Quantity) and img2.unit == unit, 'units/missing',
                            f'{desc}: rows permuted by {pi}: output is {type(img2).__name__}, expected unit {unit}',
                            {'perm': pi}))
        ksp = 1 + int(rng.integers(n - 1))
        parts = []
        try:
            for idx in (list(range(ksp)), list(range(ksp, n))):
                c2 = _sub(c, idx)
                t2, kw2 = _build_table(c2, info)
                parts.append(_val(make_model_image(shape, model, t2, **kw2), unit))
            d = float(np.max(np.abs(parts[0] + parts[1] - v)))
            out.append((d <= 1e-12 * scale, 'additive-over-vstack',
                        f'{desc}: image(rows[:{ksp}]) + image(rows[{ksp}:]) differs from image(all rows) by {d:.3e}',
                        {'split': ksp, 'maxdiff': d}))
        except Exception as exc:  # noqa: BLE001
            out.append((False, exc_key('additive-over-vstack/exception'),
                        f'{desc}: rendering a sub-table split at {ksp} raised {type(exc).__name__}: {exc}', None))
    return out


# ----------------------------------------------------------------------------------------------
# PSF photometry model / residual images
# ----------------------------------------------------------------------------------------------
def _prf(F, x0, y0, fwhm, xx, yy):
    s = fwhm / (2.0 * math.sqrt(2.0 * math.log(2.0)))
    erf = np.vectorize(math.erf, otypes=[float])
    r2 = math.sqrt(2.0) * s
    return (F / 4.0 * (erf((xx - x0 + 0.5) / r2) - erf((xx - x0 - 0.5) / r2))
            * (erf((yy - y0 + 0.5) / r2) - erf((yy - y0 - 0.5) / r2)))


def k_phot(c):
    import astropy.units as u
    from astropy.nddata import NDData
    from astropy.table import QTable, Table
    from photutils.background import LocalBackground
    from photutils.detection import DAOStarFinder
    from photutils.psf import CircularGaussianPRF, IterativePSFPhotometry, PSFPhotometry, SourceGrouper
    shape = tuple(c['shape'])
    fwhm = c['fwhm']
    src = c['sources']
    unit = c.get('unit')
    yy, xx = np.mgrid[0:shape[0], 0:shape[1]]
    data = np.zeros(shape)
    for (x, y, f) in src:
        data += _prf(f, x, y, fwhm, xx, yy)
    data += c['bkg']
    model = CircularGaussianPRF(fwhm=fwhm)
    if c.get('fix_flux'):
        model.flux.fixed = True          # positions-only fit (forced flux)
    init = QTable() if unit else Table()
    init['x'] = [s[0] + 0.2 for s in src]
    init['y'] = [s[1] - 0.15 for s in src]
    fl = np.array([s[2] * 0.8 for s in src])
    init['flux'] = fl * u.Unit(unit) if unit else fl
    if c['bkgmode'] == 'column':
        lb = np.full(len(src), c['bkg'])
        init['local_bkg'] = lb * u.Unit(unit) if unit else lb
    lbe = LocalBackground(6, 9) if c['bkgmode'] == 'estimator' else None
    grouper = SourceGrouper(c['minsep']) if c.get('minsep') else None
    dq = data * u.Unit(unit) if unit else data
    desc = f'phot case {c}'
    out = []
    if c['cls'] == 'iter':
        thr = 0.05 * min(s[2] for s in src) / fwhm ** 2
        finder = DAOStarFinder(threshold=thr * u.Unit(unit) if unit else thr, fwhm=fwhm)
        phot = IterativePSFPhotometry(model, c['fit_shape'], finder, grouper=grouper, localbkg_estimator=lbe,
                                      aperture_radius=fwhm, maxiters=c.get('maxiters', 1), sub_shape=c.get('sub_shape'))
        res = phot(dq, init_params=init if c.get('use_init', True) else None)
    else:
        phot = PSFPhotometry(model, c['fit_shape'], grouper=grouper, localbkg_estimator=lbe, aperture_radius=fwhm)
        res = phot(NDData(data, unit=unit) if c.get('nddata') else dq, init_params=init)
    if res is None:
        return [(False, 'phot/no-result', f'{desc}: no result table', None)]
    snap = _snapshot_table(res)
    data0 = data.copy()
    rows = [{'set': {'x_0': float(r['x_fit']), 'y_0': float(r['y_fit']), 'flux': r['flux_fit']},
             'x': float(r['x_fit']), 'y': float(r['y_fit'])} for r in res]
    for psf_shape, incl in itertools.product(c['psf_shapes'], (False, True)):
        ps = psf_shape if (psf_shape is None or np.isscalar(psf_shape)) else tuple(psf_shape)
        mi = phot.make_model_image(shape, psf_shape=ps, include_localbkg=incl)

        def shp(m, k, ps=ps):
            return _row_shape(m, {'ms': None}, 'kw' if ps is not None else 'bbox', ps)
        bk = [res['local_bkg'][k] if incl else 0.0 for k in range(len(res))]
        exp, eunit, nover = _oracle(shape, model, rows, shp, bk)
        scale = max(1.0, float(np.max(np.abs(exp))))
        v = _val(mi, eunit)
        d = float(np.max(np.abs(v - exp)))
        out.append((d <= 1e-12 * scale, 'phot/model-image',
                    f'{desc}: make_model_image(psf_shape={ps}, include_localbkg={incl}) differs from the superposition '
                    f'of the fitted rows by {d:.3e}', {'maxdiff': d}))
        if unit:
            out.append((isinstance(mi, u.Quantity) and mi.unit == u.Unit(unit), 'phot/model-image-units',
                        f'{desc}: model image of unit-ful data is {type(mi).__name__} {getattr(mi, "unit", None)}', None))
        ri = phot.make_residual_image(dq, psf_shape=ps, include_localbkg=incl)
        e = dq - mi
        same = (type(ri) is type(e)) and np.array_equal(np.asarray(getattr(ri, 'value', ri)), np.asarray(getattr(e, 'value', e))) \
            and getattr(ri, 'unit', None) == getattr(e, 'unit', None)
        out.append((bool(same), 'phot/residual-is-data-minus-model',
                    f'{desc}: make_residual_image(psf_shape={ps}, include_localbkg={incl}) != data - make_model_image '
                    f'(max diff {float(np.max(np.abs(_val(ri, eunit) - _val(e, eunit)))):.3e})', None))
        if c.get('nddata') or c.get('check_nddata'):
            nd = NDData(data.copy(), unit=unit)
            rn = phot.make_residual_image(nd, psf_shape=ps, include_localbkg=incl)
            out.append((isinstance(rn, NDData) and np.array_equal(rn.data, _val(e, eunit)) and np.array_equal(nd.data, data0),
                        'phot/residual-nddata', f'{desc}: NDData residual differs from data - model or input NDData changed', None))
    out.append((np.array_equal(data, data0), 'inputs-unchanged/data', f'{desc}: the data array was modified', None))
    out.append((_snapshot_table(res) == snap, 'inputs-unchanged/table', f'{desc}: the results table was modified', None))
    return out


def k_mpmi(c):
    from photutils.datasets import make_model_image
    from photutils.psf import make_psf_model_image
    shape = tuple(c['shape'])
    model, info = _build_model(c['model'])
    ms = c['model_shape']
    msk = ms if (ms is None or np.isscalar(ms)) else tuple(ms)
    snap_m = _snapshot_model(model)
    kwargs = {info['f'][0]: (100, 250)}
    if c.get('fwhm_range'):
        kwargs['fwhm'] = tuple(c['fwhm_range'])
    data, tab = make_psf_model_image(shape, model, c['n'], model_shape=msk, seed=c['seed'], min_separation=c['minsep'],
                                     **kwargs)
    desc = f'make_psf_model_image case {c}'
    out = [(list(tab['id']) == list(range(1, len(tab) + 1)) and 1 <= len(tab) <= c['n'], 'mpmi/ids',
            f'{desc}: ids {list(tab["id"])}', None)]
    kw = dict(x_name=info['x'], y_name=info['y'])
    rows = _rows_params(tab, kw, model)

    fixed_shape = _row_shape(model, {'ms': None}, 'kw' if msk is not None else 'bbox', msk)   # of the INPUT model

    def shp(m, k):
        return fixed_shape
    exp, _, nover = _oracle(shape, model, rows, shp, [0.0] * len(tab))
    d = float(np.max(np.abs(np.asarray(data) - exp)))
    out.append((d <= 1e-12 * max(1.0, float(np.max(np.abs(exp)))), 'mpmi/superposition',
                f'{desc}: image differs from the superposition of the returned table rows by {d:.3e}', {'maxdiff': d}))
    if msk is not None:
        again = make_model_image(shape, model, tab, model_shape=msk, x_name=info['x'], y_name=info['y'])
        out.append((np.array_equal(again, data), 'mpmi/consistent-with-make_model_image',
                    f'{desc}: make_model_image on the returned table differs from the returned image', None))
    out.append((_snapshot_model(model) == snap_m, 'inputs-unchanged/model', f'{desc}: the input model was modified', None))
    return out


_KINDS = {'mmi': k_mmi, 'phot': k_phot, 'mpmi': k_mpmi}


def _evaluate(case):
    try:
        return _KINDS[case['kind']](case)
    except Exception as exc:  # noqa: BLE001
        import traceback
        return [(False, f"exception/{case['kind']}", f'{case}: raised {type(exc).__name__}: {exc} '
                 f'[{traceback.format_exc()[-300:]}]', {'exception': repr(exc)})]


class _Emitter:
    def __init__(self, ctx, cap=3):
        self.ctx, self.cap, self.n = ctx, cap, {}

    def do(self, case, contract, nontrivial=True):
        self.ctx.case(json.dumps(case, sort_keys=True, default=str), nontrivial=nontrivial, contract=contract,
                      sample={'kind': case['kind'], 'model': case.get('model'), 'shape': case.get('shape')})
        for ok, key, what, obs in _evaluate(case):
            if ok:
                continue
            self.n[key] = self.n.get(key, 0) + 1
            if self.n[key] <= self.cap:
                self.ctx.check(False, key, what, dict(case, _key=key, _observed=obs))


# ----------------------------------------------------------------------------------------------
# enumeration
# ----------------------------------------------------------------------------------------------
def _axis_lattice(n, w):
    """Boundary lattice of centre coordinates for an axis of n pixels and a window of w pixels."""
    off = [-100.0, -w / 2.0 - 3.0, -w / 2.0 - 1.0, n - 1 + w / 2.0 + 1.0, n + w + 7.5]   # window misses the image
    # (n-1+w/2+1: ceil(pos - w/2) = n -> empty; the other touching position -w/2, where
    #  ceil(pos + w/2) = 0, is exercised by the dedicated scenario 'touch0')
    on = [-w / 2.0 + 0.01, -0.5, 0.0, 0.49, 0.5, float(n // 2), n // 2 + 0.5, n / 2.0 - 0.3, n - 1.0, n - 0.5,
          n - 1 + w / 2.0]
    return off, on


def _rows_for(rng, shape, scenario, n, w_nom, fw):
    ny, nx = shape
    offx, onx = _axis_lattice(nx, w_nom)
    offy, ony = _axis_lattice(ny, w_nom)

    def pick(on):
        if on:
            return float(rng.choice(onx)), float(rng.choice(ony))
        if rng.random() < 0.5:
            return float(rng.choice(offx)), float(rng.choice(ony + offy))
        return float(rng.choice(onx + offx)), float(rng.choice(offy))
    rows = []
    for k in range(n):
        if scenario == 'all-off':
            on = False
        elif scenario == 'first-off':
            on = k > 0
        elif scenario == 'last-off':
            on = k < n - 1
        else:
            on = rng.random() < 0.7
        x, y = pick(on)
        h = int(rng.choice([1, 2, 3, 4, 5, 6, 9]))
        rows.append({'x': x, 'y': y, 'f': float(np.round(rng.uniform(0.5, 20.0), 3)),
                     'bkg': float(np.round(rng.uniform(-1, 2), 3)), 'ms': h,
                     'ms2': [h, int(rng.choice([1, 2, 3, 4, 7]))], 'fwhm': float(rng.choice(fw))})
    if scenario == 'dup' and n >= 2:
        rows[1] = dict(rows[0])
    if scenario == 'touch0':
        k = int(rng.integers(n))
        if rng.random() < 0.5:
            rows[k]['x'] = -w_nom / 2.0
        else:
            rows[k]['y'] = -w_nom / 2.0
    return rows


def run(ctx):
    em = _Emitter(ctx)
    rng = ctx.rng
    T = ctx.thorough
    shapes = [(1, 1), (1, 5), (4, 1), (3, 3), (8, 9), (12, 7)] + ([(30, 40)] if T else [])
    models = [
        {'name': 'cgprf', 'fwhm': 2.0}, {'name': 'cgprf', 'fwhm': 1.1, 'unit': 'Jy'},
        {'name': 'gprf', 'x_fwhm': 1.5, 'y_fwhm': 3.0, 'theta': 30.0},
        {'name': 'gauss2d', 'x_stddev': 1.2, 'y_stddev': 2.0, 'theta': 0.5},
        {'name': 'gauss2d', 'x_stddev': 0.8, 'y_stddev': 1.5, 'theta': -0.3, 'unit': 'mJy'},
        {'name': 'moffat2d', 'gamma': 1.5, 'alpha': 2.5},
        {'name': 'imagepsf', 'shape': [9, 11], 'os': 2, 'dseed': 11}, {'name': 'imagepsf', 'shape': [7, 7], 'os': [2, 3], 'dseed': 12},
        {'name': 'gridded', 'os': 1, 'dseed': 13}, {'name': 'compound'}, {'name': 'psfmodel'},
    ]
    scenarios = ['mixed', 'first-off', 'all-off', 'last-off', 'dup', 'single', 'empty', 'touch0']
    mshapes = [{'mode': 'kw', 'kw': 5}, {'mode': 'kw', 'kw': [3, 6]}, {'mode': 'kw', 'kw': 4}, {'mode': 'kw', 'kw': 1},
               {'mode': 'col1'}, {'mode': 'col2'}, {'mode': 'col1+kw', 'kw': 7}, {'mode': 'bbox'}, {'mode': 'kw', 'kw': [9, 2]}]
    reps = 8 if T else 1
    n = 0
    for rep in range(reps):
        for shape, model, scen in itertools.product(shapes, models, scenarios):
            n += 1
            if not T and (n % 5) not in (1, 2, 4):      # stride coprime to the loop lengths: every scenario/model/shape is hit
                continue
            ms = mshapes[int(rng.integers(len(mshapes)))]
            if ms['mode'] == 'bbox' and model['name'] in ('compound', 'psfmodel', 'moffat2d'):
                ms = mshapes[n % 4]                       # no usable bounding box
            if scen == 'touch0':
                ms = [{'mode': 'kw', 'kw': 5}, {'mode': 'kw', 'kw': 4}, {'mode': 'kw', 'kw': 1}][n % 3]
            w_nom = ms['kw'] if ms['mode'] == 'kw' and np.isscalar(ms.get('kw', [0])) else 5
            nrows = {'single': 1, 'empty': 0}.get(scen, int(rng.integers(2, 7)))
            rows = _rows_for(rng, shape, scen, nrows, w_nom, [1.0, 2.0, 3.3])
            if ms['mode'].startswith('col2'):
                for r in rows:
                    r['ms'] = r['ms2']
            for r in rows:
                r.pop('ms2')
            disc = 'center'
            os_ = 10
            if model['name'] in ('gauss2d', 'moffat2d', 'cgprf', 'compound') and n % 3 == 0:
                disc = ['interp', 'oversample'][(n // 3) % 2]
                os_ = [3, 4][(n // 6) % 2]
            case = {'kind': 'mmi', 'shape': list(shape), 'model': model, 'rows': rows, 'mshape': ms,
                    'bkg': bool(n % 2), 'naming': 'mapped' if (n % 5 in (1, 3)) else 'native',
                    'fwhm_col': model['name'] == 'cgprf' and n % 4 == 1, 'disc': disc, 'os': os_,
                    'pseed': int(rng.integers(1 << 30))}
            em.do(case, 'make_model_image-superposition', nontrivial=nrows > 0)
    # deterministic F16-type cases: first row off-image with unit-ful models (always run)
    for model in ({'name': 'cgprf', 'fwhm': 2.0, 'unit': 'Jy'}, {'name': 'gauss2d', 'x_stddev': 1.2, 'y_stddev': 2.0, 'theta': 0.0, 'unit': 'mJy'}):
        for bkg in (False, True):
            rows = [{'x': -50.0, 'y': 2.0, 'f': 1.0, 'bkg': 0.1, 'ms': 5, 'fwhm': 2.0},
                    {'x': 3.0, 'y': 4.0, 'f': 2.0, 'bkg': 0.2, 'ms': 5, 'fwhm': 2.0},
                    {'x': 4.5, 'y': 100.0, 'f': 3.0, 'bkg': 0.3, 'ms': 5, 'fwhm': 2.0}]
            em.do({'kind': 'mmi', 'shape': [8, 9], 'model': model, 'rows': rows, 'mshape': {'mode': 'kw', 'kw': 5},
                   'bkg': bkg, 'naming': 'native', 'fwhm_col': False, 'disc': 'center', 'os': 10, 'pseed': 1},
                  'units-independent-of-first-row')
    # unit-ful image-based models whose window (model_shape) is larger than the PSF array: a row
    # may overlap the image with its window while the PSF footprint lies wholly outside it
    for model in ({'name': 'imagepsf', 'shape': [5, 5], 'os': 1, 'dseed': 14, 'unit': 'Jy'},
                  {'name': 'gridded', 'os': 1, 'dseed': 13, 'unit': 'Jy'}):
        for bkg in (False, True):
            for rows in ([{'x': -5.0, 'y': 4.0, 'f': 1.0, 'bkg': 0.1, 'ms': 15, 'fwhm': 2.0}],
                         [{'x': -5.0, 'y': 4.0, 'f': 1.0, 'bkg': 0.1, 'ms': 15, 'fwhm': 2.0},
                          {'x': 4.0, 'y': 4.0, 'f': 2.0, 'bkg': 0.2, 'ms': 15, 'fwhm': 2.0}]):
                em.do({'kind': 'mmi', 'shape': [9, 9], 'model': model, 'rows': rows, 'mshape': {'mode': 'kw', 'kw': 15},
                       'bkg': bkg, 'naming': 'native', 'fwhm_col': False, 'disc': 'center', 'os': 10, 'pseed': 5},
                      'units-independent-of-first-row')
    # bbox_factor x models with a fixed, non-square bounding box (ignored there) and with a scalable
    # one (every tier): the window is the row's (ny, nx) box either way
    for model, factor in (({'name': 'imagepsf', 'shape': [5, 9], 'os': 1, 'dseed': 21}, 3.0),
                          ({'name': 'imagepsf', 'shape': [9, 11], 'os': 2, 'dseed': 11}, 2.0),
                          ({'name': 'gprf', 'x_fwhm': 1.5, 'y_fwhm': 3.0, 'theta': 0.0}, 3.0),
                          ({'name': 'gauss2d', 'x_stddev': 0.7, 'y_stddev': 1.6, 'theta': 0.0}, 3.0),
                          ({'name': 'gauss2d', 'x_stddev': 0.7, 'y_stddev': 1.6, 'theta': 0.0}, None)):
        rows = [{'x': 2.0, 'y': 3.0, 'f': 1.5, 'bkg': 0.25, 'ms': 5, 'fwhm': 2.0},
                {'x': 9.4, 'y': 6.2, 'f': 2.0, 'bkg': 0.5, 'ms': 5, 'fwhm': 2.0},
                {'x': -40.0, 'y': 6.0, 'f': 3.0, 'bkg': 0.75, 'ms': 5, 'fwhm': 2.0}]
        for bkg in (False, True):
            em.do({'kind': 'mmi', 'shape': [13, 15], 'model': model, 'rows': rows,
                   'mshape': {'mode': 'bbox', 'factor': factor}, 'bkg': bkg, 'naming': 'native',
                   'fwhm_col': False, 'disc': 'center', 'os': 10, 'pseed': 3},
                  'make_model_image-superposition')
    # models whose position parameters are fixed (every tier): the rendering sets x / y / flux on a
    # copy, the caller's model keeps its values
    for model in ({'name': 'imagepsf', 'shape': [9, 11], 'os': 2, 'dseed': 11, 'fixed': ['x_0', 'y_0']},
                  {'name': 'gridded', 'os': 1, 'dseed': 13, 'fixed': ['x_0', 'y_0', 'flux']},
                  {'name': 'cgprf', 'fwhm': 2.0, 'fixed': ['x_0', 'y_0']}):
        rows = [{'x': 2.0, 'y': 3.0, 'f': 1.5, 'bkg': 0.25, 'ms': 5, 'fwhm': 2.0},
                {'x': 9.4, 'y': 6.2, 'f': 2.0, 'bkg': 0.5, 'ms': 5, 'fwhm': 2.0}]
        em.do({'kind': 'mmi', 'shape': [13, 15], 'model': model, 'rows': rows, 'mshape': {'mode': 'kw', 'kw': 5},
               'bkg': True, 'naming': 'native', 'fwhm_col': False, 'disc': 'center', 'os': 10, 'pseed': 4},
              'make_model_image-superposition')
    if T:
        for model in ({'name': 'gauss2d', 'x_stddev': 1.2, 'y_stddev': 2.0, 'theta': 0.5}, {'name': 'moffat2d', 'gamma': 1.5, 'alpha': 2.5}):
            rows = [{'x': 1.3, 'y': 0.6, 'f': 2.0, 'bkg': 0.5, 'ms': 3, 'fwhm': 2.0}, {'x': -7.0, 'y': 0.6, 'f': 2.0, 'bkg': 0.5, 'ms': 3, 'fwhm': 2.0}]
            em.do({'kind': 'mmi', 'shape': [3, 4], 'model': model, 'rows': rows, 'mshape': {'mode': 'kw', 'kw': 3},
                   'bkg': True, 'naming': 'native', 'fwhm_col': False, 'disc': 'integrate', 'os': 10, 'pseed': 1},
                  'make_model_image-superposition')

    # PSF photometry model / residual images
    scenes = [
        [(7.3, 8.6, 100.0)],
        [(6.2, 7.1, 100.0), (15.8, 12.4, 60.0)],
        [(6.2, 7.1, 100.0), (9.1, 8.3, 60.0), (16.5, 13.2, 80.0)],
        [(1.2, 1.6, 90.0), (10.5, 9.5, 50.0), (21.3, 18.4, 70.0), (12.9, 10.8, 40.0)],
    ]
    # every container x local background x class at least once in every tier: NDData input with a
    # non-zero local background, checked for include_localbkg both ways
    for cls, bkgmode_, unit in (('psf', 'column', None), ('iter', 'estimator', None), ('psf', 'estimator', 'Jy')):
        em.do({'kind': 'phot', 'shape': [21, 23], 'fwhm': 2.4, 'sources': [list(s) for s in scenes[1]],
               'bkg': 1.5, 'bkgmode': bkgmode_, 'unit': unit, 'cls': cls, 'fit_shape': 5, 'minsep': None,
               'psf_shapes': [5, None], 'nddata': False, 'check_nddata': True, 'maxiters': 1, 'use_init': True,
               'sub_shape': None}, 'photometry-model-and-residual-images')
    # flux held fixed x unit-ful data (every tier): the images still carry the data unit
    for unit in ('Jy', None):
        em.do({'kind': 'phot', 'shape': [21, 23], 'fwhm': 2.4, 'sources': [list(s) for s in scenes[1]],
               'bkg': 0.0, 'bkgmode': 'none', 'unit': unit, 'cls': 'psf', 'fit_shape': 5, 'minsep': None,
               'psf_shapes': [5, None], 'nddata': False, 'check_nddata': bool(unit), 'maxiters': 1,
               'use_init': True, 'sub_shape': None, 'fix_flux': True}, 'photometry-model-and-residual-images')
    pn = 0
    for sc, cls, bkgmode, unit in itertools.product(scenes, ('psf', 'iter'), ('none', 'column', 'estimator'), (None, 'Jy')):
        pn += 1
        if not T and pn % 3 != 1:
            continue
        if cls == 'iter' and bkgmode == 'column':
            bkgmode_ = 'estimator'
        else:
            bkgmode_ = bkgmode
        case = {'kind': 'phot', 'shape': [21, 23], 'fwhm': 2.4, 'sources': [list(s) for s in sc],
                'bkg': 0.0 if bkgmode_ == 'none' else 1.5, 'bkgmode': bkgmode_, 'unit': unit, 'cls': cls,
                'fit_shape': [5, 7][pn % 2], 'minsep': [None, 6.0][(pn // 2) % 2], 'psf_shapes': [5, [7, 9], None],
                'nddata': cls == 'psf' and pn % 4 == 1, 'check_nddata': pn % 4 == 3,
                'maxiters': 1 + (pn % 5 == 0), 'use_init': pn % 7 != 0, 'sub_shape': [None, 9][pn % 2]}
        em.do(case, 'photometry-model-and-residual-images')

    # make_psf_model_image
    for model, n_src, seed, ms in itertools.product(
            [{'name': 'cgprf', 'fwhm': 2.0}, {'name': 'imagepsf', 'shape': [9, 11], 'os': 2, 'dseed': 11}, {'name': 'psfmodel'}],
            (1, 5, 12), (0, 1, 7) if T else (int(rng.integers(100)),), (None, 5, [7, 9])):
        if ms is None and model['name'] == 'psfmodel':
            continue
        em.do({'kind': 'mpmi', 'shape': [31, 40], 'model': model, 'n': n_src, 'seed': seed, 'model_shape': ms,
               'minsep': 3.0, 'fwhm_range': [1.5, 3.0] if (model['name'] == 'cgprf' and seed % 2) else None},
              'make_psf_model_image-consistent')
    for key, cnt in em.n.items():
        ctx.note(f'{key}: {cnt} failing checks (at most {em.cap} recorded)')


def replay(case):
    want = case.get('_key')
    c = {k: v for k, v in case.items() if not k.startswith('_')}
    res = _evaluate(c)
    bad = [(key, what, obs) for ok, key, what, obs in res if not ok and (want is None or key == want)]
    if bad:
        return 'confirmed', bad[0][1], bad[0][2]
    return 'spurious', 'all contracts of this case hold', None
