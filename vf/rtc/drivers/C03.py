"""C03 - covariance under integer translation into a zero-padded canvas and under axis transposition.

Relational (two-run) contracts on the real end-to-end photutils APIs.  The oracle is the property
statement itself: the result on the transformed input must be the transformed result on the original
input.  The transformation of inputs and the expected transformation of outputs are written here
explicitly (shift / swap / 90deg - theta); nothing of photutils is used to predict an output.
"""
import warnings

import numpy as np

BOUNDS = (
    "Scenes: 76x84 float64 frames built from a sub-seed: 6 elliptical Gaussians (amplitude 35..120, "
    "sigma 1.4..3.1, axis ratio 0.5..1, random theta; one blended pair 8.5 px apart; centres >= 22 px "
    "from every frame edge; in odd-numbered scenes the centres are multiples of 1/8 so that the integer "
    "shift is exact in floating point) + N(0, 0.5) noise, a boolean mask of 12 random pixels and an error "
    "array sqrt(0.25 + max(img,0)/4). quick: 2 scenes, thorough: 6 scenes. "
    "Translations: canvas = zeros((ny+dy+py, nx+dx+px)), frame pasted at [dy:dy+ny, dx:dx+nx], mask padded "
    "with False, error with 0, segmentation with 0; (dx,dy,px,py) from {0,1,7,64}^4: quick 7 fixed + 3 "
    "random tuples per scene, thorough all 16 (dx,dy) x 4 (px,py) fixed pairings + 12 random tuples. "
    "Transposition: every array .T.copy(), positions (x,y)->(y,x), aperture theta -> pi/2 - theta. "
    "APIs x configurations per (scene, transform): aperture_photometry (6 aperture shapes x "
    "exact/center/subpixel, with mask+error, at the 6 source centres + 5 lattice points incl. apertures flush "
    "with the frame edge and pixel centres exactly on the aperture boundary), ApertureMask bbox/data, ApertureStats (5 configs over circle/ellipse/annuli: plain, sigma_clip, "
    "center sum, local_bkg+mask+error+subpixel; 46 outputs each), find_peaks (4 configs incl. noise-level threshold, footprint, mask, "
    "centroid_func, npeaks), DAOStarFinder (4 configs incl. elliptical kernel, xycoords and a noise-level threshold giving >100 "
    "detections), IRAFStarFinder (3), StarFinder (3), detect_sources (3 configs), deblend_sources (3 modes), SourceCatalog (3 configs: plain; "
    "error+mask+background+convolved_data; localbkg_width+kron_params; ~80 outputs incl. windowed/quadratic "
    "centroids, Kron, fluxfrac_radius, circular_photometry, moments), RadialProfile and CurveOfGrowth (3 centres x "
    "{exact, center} with mask+error), make_model_image (Gaussian2D rotated + CircularGaussianPRF, model_shape and "
    "bbox_factor, sources inside the frame and flush with its edge; translation only), centroid_sources (com, "
    "quadratic, 1dg, 2dg), and the bare centroid functions centroid_com/quadratic/1dg/2dg (transposition only: "
    "zero padding legitimately changes a Gaussian+constant fit). The star finders, find_peaks, detect/deblend and "
    "make_model_image are checked under translation only (the property states transposition for aperture "
    "photometry, SourceCatalog, centroid functions and profiles). "
    "Only sources whose measurement footprint lies inside the original frame are compared (detections: peak at "
    "least one footprint from the frame edge in original coordinates; catalog sources: 6*semimajor_sigma circle and "
    "local-background annulus inside the frame). "
    "Tolerances: integer-only outputs (bbox_*, *_index, x_peak/y_peak, npix, labels, label images, area of "
    "segments, mask bbox) exactly equal after the shift; values copied from the data (peak_value, min/max) exactly "
    "equal; float positions |b - (a + shift)| <= 1e-9; position-free floats |a-b| <= 1e-9*max(|a|,|b|) + 1e-10 "
    "(data magnitude <= ~125, <= ~2000 px per sum); outputs of iterative least-squares fits (centroid_1dg/2dg, "
    "RadialProfile.gaussian_fit) under transposition <= 2e-5 absolute (fitter termination tolerance); orientation "
    "compared modulo 180 deg with 1e-7 deg."
)
RULE = (
    "A case is one (API, configuration, scene sub-seed, transform) evaluation: the API is run on the original "
    "scene (cached per scene) and on the transformed scene and every output column is compared after applying the "
    "expected transformation. Distinctness key = (api, config, scene sub-seed, transform). A case is non-trivial "
    "when at least one source/row was compared and, for translations, the transform is not the identity "
    "(0,0,0,0) (the identity is run once per scene as a determinism control and counted trivial)."
)

OFFS = (0, 1, 7, 64)
NY, NX = 76, 84
MARGIN = 22
POS_ATOL = 1e-9
FREE_RTOL = 1e-9
FREE_ATOL = 1e-10
FIT_ATOL = 2e-5


# ----------------------------------------------------------------------------------------------
# scenes and transforms
# ----------------------------------------------------------------------------------------------
def _gauss(xx, yy, x0, y0, a, sx, sy, th):
    c, s = np.cos(th), np.sin(th)
    xr = (xx - x0) * c + (yy - y0) * s
    yr = -(xx - x0) * s + (yy - y0) * c
    return a * np.exp(-0.5 * ((xr / sx) ** 2 + (yr / sy) ** 2))


class Scene:
    def __init__(self, sub, idx):
        rng = np.random.default_rng([int(sub), int(idx)])
        self.sub, self.idx = int(sub), int(idx)
        ny, nx = NY, NX
        yy, xx = np.mgrid[0:ny, 0:nx]
        anchors = np.array([(34., 34.), (52., 24.5), (59.5, 38.), (25., 51.), (49., 51.)])
        jit = rng.uniform(-2, 2, anchors.shape)
        pos = anchors + jit
        # blended companion of source 0
        ang = rng.uniform(0, 2 * np.pi)
        pos = np.vstack([pos, pos[0] + 8.5 * np.array([np.cos(ang), np.sin(ang)])])
        if idx % 2 == 1:
            pos = np.round(pos * 8) / 8
        pos[:, 0] = np.clip(pos[:, 0], MARGIN, nx - 1 - MARGIN)
        pos[:, 1] = np.clip(pos[:, 1], MARGIN, ny - 1 - MARGIN)
        n = len(pos)
        amp = rng.permutation(np.linspace(35, 120, n))
        smaj = rng.uniform(1.8, 3.1, n)
        ratio = rng.uniform(0.5, 1.0, n)
        smaj[[0, n - 1]] = np.minimum(smaj[[0, n - 1]], 2.3)      # keep the blended pair separable
        smin = np.maximum(smaj * ratio, 1.4)
        th = rng.uniform(0, np.pi, n)
        img = np.zeros((ny, nx))
        for i in range(n):
            img += _gauss(xx, yy, pos[i, 0], pos[i, 1], amp[i], smaj[i], smin[i], th[i])
        img += rng.normal(0, 0.5, img.shape)
        mask = np.zeros((ny, nx), bool)
        mi = rng.integers(0, ny, 12)
        mj = rng.integers(0, nx, 12)
        mask[mi, mj] = True
        # make sure at least two masked pixels fall inside sources
        for k in (1, 3):
            mask[int(round(pos[k, 1])) + 1, int(round(pos[k, 0])) - 2] = True
        self.img = img
        self.mask = mask
        self.err = np.sqrt(0.25 + np.maximum(img, 0) / 4.0)
        self.bkg = 0.05 + 0.001 * xx + 0.002 * yy
        self.pos = pos
        self.amp, self.smaj, self.smin, self.th = amp, smaj, smin, th
        self.rand_theta = rng.uniform(0, np.pi, 8)
        self._ref = {}


class View:
    """The scene under a transform: ('S', dx, dy, px, py) or ('T',)."""

    def __init__(self, scene, mode):
        self.scene = scene
        self.mode = tuple(mode)
        self.kind = self.mode[0]
        if self.kind == 'S':
            _, self.dx, self.dy, self.px, self.py = self.mode
        else:
            self.dx = self.dy = self.px = self.py = 0
        self.data = self.arr(scene.img)
        self.mask = self.arr(scene.mask)
        self.err = self.arr(scene.err)
        self.bkg = self.arr(scene.bkg)
        self.shape = self.data.shape

    def arr(self, a):
        a = np.asarray(a)
        if self.kind == 'T':
            return a.T.copy()
        ny, nx = a.shape
        out = np.zeros((ny + self.dy + self.py, nx + self.dx + self.px), dtype=a.dtype)
        out[self.dy:self.dy + ny, self.dx:self.dx + nx] = a
        return out

    def xy(self, x, y):
        """Transform positions given in original coordinates."""
        x = np.asarray(x, float)
        y = np.asarray(y, float)
        if self.kind == 'T':
            return y.copy(), x.copy()
        return x + self.dx, y + self.dy

    def pts(self, p):
        p = np.atleast_2d(np.asarray(p, float))
        x, y = self.xy(p[:, 0], p[:, 1])
        return np.column_stack([x, y])

    def orig(self, x, y):
        """Original-frame coordinates of positions reported on this view."""
        x = np.asarray(x, float)
        y = np.asarray(y, float)
        if self.kind == 'T':
            return y, x
        return x - self.dx, y - self.dy

    def ang(self, th):
        return (np.pi / 2 - th) if self.kind == 'T' else th

    def wh(self, w, h):
        """Sizes along (x, y) -> swapped under transposition."""
        return (h, w) if self.kind == 'T' else (w, h)


IDENT = ('S', 0, 0, 0, 0)


# ----------------------------------------------------------------------------------------------
# output records and comparison
# ----------------------------------------------------------------------------------------------
# an API returns {name: (kind, value[, partner])}
#  kinds: 'xi','yi'  integer position (exact)            'x','y'  float position
#         'xy'       (...,2) float (x,y)                  'yxi'    (...,2) integer (y,x)
#         'free'     position-free float                  'exact'  must be identical
#         'deg'/'rad' orientation                         'mat'    (...,k,k) matrices M[i(y), j(x)]
#         'fit'      position-free, from an iterative fit 'xfit','yfit' float position from a fit
#         'img'      image-like array (float)             'lab'    image-like integer array
#         'imgin'    image-like array compared inside the embedded frame only
#         'exact_s'  identical in the same order under translation, identical as a multiset under transposition
#  partner: name of the output this one maps onto under transposition (default: itself)
def _num(v):
    v = getattr(v, 'value', v)
    if isinstance(v, np.ma.MaskedArray):
        v = v.filled(np.nan)
    return np.asarray(v)


def _close(a, b, rtol, atol):
    a = np.asarray(a, float)
    b = np.asarray(b, float)
    if a.shape != b.shape:
        return False, 'shape %s vs %s' % (a.shape, b.shape)
    nan_a, nan_b = np.isnan(a), np.isnan(b)
    if not np.array_equal(nan_a, nan_b):
        return False, 'NaN pattern differs'
    inf = np.isinf(a) | np.isinf(b)
    if np.any(inf) and not np.array_equal(a[inf], b[inf]):
        return False, 'inf pattern differs'
    fin = ~(nan_a | inf)
    if not np.any(fin):
        return True, ''
    d = np.abs(a[fin] - b[fin])
    tol = atol + rtol * np.maximum(np.abs(a[fin]), np.abs(b[fin]))
    bad = d > tol
    if np.any(bad):
        k = int(np.argmax(d - tol))
        return False, 'max excess |diff|=%.3e (expected %.17g, got %.17g)' % (d[k], a[fin][k], b[fin][k])
    return True, ''


def _exact(a, b):
    a = np.asarray(a)
    b = np.asarray(b)
    if a.shape != b.shape:
        return False, 'shape %s vs %s' % (a.shape, b.shape)
    if a.dtype.kind == 'f' or b.dtype.kind == 'f':
        ok = np.array_equal(a, b, equal_nan=True)
    else:
        ok = np.array_equal(a, b)
    if ok:
        return True, ''
    bad = np.argwhere(~((a == b) | ((a != a) & (b != b)))) if a.dtype.kind == 'f' else np.argwhere(a != b)
    i = tuple(bad[0])
    return False, 'first difference at %s: expected %r, got %r' % (i, a[i].item(), b[i].item())


def compare(ref, out, view, api):
    """Return a list of (key, what).  ref = outputs on the original scene, out = on the view."""
    fails = []
    mode = 'shift' if view.kind == 'S' else 'transpose'
    dx, dy = view.dx, view.dy
    if set(ref) != set(out):
        fails.append(('%s/%s/outputs' % (api, mode), 'output sets differ: %s' % sorted(set(ref) ^ set(out))))
        return fails
    for name, rec in ref.items():
        kind, a = rec[0], rec[1]
        partner = rec[2] if len(rec) > 2 else name
        tname = partner if view.kind == 'T' else name
        tkind = out[tname][0]
        b = _num(out[tname][1])
        a = _num(a)
        T = view.kind == 'T'
        if kind in ('xi', 'yi'):
            sh = 0 if T else (dx if kind == 'xi' else dy)
            ok, msg = _exact(a + sh, b)
            if ok and not (a.dtype.kind in 'iu' and b.dtype.kind in 'iu'):
                ok, msg = False, 'integer-valued output has dtype %s/%s' % (a.dtype, b.dtype)
        elif kind in ('x', 'y', 'xfit', 'yfit'):
            sh = 0 if T else (dx if kind[0] == 'x' else dy)
            atol = FIT_ATOL if (T and kind.endswith('fit')) else POS_ATOL
            ok, msg = _close(a + sh, b, 0.0, atol)
        elif kind == 'xy':
            e = a[..., ::-1] if T else a + np.array([dx, dy], float)
            ok, msg = _close(e, b, 0.0, POS_ATOL)
        elif kind == 'yxi':
            e = a[..., ::-1] if T else a + np.array([dy, dx])
            ok, msg = _exact(e, b)
        elif kind == 'free':
            ok, msg = _close(a, b, FREE_RTOL, FREE_ATOL)
        elif kind == 'fit':
            if T:
                ok, msg = _close(a, b, FIT_ATOL, FIT_ATOL)
            else:
                ok, msg = _close(a, b, FREE_RTOL, FREE_ATOL)
        elif kind == 'exact':
            ok, msg = _exact(a, b)
        elif kind == 'exact_s':
            ok, msg = _exact(np.sort(a), np.sort(b)) if T else _exact(a, b)
        elif kind in ('deg', 'rad'):
            half = 180.0 if kind == 'deg' else np.pi
            e = (half / 2 - a) if T else a
            a_f, b_f = np.asarray(e, float), np.asarray(b, float)
            if a_f.shape != b_f.shape or not np.array_equal(np.isnan(a_f), np.isnan(b_f)):
                ok, msg = False, 'shape/NaN pattern differs'
            else:
                d = np.mod(a_f - b_f, half)
                d = np.minimum(d, half - d)
                tol = 1e-7 if kind == 'deg' else 2e-9
                ok = bool(np.all(d[~np.isnan(d)] <= tol))
                msg = '' if ok else 'max orientation mismatch %.3e %s (mod %g)' % (np.nanmax(d), kind, half)
        elif kind == 'mat':
            e = np.swapaxes(a, -1, -2) if T else a
            ok, msg = _close(e, b, FREE_RTOL, FREE_ATOL)
        elif kind == 'imgin':
            # only the embedded frame is compared (the canvas may legitimately hold flux of
            # sources that lie outside the original frame)
            if T or b.ndim != 2:
                ok, msg = _close(a.T if T else a, b, FREE_RTOL, FREE_ATOL)
            else:
                ny, nx = a.shape
                ok, msg = _close(a, b[dy:dy + ny, dx:dx + nx], FREE_RTOL, FREE_ATOL)
        elif kind in ('img', 'lab'):
            if T:
                e = a.T
            else:
                ny, nx = a.shape
                e = np.zeros(b.shape, dtype=a.dtype) if b.ndim == 2 else a
                if b.ndim == 2 and b.shape == (ny + dy + view.py, nx + dx + view.px):
                    e[dy:dy + ny, dx:dx + nx] = a
            if kind == 'lab':
                ok, msg = _exact(e, b)
            else:
                ok, msg = _close(e, b, FREE_RTOL, FREE_ATOL)
        else:  # pragma: no cover
            raise ValueError(kind)
        if not ok:
            fails.append(('%s/%s/%s' % (api, mode, name.split('#')[0]),
                          '%s %s: output %r (config part %r) not covariant: %s'
                          % (api, view.mode, name.split('#')[0], name, msg)))
    return fails


# ----------------------------------------------------------------------------------------------
# API runners: f(view, cfg) -> {name: (kind, value[, partner])}, n_rows
# ----------------------------------------------------------------------------------------------
def _lattice_points(scene):
    # apertures flush with the frame edge: r=5 circle at x=4.5 has bbox ixmin = 0; r=5 at x=nx-5.5 -> ixmax = nx
    # (41,12): integer centre, r = 5 -> pixel centres (36,12), (44,8), ... lie exactly on the circle;
    # (12.5,40.5): centre on a pixel corner
    return np.array([(4.5, 30.0), (NX - 5.5, NY - 5.5), (40.0, 4.5), (41.0, 12.0), (12.5, 40.5)])


def _apertures(view, which):
    from photutils.aperture import (CircularAnnulus, CircularAperture, EllipticalAnnulus,
                                    EllipticalAperture, RectangularAnnulus, RectangularAperture)
    sc = view.scene
    p = np.vstack([sc.pos, _lattice_points(sc)])
    pts = view.pts(p)
    th = view.ang(sc.rand_theta[0])
    th2 = view.ang(sc.rand_theta[1])
    if which == 'circ':
        return CircularAperture(pts, 5.0)
    if which == 'circann':
        return CircularAnnulus(pts, 2.5, 5.0)
    if which == 'ell':
        return EllipticalAperture(pts, 5.0, 3.0, theta=th)
    if which == 'ellann':
        return EllipticalAnnulus(pts, 2.0, 5.0, 3.5, theta=th2)
    if which == 'rect':
        return RectangularAperture(pts, 6.0, 3.0, theta=th)
    if which == 'rectann':
        return RectangularAnnulus(pts, 2.0, 6.0, 4.0, theta=th2)
    raise ValueError(which)


APER_SHAPES = ('circ', 'circann', 'ell', 'ellann', 'rect', 'rectann')


def api_aperture_photometry(view, cfg):
    from photutils.aperture import aperture_photometry
    shape, method = cfg
    ap = _apertures(view, shape)
    kw = dict(method=method)
    if method == 'subpixel':
        kw['subpixels'] = 4
    t = aperture_photometry(view.data, ap, error=view.err, mask=view.mask, **kw)
    t2 = aperture_photometry(view.data, ap, **kw)
    out = {
        'xcenter': ('x', t['xcenter'], 'ycenter'),
        'ycenter': ('y', t['ycenter'], 'xcenter'),
        'aperture_sum': ('free', t['aperture_sum']),
        'aperture_sum_err': ('free', t['aperture_sum_err']),
        'aperture_sum#nomask': ('free', t2['aperture_sum']),
    }
    return out, len(t)


def api_aperture_mask(view, cfg):
    shape, method = cfg
    ap = _apertures(view, shape)
    masks = ap.to_mask(method=method, subpixels=4)
    out = {}
    bb = np.array([(m.bbox.ixmin, m.bbox.ixmax, m.bbox.iymin, m.bbox.iymax) for m in masks])
    out['bbox_ixmin'] = ('xi', bb[:, 0], 'bbox_iymin')
    out['bbox_ixmax'] = ('xi', bb[:, 1], 'bbox_iymax')
    out['bbox_iymin'] = ('yi', bb[:, 2], 'bbox_ixmin')
    out['bbox_iymax'] = ('yi', bb[:, 3], 'bbox_ixmax')
    for i, m in enumerate(masks):
        out['mask_data#%d' % i] = ('mat', np.asarray(m.data))
        out['mask_area#%d' % i] = ('free', float(np.sum(m.data)))
    # cutout of the data through the mask: weighted pixel values
    for i in (0, len(masks) - 1):
        w = masks[i].multiply(view.data)
        out['multiply#%d' % i] = ('mat', np.asarray(w))
    return out, len(masks)


AS_FREE = ('sum', 'sum_err', 'sum_aper_area', 'center_aper_area', 'min', 'max', 'mean', 'median', 'mode',
           'std', 'mad_std', 'var', 'biweight_location', 'biweight_midvariance', 'fwhm', 'semimajor_sigma',
           'semiminor_sigma', 'eccentricity', 'ellipticity', 'elongation', 'gini', 'covariance_eigvals')


def api_aperture_stats(view, cfg):
    from astropy.stats import SigmaClip
    from photutils.aperture import ApertureStats
    shape, variant = cfg
    sc = view.scene
    ap = _apertures(view, shape)
    # keep only the source-centred apertures (statistics need the footprint inside the frame: true for all,
    # the lattice apertures are flush with the edge but inside)
    kw = {}
    if variant == 'clip':
        kw = dict(sigma_clip=SigmaClip(sigma=2.5, maxiters=5))
    elif variant == 'full':
        n = len(ap.positions)
        kw = dict(error=view.err, mask=view.mask, local_bkg=np.linspace(0.1, 0.9, n), sum_method='subpixel',
                  subpixels=3)
    elif variant == 'center':
        kw = dict(sum_method='center', error=view.err)
    s = ApertureStats(view.data, ap, **kw)
    out = {
        'xcentroid': ('x', s.xcentroid, 'ycentroid'),
        'ycentroid': ('y', s.ycentroid, 'xcentroid'),
        'centroid': ('xy', s.centroid),
        'cutout_centroid': ('free', _num(s.cutout_centroid)[..., ::-1] if view.kind == 'T'
                            else _num(s.cutout_centroid)),
        'bbox_xmin': ('xi', s.bbox_xmin, 'bbox_ymin'),
        'bbox_xmax': ('xi', s.bbox_xmax, 'bbox_ymax'),
        'bbox_ymin': ('yi', s.bbox_ymin, 'bbox_xmin'),
        'bbox_ymax': ('yi', s.bbox_ymax, 'bbox_xmax'),
        'orientation': ('deg', s.orientation),
        'covar_sigx2': ('free', s.covar_sigx2, 'covar_sigy2'),
        'covar_sigy2': ('free', s.covar_sigy2, 'covar_sigx2'),
        'covar_sigxy': ('free', s.covar_sigxy),
        'cxx': ('free', s.cxx, 'cyy'),
        'cyy': ('free', s.cyy, 'cxx'),
        'cxy': ('free', s.cxy),
        'moments': ('mat', s.moments),
        'moments_central': ('mat', s.moments_central),
    }
    # (cutout_centroid is position-free under translation: the cutout moves with the aperture)
    for name in AS_FREE:
        out[name] = ('free', getattr(s, name))
    bb = s.bbox
    bb = bb if isinstance(bb, (list, tuple, np.ndarray)) else [bb]
    out['bbox.ixmin'] = ('xi', np.array([b.ixmin for b in bb]), 'bbox.iymin')
    out['bbox.iymin'] = ('yi', np.array([b.iymin for b in bb]), 'bbox.ixmin')
    out['bbox.shape_x'] = ('exact', np.array([b.shape[1] for b in bb]), 'bbox.shape_y')
    out['bbox.shape_y'] = ('exact', np.array([b.shape[0] for b in bb]), 'bbox.shape_x')
    t = s.to_table()
    out['table.xcentroid'] = ('x', t['xcentroid'], 'table.ycentroid')
    out['table.ycentroid'] = ('y', t['ycentroid'], 'table.xcentroid')
    out['table.sum'] = ('free', t['sum'])
    return out, len(ap.positions)


def _rows_sorted(view, x, y, margin, ix=None, iy=None):
    """Indices of the rows whose (original-frame) position is >= margin from the frame edge, sorted by the
    integer pixel of the original-frame position (row-major)."""
    ox, oy = view.orig(_num(x), _num(y))
    kx = np.rint(ox).astype(int) if ix is None else view.orig(_num(ix), _num(iy))[0].astype(int)
    ky = np.rint(oy).astype(int) if iy is None else view.orig(_num(ix), _num(iy))[1].astype(int)
    keep = (kx >= margin) & (kx <= NX - 1 - margin) & (ky >= margin) & (ky <= NY - 1 - margin)
    idx = np.nonzero(keep)[0]
    order = np.lexsort((kx[idx], ky[idx]))
    return idx[order]


def api_find_peaks(view, cfg):
    from photutils.centroids import centroid_com
    from photutils.detection import find_peaks
    name = cfg
    sc = view.scene
    kw = {}
    if name == 'noise':
        thr, kw, h = 0.6, dict(box_size=5), 2
    elif name == 'box3mask':
        thr, kw, h = 0.9, dict(box_size=3, mask=view.mask), 1
    elif name == 'footprint':
        fp = np.array([[0, 1, 1, 1, 0], [1, 1, 1, 1, 1], [0, 1, 1, 1, 0]], bool)  # 3 rows x 5 cols
        if view.kind == 'T':
            fp = fp.T.copy()
        thr, kw, h = 0.8, dict(footprint=fp), 2
    elif name == 'centroid':
        thr, kw, h = 8.0, dict(box_size=(view.wh(7, 5)[::-1]), centroid_func=centroid_com, error=view.err,
                               npeaks=5), 3
    t = find_peaks(view.data, thr, **kw)
    if t is None:
        return {'n': ('exact', 0)}, 0
    idx = _rows_sorted(view, t['x_peak'], t['y_peak'], h + (12 if name == 'centroid' else 0),
                       ix=t['x_peak'], iy=t['y_peak'])
    out = {
        'n': ('exact', len(idx)),
        'x_peak': ('xi', np.asarray(t['x_peak'])[idx], 'y_peak'),
        'y_peak': ('yi', np.asarray(t['y_peak'])[idx], 'x_peak'),
        'peak_value': ('exact', np.asarray(t['peak_value'])[idx]),
    }
    if name == 'centroid':
        out['x_centroid'] = ('x', np.asarray(t['x_centroid'])[idx], 'y_centroid')
        out['y_centroid'] = ('y', np.asarray(t['y_centroid'])[idx], 'x_centroid')
    return out, len(idx)


def _finder_out(view, t, margin, intcols=('npix',)):
    if t is None:
        return {'n': ('exact', 0)}, 0
    idx = _rows_sorted(view, t['xcentroid'], t['ycentroid'], margin)
    out = {'n': ('exact', len(idx)),
           'xcentroid': ('x', np.asarray(t['xcentroid'])[idx]),
           'ycentroid': ('y', np.asarray(t['ycentroid'])[idx])}
    for c in t.colnames:
        if c in ('id', 'xcentroid', 'ycentroid'):
            continue
        v = np.asarray(t[c])[idx]
        if c in intcols:
            out[c] = ('exact', v)
        elif c == 'peak':
            out[c] = ('exact', v)
        elif c == 'pa':
            out[c] = ('free', v)
        else:
            out[c] = ('free', v)
    return out, len(idx)


def api_dao(view, cfg):
    from photutils.detection import DAOStarFinder
    sc = view.scene
    if cfg == 'round':
        f = DAOStarFinder(threshold=3.0, fwhm=4.0, sharplo=0.0, sharphi=2.0, roundlo=-2.0, roundhi=2.0)
        m = 8
    elif cfg == 'elliptical':
        f = DAOStarFinder(threshold=4.0, fwhm=5.0, ratio=0.6, theta=35.0, sharplo=0.0, sharphi=2.0,
                          roundlo=-3.0, roundhi=3.0, brightest=4, min_separation=3.0)
        m = 10
    elif cfg == 'xycoords':
        xy = view.pts(np.rint(sc.pos))
        f = DAOStarFinder(threshold=3.0, fwhm=4.0, sharplo=0.0, sharphi=2.0, roundlo=-2.0, roundhi=2.0,
                          xycoords=xy)
        m = 8
    elif cfg == 'noise':
        f = DAOStarFinder(threshold=0.8, fwhm=3.0, sharplo=-5.0, sharphi=5.0, roundlo=-5.0, roundhi=5.0)
        m = 7
    t = f(view.data, mask=view.mask if cfg == 'round' else None)
    return _finder_out(view, t, m)


def api_iraf(view, cfg):
    from photutils.detection import IRAFStarFinder
    sc = view.scene
    if cfg == 'default':
        f = IRAFStarFinder(threshold=3.0, fwhm=4.0, sharplo=0.0, sharphi=5.0, roundlo=0.0, roundhi=5.0)
        m = 8
    elif cfg == 'xycoords':
        xy = view.pts(np.rint(sc.pos))
        f = IRAFStarFinder(threshold=3.0, fwhm=3.5, sharplo=0.0, sharphi=5.0, roundlo=0.0, roundhi=5.0,
                           xycoords=xy, min_separation=2.0)
        m = 8
    elif cfg == 'noise':
        f = IRAFStarFinder(threshold=1.2, fwhm=3.0, sharplo=-5.0, sharphi=5.0, roundlo=-5.0, roundhi=5.0,
                           minsep_fwhm=1.0)
        m = 7
    t = f(view.data, mask=view.mask if cfg == 'default' else None)
    return _finder_out(view, t, m)


def api_starfinder(view, cfg):
    from photutils.detection import StarFinder
    yy, xx = np.mgrid[0:11, 0:13]
    if cfg == 'k11x13':
        k = _gauss(xx, yy, 6.0, 5.0, 1.0, 2.4, 1.9, 0.0)
        f = StarFinder(4.0, k, min_separation=4.0)
        m = 14
    elif cfg == 'noise':
        k = _gauss(xx[:7, :7], yy[:7, :7], 3.0, 3.0, 1.0, 1.5, 1.5, 0.0)
        f = StarFinder(0.5, k, min_separation=2.0)
        m = 9
    else:
        k = _gauss(xx[:9, :9], yy[:9, :9], 4.0, 4.0, 1.0, 2.0, 2.0, 0.0)
        f = StarFinder(5.0, k, min_separation=3.0, brightest=4, peakmax=500.0)
        m = 10
    t = f(view.data, mask=view.mask if cfg == 'k11x13' else None)
    return _finder_out(view, t, m)


DETECT_CFG = {'c8': dict(threshold=2.5, npixels=5, connectivity=8),
              'c4mask': dict(threshold=3.0, npixels=7, connectivity=4, mask=True),
              'thrimg': dict(threshold='img', npixels=5, connectivity=8)}


def _detect(view, cfg):
    from photutils.segmentation import detect_sources
    c = dict(DETECT_CFG[cfg])
    thr = c.pop('threshold')
    if isinstance(thr, str):
        thr = 2.5 + 10 * view.bkg      # 2-D threshold image (embedded/transposed with the data)
    if c.pop('mask', False):
        c['mask'] = view.mask
    return detect_sources(view.data, thr, **c)


def api_detect(view, cfg):
    seg = _detect(view, cfg)
    if seg is None:
        return {'nlabels': ('exact', 0)}, 0
    return {'nlabels': ('exact', seg.nlabels), 'labels': ('exact', seg.labels), 'data': ('lab', seg.data),
            'areas': ('exact', seg.areas)}, seg.nlabels


def _deblend(view, mode):
    from photutils.segmentation import deblend_sources
    seg = _detect(view, 'c8')
    return deblend_sources(view.data, seg, npixels=5, nlevels=32, contrast=0.001, mode=mode, progress_bar=False)


def api_deblend(view, cfg):
    seg = _deblend(view, cfg)
    return {'nlabels': ('exact', seg.nlabels), 'labels': ('exact', seg.labels), 'data': ('lab', seg.data),
            'areas': ('exact', seg.areas)}, seg.nlabels


SC_XPAIRS = [('xcentroid', 'ycentroid', 'f'), ('xcentroid_win', 'ycentroid_win', 'f'),
             ('xcentroid_quad', 'ycentroid_quad', 'f'), ('bbox_xmin', 'bbox_ymin', 'i'),
             ('bbox_xmax', 'bbox_ymax', 'i'), ('minval_xindex', 'minval_yindex', 'i'),
             ('maxval_xindex', 'maxval_yindex', 'i')]
SC_FREE = ('semimajor_sigma', 'semiminor_sigma', 'eccentricity', 'ellipticity', 'elongation', 'segment_flux',
           'segment_fluxerr', 'kron_flux', 'kron_fluxerr', 'kron_radius', 'fwhm', 'gini', 'perimeter',
           'equivalent_radius', 'cxy', 'covar_sigxy', 'local_background', 'background_mean', 'background_sum',
           'covariance_eigvals')
SC_EXACT = ('label', 'min_value', 'max_value')
SC_SWAPFREE = [('cxx', 'cyy'), ('covar_sigx2', 'covar_sigy2')]


def api_sourcecatalog(view, cfg):
    from astropy.convolution import convolve
    from photutils.segmentation import SegmentationImage, SourceCatalog
    sc = view.scene
    # the segmentation map is an *input* of the catalog: it is built once on the original scene and embedded
    # / transposed like the data (labels preserved), as the property statement prescribes
    if 'segm' not in sc._ref:
        sc._ref['segm'] = _deblend(View(sc, IDENT), 'exponential').data.copy()
    segm = SegmentationImage(view.arr(sc._ref['segm']))
    kw = {}
    if cfg == 'full':
        k = _gauss(*np.mgrid[0:5, 0:5][::-1], 2.0, 2.0, 1.0, 1.2, 1.2, 0.0)
        k /= k.sum()
        if 'conv' not in sc._ref:
            sc._ref['conv'] = convolve(sc.img - sc.bkg, k, normalize_kernel=True)
        kw = dict(error=view.err, mask=view.mask, background=view.bkg, convolved_data=view.arr(sc._ref['conv']))
        data = view.data - view.bkg
    elif cfg == 'localbkg':
        kw = dict(localbkg_width=6, kron_params=(2.0, 1.0, 0.0), error=view.err, apermask_method='mask')
        data = view.data
    else:
        data = view.data
    cat = SourceCatalog(data, segm, **kw)
    n = cat.nlabels
    # footprint-inside-the-frame selection, in original coordinates
    ox, oy = view.orig(_num(cat.xcentroid), _num(cat.ycentroid))
    rad = 6.0 * _num(cat.semimajor_sigma) + 1.0
    if cfg == 'localbkg':
        # the local-background annulus (an input-independent footprint reported by the catalog) must lie inside
        # the original frame too
        la = cat.local_background_aperture
        la = la if isinstance(la, (list, tuple)) else [la]
        inside_bkg = np.zeros(n, bool)
        for i, a in enumerate(la):
            if a is None:
                continue
            b = a.bbox
            cx, cy = view.orig([b.ixmin, b.ixmax - 1], [b.iymin, b.iymax - 1])
            inside_bkg[i] = (min(cx) >= 0 and max(cx) <= NX - 1 and min(cy) >= 0 and max(cy) <= NY - 1)
    else:
        inside_bkg = np.ones(n, bool)
    inside = (ox - rad >= 0) & (ox + rad <= NX - 1) & (oy - rad >= 0) & (oy + rad <= NY - 1) & inside_bkg
    sel = np.nonzero(inside)[0]
    out = {'nlabels': ('exact', n), 'inside': ('exact', inside)}

    def g(name):
        return _num(getattr(cat, name))[sel]
    for xn, yn, typ in SC_XPAIRS:
        out[xn] = ('x' if typ == 'f' else 'xi', g(xn), yn)
        out[yn] = ('y' if typ == 'f' else 'yi', g(yn), xn)
    for nm in SC_FREE:
        out[nm] = ('free', g(nm))
    for nm in SC_EXACT:
        # min/max are copied from the data, except that with localbkg_width a float statistic (sigma-clipped
        # median of the annulus, summation-order dependent at the 1-ulp level) is subtracted first
        out[nm] = ('free' if (cfg == 'localbkg' and nm != 'label') else 'exact', g(nm))
    for a, b in SC_SWAPFREE:
        out[a] = ('free', g(a), b)
        out[b] = ('free', g(b), a)
    out['area'] = ('exact', g('area'))
    out['segment_area'] = ('exact', g('segment_area'))
    out['orientation'] = ('deg', g('orientation'))
    for nm in ('centroid', 'centroid_win', 'centroid_quad'):
        out[nm] = ('xy', g(nm))
    for nm in ('minval_index', 'maxval_index'):
        out[nm] = ('yxi', g(nm))
    for nm in ('moments', 'moments_central', 'covariance', 'inertia_tensor'):
        v = g(nm)
        if nm == 'inertia_tensor' or nm == 'covariance':
            # 2x2 symmetric with (x,x) and (y,y) entries on the diagonal: transposition swaps the diagonal
            if view.kind == 'T':
                v = v[:, ::-1, ::-1]
            out[nm] = ('free', v)
        else:
            out[nm] = ('mat', v)
    # cutout-relative quantities are position-free under translation and swap under transposition
    for nm in ('cutout_centroid', 'cutout_centroid_win', 'cutout_centroid_quad'):
        v = g(nm)
        out[nm] = ('free', v[:, ::-1] if view.kind == 'T' else v)
    for nm in ('cutout_minval_index', 'cutout_maxval_index'):
        v = g(nm)
        out[nm] = ('exact', v[:, ::-1] if view.kind == 'T' else v)
    bb = [cat.bbox[i] for i in sel] if n > 1 else ([cat.bbox] if len(sel) else [])
    out['bbox.ixmin'] = ('xi', np.array([b.ixmin for b in bb], int), 'bbox.iymin')
    out['bbox.iymin'] = ('yi', np.array([b.iymin for b in bb], int), 'bbox.ixmin')
    out['bbox.ixmax'] = ('xi', np.array([b.ixmax for b in bb], int), 'bbox.iymax')
    out['bbox.iymax'] = ('yi', np.array([b.iymax for b in bb], int), 'bbox.ixmax')
    sl = [cat.slices[i] for i in sel] if n > 1 else ([cat.slices] if len(sel) else [])
    out['slices.xstart'] = ('xi', np.array([s[1].start for s in sl], int), 'slices.ystart')
    out['slices.ystart'] = ('yi', np.array([s[0].start for s in sl], int), 'slices.xstart')
    out['slices.xstop'] = ('xi', np.array([s[1].stop for s in sl], int), 'slices.ystop')
    out['slices.ystop'] = ('yi', np.array([s[0].stop for s in sl], int), 'slices.xstop')
    # Kron apertures
    ka = cat.kron_aperture
    ka = ka if isinstance(ka, (list, tuple)) else [ka]
    ka = [ka[i] for i in sel]
    if all(a is not None for a in ka):
        out['kron_aperture.positions'] = ('xy', np.array([np.ravel(a.positions) for a in ka]).reshape(len(ka), 2))
        out['kron_aperture.a'] = ('free', np.array([a.a for a in ka]))
        out['kron_aperture.b'] = ('free', np.array([a.b for a in ka]))
        out['kron_aperture.theta'] = ('rad', np.array([_num(a.theta) for a in ka], float))
    else:
        out['kron_aperture.none'] = ('exact', np.array([a is None for a in ka]))
    fr = cat.fluxfrac_radius(0.5)
    out['fluxfrac_radius_0.5'] = ('free', _num(fr)[sel])
    cf, cfe = cat.circular_photometry(4.0)
    out['circular_photometry_4.flux'] = ('free', _num(cf)[sel])
    out['circular_photometry_4.fluxerr'] = ('free', _num(cfe)[sel])
    t = cat.to_table()
    out['table.xcentroid'] = ('x', _num(t['xcentroid'])[sel], 'table.ycentroid')
    out['table.ycentroid'] = ('y', _num(t['ycentroid'])[sel], 'table.xcentroid')
    out['table.bbox_xmin'] = ('xi', _num(t['bbox_xmin'])[sel], 'table.bbox_ymin')
    out['table.bbox_ymin'] = ('yi', _num(t['bbox_ymin'])[sel], 'table.bbox_xmin')
    # cutouts: data cutout of the brightest selected source is identical (transposed under T)
    if len(sel):
        j = int(sel[np.argmax(_num(cat.segment_flux)[sel])])
        src = cat[j] if n > 1 else cat
        out['data_cutout'] = ('mat', np.asarray(_num(src.data)))
        out['segment_cutout'] = ('mat', np.asarray(_num(src.segment)).astype(float))
    return out, len(sel)


PROFILE_RADII = np.array([0.0, 1.0, 2.0, 3.5, 5.0, 7.0, 9.0, 12.0])


def _profile_centre(view, isrc):
    """A source position, or ('edge'): a centre whose largest aperture touches the last column
    and the last row of the original frame (still inside it: footprint <= frame)."""
    sc = view.scene
    if isrc == 'edge':
        ny, nx = np.asarray(sc.img).shape
        rmax = float(PROFILE_RADII[-1])
        return view.xy(nx - 0.5 - rmax - 0.25, ny - 0.5 - rmax - 0.1)
    return view.xy(sc.pos[isrc, 0], sc.pos[isrc, 1])


def api_radial_profile(view, cfg):
    from photutils.profiles import RadialProfile
    isrc, method = cfg
    sc = view.scene
    x, y = _profile_centre(view, isrc)
    kw = dict(method=method)
    if method == 'subpixel':
        kw['subpixels'] = 3
    rp = RadialProfile(view.data, (float(x), float(y)), PROFILE_RADII, error=view.err, mask=view.mask, **kw)
    rp0 = RadialProfile(view.data, (float(x), float(y)), PROFILE_RADII, **kw)
    dr = _num(rp0.data_radius)
    dp = _num(rp0.data_profile)
    o = np.lexsort((dp, np.round(dr, 9)))
    out = {
        'radius': ('exact', rp.radius),
        'profile': ('free', rp.profile),
        'profile_error': ('free', rp.profile_error),
        'area': ('free', rp.area),
        'profile#nomask': ('free', rp0.profile),
        'data_radius(sorted)': ('free', dr[o]),
        'data_profile(sorted)': ('exact', dp[o]),
        'gaussian_fit.amplitude': ('fit', rp0.gaussian_fit.amplitude.value),
        'gaussian_fit.stddev': ('fit', rp0.gaussian_fit.stddev.value),
        'gaussian_fwhm': ('fit', rp0.gaussian_fwhm),
    }
    # same raster order of the cutout under translation; same multiset under transposition
    out['data_profile(raster)'] = ('exact_s', dp)
    rp0.normalize(method='max')
    out['profile#normalized'] = ('free', rp0.profile)
    return out, 1


def api_curve_of_growth(view, cfg):
    from photutils.profiles import CurveOfGrowth
    isrc, method = cfg
    sc = view.scene
    x, y = _profile_centre(view, isrc)
    kw = dict(method=method)
    if method == 'subpixel':
        kw['subpixels'] = 3
    cg = CurveOfGrowth(view.data, (float(x), float(y)), PROFILE_RADII[1:], error=view.err, mask=view.mask, **kw)
    out = {
        'radius': ('exact', cg.radius),
        'profile': ('free', cg.profile),
        'profile_error': ('free', cg.profile_error),
        'area': ('free', cg.area),
    }
    cg.normalize(method='max')
    out['profile#normalized'] = ('free', cg.profile)
    out['calc_ee_at_radius'] = ('free', cg.calc_ee_at_radius(np.array([1.5, 4.0, 8.0])))
    out['calc_radius_at_ee'] = ('free', cg.calc_radius_at_ee(np.array([0.3, 0.5, 0.8])))
    return out, 1


def api_make_model_image(view, cfg):
    from astropy.modeling.models import Gaussian2D
    from astropy.table import QTable
    from photutils.datasets import make_model_image
    from photutils.psf import CircularGaussianPRF
    sc = view.scene
    # sources inside the frame + sources whose rendering box is flush with the frame edge
    p = np.vstack([sc.pos, [(7.0, 30.0), (NX - 8.0, NY - 8.0), (33.25, 7.0)]])
    x, y = view.xy(p[:, 0], p[:, 1])
    n = len(p)
    t = QTable()
    if cfg == 'gauss2d':
        model = Gaussian2D()
        t['x_mean'] = x
        t['y_mean'] = y
        t['amplitude'] = np.linspace(10, 90, n)
        t['x_stddev'] = np.linspace(1.5, 3.0, n)
        t['y_stddev'] = np.linspace(2.5, 1.2, n)
        t['theta'] = np.resize(sc.rand_theta, n)
        img = make_model_image(view.shape, model, t, model_shape=(15, 15), x_name='x_mean', y_name='y_mean')
    elif cfg == 'gauss2d_bkg':
        # a per-row local background, and a first row that lies wholly off the original frame (it
        # may land on the larger canvas, outside the embedded frame): the frame pixels still hold
        # each in-frame row's own background
        p2 = np.vstack([[(-10.0, 20.0)], p])
        x, y = view.xy(p2[:, 0], p2[:, 1])
        n = len(p2)
        model = Gaussian2D()
        t['x_mean'] = x
        t['y_mean'] = y
        t['amplitude'] = np.linspace(10, 90, n)
        t['x_stddev'] = np.linspace(1.5, 3.0, n)
        t['y_stddev'] = np.linspace(2.5, 1.2, n)
        t['theta'] = np.resize(sc.rand_theta, n)
        t['local_bkg'] = np.linspace(0.5, 4.0, n)
        img = make_model_image(view.shape, model, t, model_shape=(15, 15), x_name='x_mean', y_name='y_mean')
    elif cfg == 'prf_bbox':
        model = CircularGaussianPRF()
        t['x_0'] = x
        t['y_0'] = y
        t['flux'] = np.linspace(100, 900, n)
        t['fwhm'] = np.linspace(2.0, 3.2, n)
        # CircularGaussianPRF bounding box = 5.5 sigma*? ; bbox_factor scales it. Keep inside: the flush sources
        # are 7 px from the edge, so restrict to the first 6 rows (>= 22 px from the edge) for this config
        t = t[:6]
        img = make_model_image(view.shape, model, t, bbox_factor=2.0)
    elif cfg == 'prf_over':
        model = CircularGaussianPRF()
        t['x_0'] = x
        t['y_0'] = y
        t['flux'] = np.linspace(100, 900, n)
        t['fwhm'] = np.linspace(2.0, 3.2, n)
        img = make_model_image(view.shape, model, t, model_shape=(13, 15), discretize_method='oversample',
                               discretize_oversample=3)
    return {'image': ('imgin' if cfg == 'gauss2d_bkg' else 'img', img)}, len(t)


def api_centroid_sources(view, cfg):
    from photutils.centroids import (centroid_1dg, centroid_2dg, centroid_com, centroid_quadratic,
                                     centroid_sources)
    sc = view.scene
    func = dict(com=centroid_com, quadratic=centroid_quadratic, g1=centroid_1dg, g2=centroid_2dg)[cfg]
    p = sc.pos[1:5]
    x, y = view.xy(np.rint(p[:, 0]) + 0.25, np.rint(p[:, 1]) - 0.25)
    bs = view.wh(9, 11)[::-1]   # (ny, nx)
    kw = {}
    if cfg in ('com', 'g1'):
        kw['mask'] = view.mask
    if cfg == 'g1':
        kw['error'] = view.err
    xc, yc = centroid_sources(view.data, x, y, box_size=bs, centroid_func=func, **kw)
    fitk = cfg in ('g1', 'g2')
    return {'x': ('xfit' if fitk else 'x', xc, 'y'), 'y': ('yfit' if fitk else 'y', yc, 'x')}, len(x)


def api_centroid_func(view, cfg):
    from photutils.centroids import centroid_1dg, centroid_2dg, centroid_com, centroid_quadratic
    fname, isrc = cfg[:2]
    line = cfg[2] if len(cfg) > 2 else None      # 'row' / 'col': one whole line of the cutout masked
    func = dict(com=centroid_com, quadratic=centroid_quadratic, g1=centroid_1dg, g2=centroid_2dg)[fname]
    sc = view.scene
    if view.kind != 'T' and view.mode != IDENT:
        raise ValueError('bare centroid functions are checked under transposition only')
    ix, iy = int(round(sc.pos[isrc, 0])), int(round(sc.pos[isrc, 1]))
    sl = (slice(iy - 6, iy + 7), slice(ix - 8, ix + 7))       # 13 x 15 asymmetric cutout
    cut = sc.img[sl]
    msk = sc.mask[sl].copy()
    if line == 'row':
        msk[3, :] = True          # a fully masked row, two rows below the source (non-square cutout)
        cut = cut.copy()
        cut[3, :] = 1.0e4         # ... holding junk
    elif line == 'col':
        msk[:, 4] = True
        cut = cut.copy()
        cut[:, 4] = 1.0e4
    if view.kind == 'T':
        cut, msk = cut.T.copy(), msk.T.copy()
    c = func(cut, mask=msk)
    c2 = func(cut)
    fitk = fname in ('g1', 'g2')
    return {'x': ('xfit' if fitk else 'x', c[0], 'y'), 'y': ('yfit' if fitk else 'y', c[1], 'x'),
            'x#nomask': ('xfit' if fitk else 'x', c2[0], 'y#nomask'),
            'y#nomask': ('yfit' if fitk else 'y', c2[1], 'x#nomask')}, 1


def api_centroid_quadratic_peak(view, cfg):
    """centroid_quadratic with a peak hint and a search box that an image edge trims (on the x
    side, the y side, or not at all): under transposition the roles of the axes swap."""
    from photutils.centroids import centroid_quadratic
    isrc, side = cfg
    sc = view.scene
    if view.kind != 'T' and view.mode != IDENT:
        raise ValueError('bare centroid functions are checked under transposition only')
    ix, iy = int(round(sc.pos[isrc, 0])), int(round(sc.pos[isrc, 1]))
    if side == 'x':
        sl = (slice(iy - 6, iy + 7), slice(ix - 2, ix + 13))      # source two columns from the left edge
        xp, yp = 1, 6            # hint one column off; the search box [-2, 5) is trimmed to 5 columns
    elif side == 'y':
        sl = (slice(iy - 2, iy + 11), slice(ix - 7, ix + 8))      # source two rows from the bottom edge
        xp, yp = 7, 1
    else:
        sl = (slice(iy - 6, iy + 7), slice(ix - 7, ix + 8))
        xp, yp = 8, 5
    cut = sc.img[sl]
    fit, search = (3, 5), (5, 7)          # (ny, nx)
    if view.kind == 'T':
        cut = cut.T.copy()
        xp, yp = yp, xp
        fit, search = fit[::-1], search[::-1]
    c = centroid_quadratic(cut, xpeak=xp, ypeak=yp, fit_boxsize=fit, search_boxsize=search)
    return {'x': ('x', c[0], 'y'), 'y': ('y', c[1], 'x')}, 1


# api name -> (function, configs, modes) ; modes: 'S' translation, 'T' transposition
APIS = {
    'aperture_photometry': (api_aperture_photometry,
                            [(s, m) for s in APER_SHAPES for m in ('exact', 'center', 'subpixel')], 'ST'),
    'aperture_mask': (api_aperture_mask, [(s, m) for s in ('circ', 'ellann', 'rect') for m in ('exact', 'center')],
                      'ST'),
    'ApertureStats': (api_aperture_stats, [('circ', 'plain'), ('ell', 'clip'), ('rectann', 'full'),
                                           ('ell', 'center'), ('circann', 'full')], 'ST'),
    'find_peaks': (api_find_peaks, ['noise', 'box3mask', 'footprint', 'centroid'], 'S'),
    'DAOStarFinder': (api_dao, ['round', 'elliptical', 'xycoords', 'noise'], 'S'),
    'IRAFStarFinder': (api_iraf, ['default', 'xycoords', 'noise'], 'S'),
    'StarFinder': (api_starfinder, ['k11x13', 'k9', 'noise'], 'S'),
    'detect_sources': (api_detect, ['c8', 'c4mask', 'thrimg'], 'S'),
    'deblend_sources': (api_deblend, ['exponential', 'linear', 'sinh'], 'S'),
    'SourceCatalog': (api_sourcecatalog, ['plain', 'full', 'localbkg'], 'ST'),
    'RadialProfile': (api_radial_profile, [(0, 'exact'), (2, 'center'), (4, 'subpixel'), ('edge', 'exact'),
                                           ('edge', 'center')], 'ST'),
    'CurveOfGrowth': (api_curve_of_growth, [(1, 'exact'), (3, 'center'), (5, 'subpixel')], 'ST'),
    'make_model_image': (api_make_model_image, ['gauss2d', 'gauss2d_bkg', 'prf_bbox', 'prf_over'], 'S'),
    'centroid_sources': (api_centroid_sources, ['com', 'quadratic', 'g1', 'g2'], 'ST'),
    'centroid_func': (api_centroid_func, [(f, i) for f in ('com', 'quadratic', 'g1', 'g2') for i in (1, 4)]
                      + [(f, 1, ln) for f in ('com', 'g1', 'g2') for ln in ('row', 'col')], 'T'),
    'centroid_quadratic_peak': (api_centroid_quadratic_peak, [(i, sd) for i in (1, 4) for sd in ('x', 'y', 'none')], 'T'),
}


def evaluate(scene, api, cfg, mode):
    """Run one (api, cfg) on the original scene (cached) and under `mode`; return (fails, nrows)."""
    func = APIS[api][0]
    cfg_t = tuple(cfg) if isinstance(cfg, list) else cfg
    rk = (api, cfg_t)
    with warnings.catch_warnings():
        warnings.simplefilter('ignore')
        if rk not in scene._ref:
            try:
                scene._ref[rk] = func(View(scene, IDENT), cfg_t)
            except Exception as e:  # noqa: BLE001
                scene._ref[rk] = e
        ref = scene._ref[rk]
        view = View(scene, mode)
        try:
            out = func(view, cfg_t)
        except Exception as e:  # noqa: BLE001
            out = e
    m = 'shift' if view.kind == 'S' else 'transpose'
    if isinstance(ref, Exception):
        return [('%s/original/raises' % api, '%s cfg %r raised on the original scene: %s: %s'
                 % (api, cfg_t, type(ref).__name__, ref))], 0
    if isinstance(out, Exception):
        return [('%s/%s/raises' % (api, m), '%s cfg %r mode %r raised where the original scene succeeded: %s: %s'
                 % (api, cfg_t, mode, type(out).__name__, out))], 0
    fails = compare(ref[0], out[0], view, api)
    return fails, min(ref[1], out[1])


def _modes(ctx, nscene_idx):
    rng = ctx.rng
    fixed = [(0, 0, 0, 0), (1, 0, 0, 1), (0, 7, 7, 0), (7, 1, 64, 7), (64, 64, 0, 0), (1, 64, 1, 1), (64, 7, 7, 64)]
    if ctx.thorough:
        fixed = [(0, 0, 0, 0)]
        pads = [(0, 0), (1, 7), (64, 1), (7, 64)]
        for i, dx in enumerate(OFFS):
            for j, dy in enumerate(OFFS):
                px, py = pads[(i + j + nscene_idx) % 4]
                if (dx, dy, px, py) != (0, 0, 0, 0):
                    fixed.append((dx, dy, px, py))
        nrand = 12
    else:
        nrand = 3
    out = list(fixed)
    while len(out) < len(fixed) + nrand:
        t = tuple(int(v) for v in rng.choice(OFFS, 4))
        if t not in out:
            out.append(t)
    return [('S',) + t for t in out] + [('T',)]


def run(ctx):
    nscenes = 6 if ctx.thorough else 2
    nrec = {}
    for idx in range(nscenes):
        sub = int(ctx.rng.integers(0, 2 ** 31 - 1))
        scene = Scene(sub, idx)
        modes = _modes(ctx, idx)
        for mode in modes:
            for api, (func, cfgs, allowed) in APIS.items():
                if mode[0] not in allowed:
                    continue
                for cfg in cfgs:
                    fails, nrows = evaluate(scene, api, cfg, mode)
                    key = (api, cfg, sub, idx, mode)
                    nontrivial = nrows > 0 and mode != IDENT
                    ctx.case(key, nontrivial=nontrivial, contract='%s/%s' % (api, 'shift' if mode[0] == 'S'
                                                                             else 'transpose'),
                             sample={'api': api, 'cfg': repr(cfg), 'mode': list(mode), 'rows': int(nrows)})
                    for fkey, what in fails:
                        # every evaluation is checked; at most 4 failing cases are recorded per failure key
                        nrec[fkey] = nrec.get(fkey, 0) + 1
                        if nrec[fkey] <= 4:
                            ctx.check(False, fkey, what,
                                      case={'sub': sub, 'idx': idx, 'api': api, 'cfg': cfg, 'mode': list(mode),
                                            'key': fkey})
        ctx.note('scene %d (sub-seed %d): %d transforms' % (idx, sub, len(modes)))
    for fkey, n in sorted(nrec.items()):
        ctx.note('failure key %s: %d failing evaluations (first 4 recorded)' % (fkey, n))


def replay(case):
    try:
        scene = Scene(case['sub'], case['idx'])
        cfg = case['cfg']
        cfg = tuple(cfg) if isinstance(cfg, list) else cfg
        fails, nrows = evaluate(scene, case['api'], cfg, tuple(case['mode']))
    except Exception as e:  # noqa: BLE001
        return 'error', '%s: %s' % (type(e).__name__, e), None
    keys = [k for k, _ in fails]
    if case.get('key') in keys or (case.get('key') is None and fails):
        what = [w for k, w in fails if k == case.get('key')] or [fails[0][1]]
        return 'confirmed', what[0], {'failing_keys': sorted(set(keys))}
    return 'spurious', 'no failure for %s on replay (rows compared: %d)' % (case.get('key'), nrows), \
        {'failing_keys': sorted(set(keys))}
