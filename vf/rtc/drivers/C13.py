"""C13 -- PSF/PRF models are flux-normalised and interpolate their data faithfully (bounded rtc driver).

Every check is a pure function of a small JSON-able ``case`` dict (``_KINDS[case['kind']]``) that
returns a list of ``(ok, key, what, observed)``; ``run`` enumerates the cases, ``replay`` re-evaluates
one of them.  Oracles are closed-form spec functions written from the property statement
(math.erf / exp), lattice sums, Gauss-Legendre pixel integrals, radial quadrature and explicit
bilinear blends of the *input* arrays; they never call photutils.
"""
import itertools
import json
import math

import numpy as np

BOUNDS = (
    "PRF pixel sums: CircularGaussianPRF, CircularGaussianSigmaPRF, IntegratedGaussianPRF, GaussianPRF "
    "(x_fwhm, y_fwhm=r*x_fwhm, r in {1,2,0.5}) with fwhm in {0.2,0.3,0.5,1,1.3,2.5,4,7} (sigma form: the same "
    "numbers as sigma), centres on the 7x7 sub-pixel lattice {-1/2,-1/3,-1/6,0,1/6,1/3,1/2}^2 (quick: 4x4 of it "
    "+ seeded extras) and two far-off centres, theta in {0,90,180,270,-90} (unrotated) and {30,45,60,137,-20.5} "
    "(rotated), flux in {3,1e-3,2.5e4}; the 'unbounded' grid is the integer lattice within ceil(12*sigma_max)+3 "
    "px of the centre (neglected tail < 1e-30); |sum/F-1| <= 1e-10.  Point-wise: model == spec formula on a "
    "13x11 window (rtol 1e-11, atol 1e-15*F), PRF pixel == 64x64 Gauss-Legendre integral of the PSF spec over the "
    "pixel (1e-10*F, unrotated).  PSF integrals: Gaussian PSFs by lattice sums with step sigma_min/4 over "
    "+-9.5 sigma_max (Poisson-summation error < 1e-30; tol 1e-11), MoffatPSF (alpha in {0.7,3}, beta in "
    "{1.5,2.5,4.765} (+1.2,10 thorough)) by scipy quad of 2*pi*r*f along 2 directions on [0,inf) (tol 1e-8), "
    "AiryDiskPSF (radius in {0.8,2.5,6}) by composite Gauss-Legendre of 2*pi*r*f on [0,R], R in {1,3,10}*radius "
    "against the Rayleigh encircled-energy identity 1-J0^2-J1^2 (tol 1e-9) and the closed-form central value.  "
    "Shape: values >= 0, point symmetry and translation covariance on dyadic offsets (rtol 1e-12), maximum at "
    "the centre, exact linearity in flux for power-of-two factors (rtol 1e-15).  Consistency: circular vs "
    "elliptical Gaussian PSF at theta in {0,30,37,45,90,137.3,-61} (rtol 1e-11 within 8 sigma), circular vs "
    "elliptical PRF at multiples of 90 deg (atol 1e-14*F) and (F24 key) other angles, sigma vs FWHM forms.  "
    "ImagePSF: seeded random arrays of shape {(4,4),(5,7),(9,11),(8,8)} x oversampling {1,2,3,4,(2,3),(3,1),(1,4)} x "
    "origin {None,(2,3),(4.5,1.25),(0,0),(-1.5,2)} x 2 centres x fill_value {-7,0,nan}: knots |v-F*data| <= "
    "1e-9*F*max|data| (interior knots strict; edge knots may be fill_value), between-knot points vs an "
    "independent RectBivariateSpline(s=0) (1e-9), points >= 1e-6 outside -> fill_value exactly, evaluation "
    "history/copy/deepcopy bitwise equal.  GriddedPSFModel: grids {2x2,3x2,2x4,4x3} irregular spacing, shuffled "
    "input order, and degenerate layouts {1x1,1x3,3x1}; ePSF shapes {(9,9),(7,11),(8,6)}, oversampling "
    "{1,2,(2,3),4}; at every grid position, inside every cell (fractions incl. 0.5 and seeded), on cell edges, "
    "outside the grid on all 8 sides: |v - F*blend(data)| <= 1e-9*F at the interior sample points; fill outside the "
    "footprint; a model with history / a copy / a deepcopy / a fresh model give bitwise equal values.")

RULE = (
    "Cases are the cross products listed in BOUNDS (exhaustive over the lattices; seeded only for the random "
    "arrays, the extra sub-pixel centres and the in-cell fractions).  A case is the dict of its parameters; two "
    "cases are distinct iff the dicts differ; all cases evaluate the real model on >= 9 points and are "
    "non-trivial.  Failure keys name the model family and the clause, not the parameters.")

K = 2.0 * math.sqrt(2.0 * math.log(2.0))     # fwhm = K * sigma
F24_KEY = 'gaussianprf/rotated-pixel-sum'

_verf = np.vectorize(math.erf, otypes=[float])


# ----------------------------------------------------------------------------------------------
# spec functions (from the property statement)
# ----------------------------------------------------------------------------------------------
def _rot(x, y, x0, y0, theta_deg):
    t = math.radians(theta_deg)
    dx = np.asarray(x, float) - x0
    dy = np.asarray(y, float) - y0
    return dx * math.cos(t) + dy * math.sin(t), -dx * math.sin(t) + dy * math.cos(t)


def spec_gauss_psf(x, y, F, x0, y0, fx, fy, theta):
    sx, sy = fx / K, fy / K
    xp, yp = _rot(x, y, x0, y0, theta)
    return F / (2 * math.pi * sx * sy) * np.exp(-(xp ** 2 / (2 * sx ** 2) + yp ** 2 / (2 * sy ** 2)))


def spec_gauss_prf(x, y, F, x0, y0, fx, fy, theta):
    sx, sy = fx / K, fy / K
    xp, yp = _rot(x, y, x0, y0, theta)
    r2 = math.sqrt(2.0)
    return (F / 4.0 * (_verf((xp + 0.5) / (r2 * sx)) - _verf((xp - 0.5) / (r2 * sx)))
            * (_verf((yp + 0.5) / (r2 * sy)) - _verf((yp - 0.5) / (r2 * sy))))


def spec_moffat(x, y, F, x0, y0, alpha, beta):
    r2 = (np.asarray(x, float) - x0) ** 2 + (np.asarray(y, float) - y0) ** 2
    return F * (beta - 1) / (math.pi * alpha ** 2) * (1 + r2 / alpha ** 2) ** (-beta)


def _make(name, p):
    import photutils.psf as P
    cls = getattr(P, name)
    return cls(**p)


def _gauss_like_params(name, p):
    """(fx, fy, theta) of a Gaussian-family model parameter dict."""
    if name in ('GaussianPSF', 'GaussianPRF'):
        return p['x_fwhm'], p['y_fwhm'], p.get('theta', 0.0)
    if name in ('CircularGaussianPSF', 'CircularGaussianPRF'):
        return p['fwhm'], p['fwhm'], 0.0
    if name in ('CircularGaussianSigmaPRF', 'IntegratedGaussianPRF'):
        return p['sigma'] * K, p['sigma'] * K, 0.0
    raise KeyError(name)


def _is_rotated(theta):
    return abs(theta / 90.0 - round(theta / 90.0)) > 1e-12


# ----------------------------------------------------------------------------------------------
# check kinds
# ----------------------------------------------------------------------------------------------
def k_prf_sum(c):
    name, p = c['model'], c['params']
    fx, fy, theta = _gauss_like_params(name, p)
    smax = max(fx, fy) / K
    W = int(math.ceil(12 * smax)) + 3
    cx, cy = int(round(p['x_0'])), int(round(p['y_0']))
    yy, xx = np.mgrid[cy - W:cy + W + 1, cx - W:cx + W + 1]
    v = _make(name, p)(xx, yy)
    s = float(np.sum(v))
    F = p['flux']
    ok = abs(s / F - 1.0) <= 1e-10
    key = F24_KEY if _is_rotated(theta) else f'prf-sum/{name}'
    return [(ok, key, f'{name}{p}: sum over pixels = {s!r}, flux = {F!r}', {'sum': s, 'flux': F})]


def k_prf_point(c):
    """PRF == documented erf formula; unrotated PRF pixel == integral of the PSF spec over the pixel."""
    name, p = c['model'], c['params']
    fx, fy, theta = _gauss_like_params(name, p)
    F, x0, y0 = p['flux'], p['x_0'], p['y_0']
    cx, cy = int(round(x0)), int(round(y0))
    yy, xx = np.mgrid[cy - 5:cy + 6, cx - 6:cx + 7]
    v = np.asarray(_make(name, p)(xx, yy), float)
    out = []
    e = spec_gauss_prf(xx, yy, F, x0, y0, fx, fy, theta)
    d = float(np.max(np.abs(v - e) - 1e-11 * np.abs(e)))
    out.append((d <= 1e-15 * F, f'prf-formula/{name}',
                f'{name}{p}: differs from F/4*[erf][erf] by {d:.3e}', {'excess': d}))
    if not _is_rotated(theta):
        # exact pixel integral of the (axis-aligned) Gaussian by Gauss-Legendre; theta in 90*k
        k90 = int(round(theta / 90.0)) % 2
        ex, ey = (fx, fy) if k90 == 0 else (fy, fx)
        g, w = np.polynomial.legendre.leggauss(64)
        g, w = g / 2.0, w / 2.0
        jj, ii = np.mgrid[cy - 2:cy + 3, cx - 2:cx + 3]
        X = ii[..., None, None] + g[None, None, None, :]
        Y = jj[..., None, None] + g[None, None, :, None]
        I = np.sum(spec_gauss_psf(X, Y, F, x0, y0, ex, ey, 0.0) * w[None, None, :, None] * w[None, None, None, :],
                   axis=(2, 3))
        vv = np.asarray(_make(name, p)(ii, jj), float)
        d = float(np.max(np.abs(vv - I)))
        out.append((d <= 1e-10 * F, f'prf-pixel-integral/{name}',
                    f'{name}{p}: pixel value differs from the integral of the Gaussian over the pixel by {d:.3e}',
                    {'maxdiff': d}))
    return out


def k_psf_gauss_integral(c):
    name, p = c['model'], c['params']
    fx, fy, theta = _gauss_like_params(name, p)
    F, x0, y0 = p['flux'], p['x_0'], p['y_0']
    smin, smax = min(fx, fy) / K, max(fx, fy) / K
    h = smin / 4.0
    n = int(math.ceil(9.5 * smax / h))
    off = c.get('offset', 0.3) * h
    ax = (np.arange(-n, n + 1) * h) + off
    X, Y = np.meshgrid(x0 + ax, y0 + ax)
    m = _make(name, p)
    v = np.asarray(m(X, Y), float)
    s = float(np.sum(v) * h * h)
    out = [(abs(s / F - 1) <= 1e-11, f'psf-integral/{name}',
            f'{name}{p}: integral = {s!r}, flux = {F!r}', {'integral': s})]
    e = spec_gauss_psf(X, Y, F, x0, y0, fx, fy, theta)
    inside = e > 1e-14 * e.max()
    d = float(np.max(np.abs(v - e)[inside] / e[inside]))
    out.append((d <= 1e-11, f'psf-formula/{name}', f'{name}{p}: rel. deviation from the Gaussian spec {d:.3e}',
                {'rel': d}))
    out.append((bool(np.all(v >= 0)), f'nonneg/{name}', f'{name}{p}: negative value', None))
    return out


def k_moffat(c):
    from scipy import integrate
    p = c['params']
    F, x0, y0, a, b = p['flux'], p['x_0'], p['y_0'], p['alpha'], p['beta']
    m = _make('MoffatPSF', p)
    out = []
    for phi in c['phis']:
        cs, sn = math.cos(phi), math.sin(phi)

        def f(r):
            return 2 * math.pi * r * float(m(x0 + r * cs, y0 + r * sn))
        s1, _ = integrate.quad(f, 0, 5 * a, epsabs=1e-13, epsrel=1e-12, limit=200)
        s2, _ = integrate.quad(f, 5 * a, np.inf, epsabs=1e-13, epsrel=1e-12, limit=400)
        s = s1 + s2
        out.append((abs(s / F - 1) <= 1e-8, 'psf-integral/MoffatPSF',
                    f'MoffatPSF{p}: radial integral along phi={phi} = {s!r}, flux = {F!r}', {'integral': s}))
    yy, xx = np.mgrid[-6:7, -8:9]
    xx = xx * 0.75 + round(x0)
    yy = yy * 0.75 + round(y0)
    v = np.asarray(m(xx, yy), float)
    e = spec_moffat(xx, yy, F, x0, y0, a, b)
    d = float(np.max(np.abs(v - e) / e))
    out.append((d <= 1e-12, 'psf-formula/MoffatPSF', f'MoffatPSF{p}: rel. deviation from the Moffat spec {d:.3e}',
                {'rel': d}))
    out.append((bool(np.all(v >= 0)), 'nonneg/MoffatPSF', f'MoffatPSF{p}: negative value', None))
    fw = 2 * a * math.sqrt(2 ** (1 / b) - 1)
    hv = float(m(x0 + fw / 2, y0)) / float(m(x0, y0))
    out.append((abs(hv - 0.5) <= 1e-12 and abs(float(m.fwhm) - fw) <= 1e-12 * fw, 'fwhm/MoffatPSF',
                f'MoffatPSF{p}: value at fwhm/2 is {hv!r} of the peak; .fwhm={float(m.fwhm)!r}', {'ratio': hv}))
    return out


def k_airy(c):
    from scipy import special
    p = c['params']
    F, x0, y0, R = p['flux'], p['x_0'], p['y_0'], p['radius']
    m = _make('AiryDiskPSF', p)
    rz = special.jn_zeros(1, 1)[0] / math.pi
    out = []
    g, w = np.polynomial.legendre.leggauss(24)
    for mult in c['rmult']:
        Rmax = mult * R
        npan = int(40 * mult)
        edges = np.linspace(0, Rmax, npan + 1)
        mid = 0.5 * (edges[1:] + edges[:-1])
        half = 0.5 * (edges[1:] - edges[:-1])
        r = (mid[:, None] + half[:, None] * g[None, :]).ravel()
        ww = (half[:, None] * w[None, :]).ravel()
        for phi in c['phis']:
            v = np.asarray(m(x0 + r * math.cos(phi), y0 + r * math.sin(phi)), float)
            s = float(np.sum(2 * math.pi * r * v * ww))
            vv = math.pi * Rmax / (R / rz)
            e = F * (1 - special.j0(vv) ** 2 - special.j1(vv) ** 2)
            out.append((abs(s - e) <= 1e-9 * F, 'psf-integral/AiryDiskPSF',
                        f'AiryDiskPSF{p}: flux within r<={mult}*radius along phi={phi}: {s!r}, '
                        f'Rayleigh formula {e!r}', {'integral': s, 'expected': e}))
            out.append((bool(np.all(v >= 0)), 'nonneg/AiryDiskPSF', f'AiryDiskPSF{p}: negative value', None))
    c0 = float(m(x0, y0))
    e0 = F * math.pi * rz ** 2 / (4 * R ** 2)
    out.append((abs(c0 / e0 - 1) <= 1e-13, 'psf-formula/AiryDiskPSF',
                f'AiryDiskPSF{p}: central value {c0!r} != F*pi*rz^2/(4 R^2) = {e0!r}', {'c0': c0}))
    z = float(m(x0 + R, y0)) / c0
    out.append((abs(z) <= 1e-28, 'psf-formula/AiryDiskPSF',
                f'AiryDiskPSF{p}: value at the first zero (r=radius) is {z!r} of the peak', {'z': z}))
    return out


def k_units(c):
    """Quantity path: coordinates and centre in mm, length-like shape parameters in cm, flux in Jy.
    The profile *shape* (value relative to the central value) must be what the unit-less model gives
    for the same lengths expressed in one unit; pixel-integrated (PRF) models must agree in value."""
    import astropy.units as u
    import photutils.psf as P
    name, sh = c['model'], c['shape_params']
    cls = getattr(P, name)
    yy, xx = np.mgrid[0:7, 0:8].astype(float)
    x0, y0, F = 3.3, 2.9, 10.0
    m0 = cls(flux=F, x_0=x0, y_0=y0, **sh)
    ref = np.asarray(m0(xx, yy), float)
    kw = {k: (v if k == 'beta' else (v * u.deg if k == 'theta' else v * 0.1 * u.cm)) for k, v in sh.items()}
    m = cls(flux=F * u.Jy, x_0=x0 * u.mm, y_0=y0 * u.mm, **kw)
    out = m(xx * u.mm, yy * u.mm)
    val = np.asarray(out.value, float)
    desc = f'{name}{sh} with coordinates in mm and shape parameters in cm'
    res = [(str(out.unit) == 'Jy', f'units/output-unit/{name}', f'{desc}: output unit {out.unit}', None)]
    if name.endswith('PRF'):
        d = float(np.max(np.abs(val - ref)))
        res.append((d <= 1e-12 * float(np.max(ref)), f'units/value/{name}',
                    f'{desc}: differs from the unit-less model by {d:.3e}', {'maxdiff': d}))
    else:
        c0, r0 = float(m(x0 * u.mm, y0 * u.mm).value), float(m0(x0, y0))
        d = float(np.max(np.abs(val / c0 - ref / r0)))
        res.append((d <= 1e-12, f'units/profile-shape/{name}',
                    f'{desc}: profile relative to the centre differs from the unit-less model by {d:.3e}',
                    {'maxdiff': d}))
    return res


def k_shape(c):
    """non-negative, point-symmetric about the centre, peak at the centre, translation covariant,
    linear in flux."""
    name, p = c['model'], c['params']
    m = _make(name, p)
    x0, y0, F = p['x_0'], p['y_0'], p['flux']
    # dyadic offsets so that x0 +- d is exact
    d = np.array([0.0, 0.25, 0.5, 1.0, 1.75, 3.0, 5.5])
    DX, DY = np.meshgrid(np.concatenate([-d[:0:-1], d]), np.concatenate([-d[:0:-1], d])[:-2])
    v1 = np.asarray(m(x0 + DX, y0 + DY), float)
    v2 = np.asarray(m(x0 - DX, y0 - DY), float)
    out = [(bool(np.all(v1 >= 0) and np.all(np.isfinite(v1))), f'nonneg/{name}', f'{name}{p}: negative/non-finite value', None)]
    sc = max(float(np.max(v1)), 1e-300)
    dd = float(np.max(np.abs(v1 - v2) - 1e-12 * np.abs(v1)))
    out.append((dd <= 1e-16 * sc, f'centred/{name}',
                f'{name}{p}: f(c+d) != f(c-d), excess {dd:.3e}', {'excess': dd}))
    vc = float(m(x0, y0))
    out.append((vc >= float(np.max(v1)), f'centred/{name}',
                f'{name}{p}: value at the centre {vc!r} < max on the grid {float(np.max(v1))!r}', None))
    # translation by an exactly representable shift
    sx, sy = 16.0, -32.0
    p2 = dict(p, x_0=x0 + sx, y_0=y0 + sy)
    v3 = np.asarray(_make(name, p2)(x0 + sx + DX, y0 + sy + DY), float)
    dd = float(np.max(np.abs(v1 - v3) - 1e-12 * np.abs(v1)))
    out.append((dd <= 1e-16 * sc, f'centred/{name}',
                f'{name}{p}: not covariant under translation of (x_0, y_0) and the grid by ({sx},{sy}), '
                f'excess {dd:.3e}', {'excess': dd}))
    # linear in flux (power of two: exact)
    for kf in (4.0, 0.125):
        v4 = np.asarray(_make(name, dict(p, flux=F * kf))(x0 + DX, y0 + DY), float)
        dd = float(np.max(np.abs(v4 - kf * v1) - 4e-16 * np.abs(v4)))
        out.append((dd <= 1e-290, f'linear-in-flux/{name}', f'{name}{p}: f(k*flux) != k*f(flux) for k={kf}', {'excess': dd}))
    m.flux = 0.0
    out.append((bool(np.all(np.asarray(m(x0 + DX, y0 + DY), float) == 0)), f'linear-in-flux/{name}',
                f'{name}{p}: flux=0 does not give 0', None))
    return out


def k_consistency(c):
    F, x0, y0, fw, theta = c['flux'], c['x_0'], c['y_0'], c['fwhm'], c['theta']
    s = fw / K
    cx, cy = int(round(x0)), int(round(y0))
    W = max(2, int(8 * s))
    yy, xx = np.mgrid[cy - W:cy + W + 1, cx - W - 1:cx + W + 2]
    step = 1.0 if s > 0.6 else 0.25
    xx = cx + (xx - cx) * step
    yy = cy + (yy - cy) * step
    out = []
    base = dict(flux=F, x_0=x0, y_0=y0)
    a = np.asarray(_make('CircularGaussianPSF', dict(base, fwhm=fw))(xx, yy), float)
    b = np.asarray(_make('GaussianPSF', dict(base, x_fwhm=fw, y_fwhm=fw, theta=theta))(xx, yy), float)
    d = float(np.max(np.abs(a - b) - 1e-11 * np.abs(a)))
    out.append((d <= 1e-300, 'consistency/circular-vs-elliptical-psf',
                f'CircularGaussianPSF != GaussianPSF(x_fwhm=y_fwhm={fw}, theta={theta}) at centre ({x0},{y0}): '
                f'excess {d:.3e}', {'excess': d}))
    a = np.asarray(_make('CircularGaussianPRF', dict(base, fwhm=fw))(xx, yy), float)
    b = np.asarray(_make('GaussianPRF', dict(base, x_fwhm=fw, y_fwhm=fw, theta=theta))(xx, yy), float)
    d = float(np.max(np.abs(a - b)))
    key = F24_KEY if _is_rotated(theta) else 'consistency/circular-vs-elliptical-prf'
    out.append((d <= 1e-14 * F, key,
                f'CircularGaussianPRF != GaussianPRF(x_fwhm=y_fwhm={fw}, theta={theta}) at centre ({x0},{y0}): '
                f'max abs diff {d:.3e} (flux {F})', {'maxdiff': d}))
    # sigma- and FWHM-parametrised forms
    sg = np.asarray(_make('CircularGaussianSigmaPRF', dict(base, sigma=s))(xx, yy), float)
    ig = np.asarray(_make('IntegratedGaussianPRF', dict(base, sigma=s))(xx, yy), float)
    d = float(np.max(np.abs(a - sg)))
    out.append((d <= 1e-14 * F, 'consistency/sigma-vs-fwhm',
                f'CircularGaussianSigmaPRF(sigma={s}) != CircularGaussianPRF(fwhm={fw}): {d:.3e}', {'maxdiff': d}))
    out.append((bool(np.array_equal(sg, ig)), 'consistency/sigma-vs-fwhm',
                f'IntegratedGaussianPRF(sigma={s}) != CircularGaussianSigmaPRF', None))
    ms = _make('CircularGaussianSigmaPRF', dict(base, sigma=s))
    mf = _make('CircularGaussianPRF', dict(base, fwhm=fw))
    mg = _make('GaussianPSF', dict(base, x_fwhm=fw, y_fwhm=2 * fw, theta=theta))
    okp = (abs(float(ms.fwhm) / fw - 1) <= 1e-14 and abs(float(mf.sigma) / s - 1) <= 1e-14
           and abs(float(mg.x_sigma) / s - 1) <= 1e-14 and abs(float(mg.y_sigma) / (2 * s) - 1) <= 1e-14)
    out.append((okp, 'consistency/sigma-vs-fwhm',
                f'.fwhm/.sigma properties disagree with fwhm = sigma*2*sqrt(2 ln 2) (fwhm={fw})', None))
    # amplitude property == central value of the PSF
    amp = float(_make('CircularGaussianPSF', dict(base, fwhm=fw)).amplitude)
    cen = float(_make('CircularGaussianPSF', dict(base, fwhm=fw))(x0, y0))
    out.append((abs(amp / (F / (2 * math.pi * s * s)) - 1) <= 1e-14 and abs(cen / amp - 1) <= 1e-14,
                'consistency/amplitude', f'CircularGaussianPSF(fwhm={fw}).amplitude={amp!r}, centre value {cen!r}', None))
    return out


def _same(a, b):
    return bool(np.array_equal(np.asarray(a), np.asarray(b), equal_nan=True))


def _is_fill(v, fill):
    return np.isnan(v) if (isinstance(fill, float) and math.isnan(fill)) else (v == fill)


def k_imagepsf(c):
    from photutils.psf import ImagePSF
    from scipy.interpolate import RectBivariateSpline
    ny, nx = c['shape']
    rng = np.random.default_rng(c['dseed'])
    data = rng.random((ny, nx)) + 0.05
    os_ = c['os']
    osy, osx = (os_, os_) if np.isscalar(os_) else os_
    origin = c['origin']
    ox, oy = ((nx - 1) / 2.0, (ny - 1) / 2.0) if origin is None else origin
    F, x0, y0 = c['flux'], c['x_0'], c['y_0']
    fill = float(c['fill'])
    kw = dict(flux=F, x_0=x0, y_0=y0, oversampling=os_ if np.isscalar(os_) else tuple(os_),
              origin=None if origin is None else tuple(origin), fill_value=fill)
    m = ImagePSF(data.copy(), **kw)
    name = 'ImagePSF'
    desc = f'ImagePSF(shape={ny, nx}, os={os_}, origin={origin}, x_0={x0}, y_0={y0}, flux={F}, fill={fill})'
    out = []
    out.append((tuple(int(v) for v in m.oversampling) == (osy, osx) and
                tuple(float(v) for v in m.origin) == (float(ox), float(oy)),
                'imagepsf/attributes', f'{desc}: oversampling {m.oversampling} / origin {m.origin}', None))
    jj, ii = np.mgrid[0:ny, 0:nx]
    x = x0 + (ii - ox) / osx
    y = y0 + (jj - oy) / osy
    v = np.asarray(m(x, y), float)
    tol = 1e-9 * abs(F) * float(np.max(np.abs(data)))
    inner = (slice(1, -1), slice(1, -1))
    d = float(np.max(np.abs(v - F * data)[inner]))
    out.append((d <= tol, 'imagepsf/knots', f'{desc}: interior sample points differ from flux*data by {d:.3e}',
                {'maxdiff': d}))
    edge = np.ones((ny, nx), bool)
    edge[inner] = False
    oke = (np.abs(v - F * data) <= tol) | _is_fill(v, fill)
    out.append((bool(np.all(oke[edge])), 'imagepsf/edge-knots',
                f'{desc}: an edge sample point is neither flux*data nor fill_value', None))
    # between knots: not fill, equal to an independent interpolating spline
    fx = np.array([0.0, 0.37, 1.5, nx - 1 - 0.25, nx - 1 - 1e-6, 1e-6])
    fy = np.array([0.5, 1e-6, ny - 1 - 1e-6, ny - 2.6, 0.25, ny - 1 - 0.25])
    XI, YI = np.meshgrid(fx, fy)
    xb = x0 + (XI - ox) / osx
    yb = y0 + (YI - oy) / osy
    vb = np.asarray(m(xb, yb), float)
    spl = RectBivariateSpline(np.arange(nx), np.arange(ny), data.T, kx=3, ky=3, s=0)
    xi = osx * (xb - x0) + ox
    yi = osy * (yb - y0) + oy
    okin = (xi >= 0) & (xi <= nx - 1) & (yi >= 0) & (yi <= ny - 1)
    eb = F * spl(xi, yi, grid=False)
    d = float(np.max(np.where(okin, np.abs(vb - eb), 0.0)))
    out.append((d <= 10 * tol and np.all(np.isfinite(vb[okin])), 'imagepsf/inside-not-interpolated',
                f'{desc}: points inside the array differ from the interpolating spline by {d:.3e} '
                f'(fill_value returned inside?)', {'maxdiff': d}))
    # outside -> fill exactly
    eps = 1e-6
    xo = np.array([-eps, nx - 1 + eps, -3.0, nx + 5.0, (nx - 1) / 2.0, (nx - 1) / 2.0, -eps, nx - 1 + eps, 0.5])
    yo = np.array([(ny - 1) / 2.0, 1.0, 2.0, 1.0, -eps, ny - 1 + eps, -eps, ny - 1 + eps, -40.0])
    vo = np.asarray(m(x0 + (xo - ox) / osx, y0 + (yo - oy) / osy), float)
    out.append((bool(np.all(_is_fill(vo, fill))), 'imagepsf/fill-outside',
                f'{desc}: points outside the array do not return fill_value: {vo.tolist()}', {'values': vo.tolist()}))
    # flux linearity and history / copies
    m2 = ImagePSF(data.copy(), **dict(kw, flux=2 * F))
    v2 = np.asarray(m2(x, y), float)
    lin = np.where(_is_fill(v, fill), _is_fill(v2, fill), np.abs(v2 - 2 * v) <= 1e-15 * np.abs(v2) + 1e-300)
    out.append((bool(np.all(lin)), 'linear-in-flux/ImagePSF', f'{desc}: f(2*flux) != 2*f(flux)', None))
    m.x_0 = x0 + 3.3
    m.y_0 = y0 - 1.2
    m.flux = 7 * F
    _ = m(x + 0.4, y)
    mc, md = m.copy(), m.deepcopy()
    for mm in (m, mc, md):
        mm.x_0 = x0
        mm.y_0 = y0
        mm.flux = F
    mc.x_0 = x0 + 1
    mc.x_0 = x0
    same = _same(m(x, y), v) and _same(mc(x, y), v) and _same(md(x, y), v) and _same(m(xb, yb), vb)
    out.append((same, 'imagepsf/history', f'{desc}: re-evaluation after other evaluations / on a copy / deepcopy '
                'differs from the first evaluation', None))
    md.x_0 = x0 + 5
    out.append((float(m.x_0.value) == x0 and float(mc.x_0.value) == x0, 'imagepsf/history',
                f'{desc}: changing a copy changed the original', None))
    return out


def _grid_expected(xg, yg, P, px, py):
    """Bilinear blend of the stored ePSFs (dict (gx,gy)->array), nearest edge outside the grid."""
    def loc(g, p):
        if len(g) == 1:
            return 0, 0, 0.0
        pc = min(max(p, g[0]), g[-1])
        k = 0
        while k < len(g) - 2 and g[k + 1] <= pc:
            k += 1
        return k, k + 1, (pc - g[k]) / (g[k + 1] - g[k])
    i0, i1, fx = loc(xg, px)
    j0, j1, fy = loc(yg, py)
    return ((1 - fx) * (1 - fy) * P[(xg[i0], yg[j0])] + fx * (1 - fy) * P[(xg[i1], yg[j0])]
            + (1 - fx) * fy * P[(xg[i0], yg[j1])] + fx * fy * P[(xg[i1], yg[j1])])


def k_gridded(c):
    from astropy.nddata import NDData
    from photutils.psf import GriddedPSFModel
    xg, yg = sorted(c['xg']), sorted(c['yg'])
    ny, nx = c['pshape']
    os_ = c['os']
    osy, osx = (os_, os_) if np.isscalar(os_) else os_
    F, fill = c['flux'], float(c['fill'])
    rng = np.random.default_rng(c['dseed'])
    pos = [(float(x), float(y)) for y in yg for x in xg]
    order = rng.permutation(len(pos))
    pos = [pos[k] for k in order]
    psfs = rng.random((len(pos), ny, nx)) + 0.05
    P = {pp: psfs[k] for k, pp in enumerate(pos)}
    degenerate = len(xg) == 1 or len(yg) == 1
    fam = 'gridded/degenerate-grid' if degenerate else 'gridded'

    def build():
        nd = NDData(psfs.copy(), meta={'grid_xypos': list(pos), 'oversampling': os_ if np.isscalar(os_) else tuple(os_)})
        return GriddedPSFModel(nd, fill_value=fill)
    m = build()
    desc = f'GriddedPSFModel(xgrid={xg}, ygrid={yg}, epsf={ny, nx}, os={os_}, flux={F})'
    ox, oy = (nx - 1) / 2.0, (ny - 1) / 2.0
    jj, ii = np.mgrid[0:ny, 0:nx]
    inner = (slice(1, -1), slice(1, -1))
    tol = 1e-9 * abs(F) * 1.05

    def ev(mm, px, py, flux=F):
        mm.x_0 = px
        mm.y_0 = py
        mm.flux = flux
        return np.asarray(mm(px + (ii - ox) / osx, py + (jj - oy) / osy), float)

    out = []
    pts = []           # (label, px, py)
    for (gx, gy) in pos:
        pts.append(('grid-point', gx, gy))
    fr = [0.5, 0.3, 0.8] + [float(v) for v in rng.random(2)]
    if not degenerate:
        for a in range(len(xg) - 1):
            for b in range(len(yg) - 1):
                for t, (f1, f2) in enumerate(zip(fr, fr[::-1][:len(fr)])):
                    if t and (a + b + t) % 2:      # thin out
                        continue
                    pts.append(('in-cell', xg[a] + f1 * (xg[a + 1] - xg[a]), yg[b] + f2 * (yg[b + 1] - yg[b])))
                pts.append(('cell-edge', xg[a] + 0.25 * (xg[a + 1] - xg[a]), yg[b]))
                pts.append(('cell-edge', xg[a + 1], yg[b] + 0.6 * (yg[b + 1] - yg[b])))
    else:
        if len(xg) > 1:
            pts.append(('in-cell', xg[0] + 0.3 * (xg[1] - xg[0]), yg[0]))
        if len(yg) > 1:
            pts.append(('in-cell', xg[0], yg[0] + 0.7 * (yg[1] - yg[0])))
    xm, ym = 0.5 * (xg[0] + xg[-1]), 0.37 * yg[0] + 0.63 * yg[-1]
    for (px, py) in [(xg[0] - 50.0, ym), (xg[-1] + 7.5, ym), (xm, yg[0] - 3.0), (xm, yg[-1] + 1e3),
                     (xg[0] - 1.0, yg[0] - 2.0), (xg[-1] + 1.0, yg[0] - 2.0), (xg[0] - 9.0, yg[-1] + 2.0),
                     (xg[-1] + 1e-9, yg[-1] + 1e-9), (xg[0] - 1e-9, ym)]:
        pts.append(('outside', px, py))
    idx = rng.permutation(len(pts))
    first = {}
    worst = {}
    for k in idx:
        lab, px, py = pts[k]
        v = ev(m, px, py)
        first[k] = v
        e = F * _grid_expected(xg, yg, P, px, py)
        d = float(np.max(np.abs(v - e)[inner])) if np.all(np.isfinite(v[inner])) else float('inf')
        if d > worst.get(lab, (-1,))[0]:
            worst[lab] = (d, px, py)
    for lab in [k for k in ('grid-point', 'in-cell', 'cell-edge', 'outside') if k in worst]:
        d, px, py = worst[lab]
        what = {'grid-point': 'the stored ePSF at a grid position',
                'in-cell': 'the bilinear blend of the 4 neighbours inside a cell',
                'cell-edge': 'the blend of the 2 neighbours on a cell edge',
                'outside': 'the nearest edge value outside the grid'}[lab]
        out.append((d <= tol, f'{fam}/{lab}' if not degenerate else fam,
                    f'{desc}: at (x_0,y_0)=({px},{py}) the model differs from {what} by {d:.3e}',
                    {'maxdiff': d, 'x_0': px, 'y_0': py}))
    if degenerate and not all(r[0] for r in out):
        return out           # NaN everywhere: the history checks below add nothing
    # history independence: re-evaluate in another order on m, on copies, and on fresh models
    mc, md = m.copy(), m.deepcopy()
    bad = None
    for n, k in enumerate(idx[::-1]):
        lab, px, py = pts[k]
        mm = (m, mc, md)[n % 3]
        if not _same(ev(mm, px, py), first[k]):
            bad = (lab, px, py, ('model', 'copy', 'deepcopy')[n % 3])
            break
    out.append((bad is None, f'{fam}/history',
                f'{desc}: re-evaluation at {bad} after other evaluations differs bitwise from the first evaluation', None))
    bad = None
    for k in list(idx[:4]) + list(idx[-2:]):
        lab, px, py = pts[k]
        if not _same(ev(build(), px, py), first[k]):
            bad = (lab, px, py)
            break
    out.append((bad is None, f'{fam}/history',
                f'{desc}: a fresh model evaluated only at {bad} differs from the model with an evaluation history', None))
    # re-configuring a copy (the copy shares the ePSF grid by reference) leaves the original alone
    mc2, md2 = m.copy(), m.deepcopy()
    bad = None
    for mm in (mc2, md2):
        mm.oversampling = (osy + 1, osx + 2)
        mm.fill_value = 3.25
        lab, px, py = pts[idx[0]]
        _ = ev(mm, px, py)
    for k in list(idx[:3]):
        lab, px, py = pts[k]
        if not _same(ev(m, px, py), first[k]):
            bad = (lab, px, py)
            break
    out.append((bad is None and tuple(int(v) for v in m.oversampling) == (int(osy), int(osx)),
                f'{fam}/history', f'{desc}: setting oversampling / fill_value on a copy changed what the '
                f'original model returns (first difference at {bad}; original oversampling now '
                f'{list(m.oversampling)})', None))
    # linear in flux; fill outside the ePSF footprint
    lab, px, py = pts[idx[0]]
    v2 = ev(m, px, py, flux=2 * F)
    out.append((bool(np.all(np.abs(v2 - 2 * first[idx[0]])[inner] <= 1e-15 * np.abs(v2[inner]))),
                'linear-in-flux/GriddedPSFModel', f'{desc}: f(2*flux) != 2*f(flux) at ({px},{py})', None))
    m.x_0, m.y_0, m.flux = px, py, F
    eps = 1e-6
    xo = np.array([-eps, nx - 1 + eps, ox, ox, -5.0, nx + 3.0])
    yo = np.array([oy, oy, -eps, ny - 1 + eps, -2.0, 1.0])
    vo = np.asarray(m(px + (xo - ox) / osx, py + (yo - oy) / osy), float)
    xin = np.array([eps, nx - 1 - eps, ox + 0.3])
    yin = np.array([oy, ny - 1 - eps, eps])
    vi = np.asarray(m(px + (xin - ox) / osx, py + (yin - oy) / osy), float)
    out.append((bool(np.all(_is_fill(vo, fill))) and not np.any(_is_fill(vi, fill)) and bool(np.all(np.isfinite(vi))),
                'gridded/fill-outside', f'{desc}: fill_value not returned exactly outside the ePSF footprint '
                f'(outside {vo.tolist()}, inside {vi.tolist()})', None))
    return out


def k_pointwise(c):
    """A model is a pointwise function of (x, y): evaluating it on any 2-D coordinate arrays --
    a mesh grid, a row-staggered grid, a grid jittered in its interior -- gives, element by
    element, what the scalar call gives."""
    name, p = c['model'], c['params']
    m = _make(name, p)
    x0, y0 = p['x_0'], p['y_0']
    ny, nx = 5, 8
    jj, ii = np.mgrid[0:ny, 0:nx].astype(float)
    grids = {'mesh': (x0 - 3.5 + ii, y0 - 2.0 + jj),
             'row-staggered': (x0 - 3.5 + ii + 0.5 * (jj % 2), y0 - 2.0 + jj),
             'column-staggered': (x0 - 3.5 + ii, y0 - 2.0 + jj + 0.25 * (ii % 2)),
             'interior-jitter': (x0 - 3.5 + ii + 0.375 * ((jj > 0) & (jj < ny - 1) & (ii > 0) & (ii < nx - 1)),
                                 y0 - 2.0 + jj - 0.125 * ((jj > 0) & (jj < ny - 1) & (ii == 3)))}
    out = []
    for gname, (xx, yy) in grids.items():
        v = np.asarray(m(xx, yy), float)
        ok = v.shape == xx.shape
        worst = 0.0
        where = None
        if ok:
            for j in range(ny):
                for i in range(nx):
                    s_ = float(np.asarray(m(float(xx[j, i]), float(yy[j, i]))))
                    dev = abs(v[j, i] - s_) - 1e-13 * abs(s_)
                    if dev > worst:
                        worst, where = dev, (j, i, float(v[j, i]), s_)
        out.append((ok and worst <= 0.0, f'pointwise/{name}',
                    f'{name}{p}: array evaluation on the {gname} grid differs from the scalar call '
                    f'(row, column, array value, scalar value) = {where}', None))
    return out


_KINDS = {'prf_sum': k_prf_sum, 'prf_point': k_prf_point, 'psf_gauss_integral': k_psf_gauss_integral,
          'pointwise': k_pointwise,
          'moffat': k_moffat, 'airy': k_airy, 'units': k_units, 'shape': k_shape, 'consistency': k_consistency,
          'imagepsf': k_imagepsf, 'gridded': k_gridded}


def _evaluate(case):
    try:
        return _KINDS[case['kind']](case)
    except Exception as exc:  # noqa: BLE001 - an exception where a value is specified is a failure
        fam = case.get('model', case['kind'])
        key = f'exception/{fam}'
        return [(False, key, f'{case}: raised {type(exc).__name__}: {exc}', {'exception': repr(exc)})]


class _Emitter:
    """ctx.check wrapper keeping at most ``cap`` records per failure key."""

    def __init__(self, ctx, cap=3):
        self.ctx, self.cap, self.n = ctx, cap, {}

    def do(self, case, contract):
        self.ctx.case(json.dumps(case, sort_keys=True, default=str), nontrivial=True, contract=contract,
                      sample={'kind': case['kind'], 'model': case.get('model')})
        for ok, key, what, obs in _evaluate(case):
            if ok:
                continue
            self.n[key] = self.n.get(key, 0) + 1
            if self.n[key] <= self.cap:
                self.ctx.check(False, key, what, dict(case, _key=key, _observed=obs))


# ----------------------------------------------------------------------------------------------
# enumeration
# ----------------------------------------------------------------------------------------------
SUB7 = [-0.5, -1 / 3, -1 / 6, 0.0, 1 / 6, 1 / 3, 0.5]


def _centres(ctx):
    if ctx.thorough:
        cs = list(itertools.product(SUB7, SUB7))
    else:
        cs = list(itertools.product([-0.5, -1 / 6, 0.0, 1 / 3], [-1 / 3, 0.0, 1 / 6, 0.5]))
        cs += [(float(a), float(b)) for a, b in ctx.rng.uniform(-0.5, 0.5, (4, 2))]
    cs += [(123.0 + 1 / 3, -57.5), (1e4 + 0.25, 2e3 - 0.125)]
    return cs


def _gauss_models(fw, theta_set):
    yield 'CircularGaussianPRF', {'fwhm': fw}
    yield 'CircularGaussianSigmaPRF', {'sigma': fw}
    yield 'IntegratedGaussianPRF', {'sigma': fw}
    for r in (1.0, 2.0, 0.5):
        for th in theta_set:
            yield 'GaussianPRF', {'x_fwhm': fw, 'y_fwhm': r * fw, 'theta': th}


def run(ctx):
    em = _Emitter(ctx)
    widths = [0.2, 0.3, 0.5, 1.0, 1.3, 2.5, 4.0, 7.0]
    unrot = [0.0, 90.0, 180.0, 270.0, -90.0]
    rot = [30.0, 45.0, 60.0, 137.0, -20.5]
    centres = _centres(ctx)
    fluxes = [3.0, 1e-3, 2.5e4]

    # 1. PRF pixel sums (narrow widths first so that the F24 record shows the gross case)
    n = 0
    for fw in widths:
        for (cx, cy) in centres:
            for name, extra in _gauss_models(fw, unrot + rot):
                th = extra.get('theta', 0.0)
                if not ctx.thorough:
                    # quick: all models on a thinned centre set
                    n += 1
                    if name == 'GaussianPRF' and (n % 3):
                        continue
                    if fw >= 4.0 and (n % 2):
                        continue
                F = fluxes[n % 3] if ctx.thorough else 3.0
                case = {'kind': 'prf_sum', 'model': name, 'params': dict(extra, flux=F, x_0=cx, y_0=cy)}
                em.do(case, 'prf-sums-to-flux' if not _is_rotated(th) else 'rotated-prf-sums-to-flux')

    # 2. point-wise PRF formula and pixel integral
    cen2 = centres[:: (1 if ctx.thorough else 4)]
    for fw in widths:
        for (cx, cy) in cen2[:: 2 if not ctx.thorough else 3]:
            for name, extra in _gauss_models(fw, [0.0, 90.0, 30.0] if not ctx.thorough else unrot + rot):
                case = {'kind': 'prf_point', 'model': name, 'params': dict(extra, flux=3.0, x_0=cx, y_0=cy)}
                em.do(case, 'prf-formula-and-pixel-integral')

    # 3. PSF integrals
    thetas = [0.0, 30.0, 45.0, 90.0] + ([137.3, -61.0] if ctx.thorough else [])
    for fw in ([0.2, 1.0, 2.5, 7.0] if not ctx.thorough else widths):
        for (cx, cy) in [(0.0, 0.0), (0.31, -0.47), (123.0 + 1 / 3, -57.5)]:
            em.do({'kind': 'psf_gauss_integral', 'model': 'CircularGaussianPSF',
                   'params': {'fwhm': fw, 'flux': 3.0, 'x_0': cx, 'y_0': cy}}, 'psf-integrates-to-flux')
            for r in (1.0, 2.0, 1 / 3):
                for th in thetas:
                    em.do({'kind': 'psf_gauss_integral', 'model': 'GaussianPSF',
                           'params': {'x_fwhm': fw, 'y_fwhm': r * fw, 'theta': th, 'flux': 2.5e4, 'x_0': cx, 'y_0': cy}},
                          'psf-integrates-to-flux')
    betas = [1.5, 2.5, 4.765] + ([1.2, 10.0] if ctx.thorough else [])
    for a in (0.7, 3.0):
        for b in betas:
            for (cx, cy) in [(0.0, 0.0), (10.31, -4.47)][: 2 if ctx.thorough else 1 + (b == 2.5)]:
                em.do({'kind': 'moffat', 'params': {'alpha': a, 'beta': b, 'flux': 2.0, 'x_0': cx, 'y_0': cy},
                       'phis': [0.0, 2.1] if ctx.thorough else [0.7]}, 'psf-integrates-to-flux')
    for R in (0.8, 2.5, 6.0):
        for (cx, cy) in [(0.0, 0.0), (10.31, -4.47)]:
            em.do({'kind': 'airy', 'params': {'radius': R, 'flux': 71.4, 'x_0': cx, 'y_0': cy},
                   'rmult': [1, 3, 10], 'phis': [0.0, 2.1]}, 'psf-integrates-to-flux')

    # 3b. Quantity path with different (equivalent) units for coordinates and shape parameters
    for name, sh in (('AiryDiskPSF', {'radius': 2.5}), ('MoffatPSF', {'alpha': 2.2, 'beta': 2.5}),
                     ('CircularGaussianPSF', {'fwhm': 2.4}),
                     ('GaussianPSF', {'x_fwhm': 2.0, 'y_fwhm': 3.0, 'theta': 30.0}),
                     ('CircularGaussianPRF', {'fwhm': 2.4}),
                     ('GaussianPRF', {'x_fwhm': 2.0, 'y_fwhm': 3.0, 'theta': 30.0}),
                     ('CircularGaussianSigmaPRF', {'sigma': 1.1})):
        em.do({'kind': 'units', 'model': name, 'shape_params': sh}, 'units-do-not-change-the-profile')

    # 4. shape properties
    shape_models = []
    for fw in ([0.2, 1.3, 4.0] if not ctx.thorough else widths):
        shape_models += [('CircularGaussianPSF', {'fwhm': fw}), ('CircularGaussianPRF', {'fwhm': fw}),
                         ('CircularGaussianSigmaPRF', {'sigma': fw}), ('IntegratedGaussianPRF', {'sigma': fw})]
        for th in (0.0, 30.0, 90.0, 137.0):
            shape_models += [('GaussianPSF', {'x_fwhm': fw, 'y_fwhm': 2 * fw, 'theta': th}),
                             ('GaussianPRF', {'x_fwhm': fw, 'y_fwhm': 2 * fw, 'theta': th})]
    for a in (0.7, 3.0):
        for b in (1.5, 4.765):
            shape_models.append(('MoffatPSF', {'alpha': a, 'beta': b}))
    for R in (0.8, 6.0):
        shape_models.append(('AiryDiskPSF', {'radius': R}))
    for name, extra in shape_models:
        for (cx, cy) in [(0.0, 0.0), (0.25, -0.375), (12.5, 7.0)]:
            em.do({'kind': 'shape', 'model': name, 'params': dict(extra, flux=3.0, x_0=cx, y_0=cy)}, 'shape')
    seen_pw = set()
    for name, extra in shape_models:
        if name in seen_pw and not ctx.thorough:
            continue
        seen_pw.add(name)
        em.do({'kind': 'pointwise', 'model': name, 'params': dict(extra, flux=3.0, x_0=10.25, y_0=7.5)},
              'pointwise-function-of-x-y')

    # 5. mutual consistency
    for fw in ([0.2, 0.5, 1.3, 4.0] if not ctx.thorough else widths):
        for th in [0.0, 30.0, 37.0, 45.0, 90.0, 180.0, 270.0, 137.3, -61.0]:
            for (cx, cy) in [(0.3, 0.1), (-0.5, 0.5), (40.25, 11.0)][: 3 if ctx.thorough else 2]:
                em.do({'kind': 'consistency', 'flux': 2.0, 'x_0': cx, 'y_0': cy, 'fwhm': fw, 'theta': th},
                      'mutual-consistency')

    # 6. ImagePSF
    shapes = [(4, 4), (5, 7), (9, 11), (8, 8)]
    oss = [1, 2, 3, 4, [2, 3], [3, 1], [1, 4]]
    origins = [None, [2.0, 3.0], [4.5, 1.25], [0.0, 0.0], [-1.5, 2.0]]
    fills = [-7.0, 0.0, float('nan')]
    n = 0
    for shp, os_, org in itertools.product(shapes, oss, origins):
        for (cx, cy) in [(10.3, 7.6), (-3.0, 0.5)]:
            n += 1
            if not ctx.thorough and n % 3 != 1:
                continue
            em.do({'kind': 'imagepsf', 'shape': list(shp), 'os': os_, 'origin': org, 'x_0': cx, 'y_0': cy,
                   'flux': [2.5, 1.0, 1e3][n % 3], 'fill': fills[(n // 3) % 3],
                   'dseed': int(ctx.rng.integers(1 << 30))}, 'imagepsf-interpolates-its-array')

    # 7. GriddedPSFModel
    grids = [([0.0, 40.0], [0.0, 60.0]), ([0.0, 40.0, 100.0], [0.0, 60.0]), ([5.0, 50.0], [10.0, 20.0, 90.0, 130.0]),
             ([-20.0, 0.5, 33.0, 34.0], [1.0, 2.0, 64.0]),
             ([12.0], [7.0]), ([0.0, 10.0, 25.0], [3.0]), ([4.0], [0.0, 8.0, 9.0])]
    pshapes = [(9, 9), (7, 11), (8, 6)]
    goss = [1, 2, [2, 3], 4]
    n = 0
    for (xg, yg), psh, os_ in itertools.product(grids, pshapes, goss):
        n += 1
        if not ctx.thorough and n % 3 != 1:
            continue
        em.do({'kind': 'gridded', 'xg': xg, 'yg': yg, 'pshape': list(psh), 'os': os_,
               'flux': [1.0, 2.5, 1e3][n % 3], 'fill': [0.0, -7.0][n % 2],
               'dseed': int(ctx.rng.integers(1 << 30))}, 'gridded-model-interpolates-its-grid')
    for key, cnt in em.n.items():
        ctx.note(f'{key}: {cnt} failing checks (at most {em.cap} recorded)')


def replay(case):
    want = case.get('_key')
    c = {k: v for k, v in case.items() if not k.startswith('_')}
    try:
        res = _evaluate(c)
    except Exception as exc:  # noqa: BLE001
        return 'error', repr(exc), None
    bad = [(key, what, obs) for ok, key, what, obs in res if not ok and (want is None or key == want)]
    if bad:
        return 'confirmed', bad[0][1], bad[0][2]
    return 'spurious', 'all contracts of this case hold', None
