"""C01 - aperture masks are the true pixel-overlap fractions; minimal bounding box; exact overlap slices.

Bounded run-time contract driver (engine E4).  Real code under test:
PixelAperture.to_mask/.bbox/.area for the six pixel-aperture classes, BoundingBox.from_float/
get_overlap_slices/union/intersection, ApertureMask.get_overlap_slices/to_image/cutout.

Oracles (all written from the property statement / the documented shape definitions, none of them calls
photutils):
  * shape membership: a point (x, y) relative to the aperture centre is rotated by -theta into the shape
    frame (theta counter-clockwise from +x); circle x^2+y^2 < r^2, ellipse (x'/a)^2+(y'/b)^2 < 1,
    rectangle |x'| < w/2 and |y'| < h/2; annulus = outer minus inner.
  * 'center'/'subpixel': fraction of the s x s sub-pixel centres inside the shape (counting oracle).  It is
    evaluated with an ambiguity band DELTA (points closer than DELTA pixels to the boundary may be counted
    either way, because the real code and the oracle round differently); for all other points the
    count must agree exactly (1e-12).  For dyadic inputs (all float operations exact) the band is 0
    and points exactly on the boundary must be OUTSIDE (strict '<'), evaluated in integer arithmetic.
  * 'exact' (circle / ellipse and annuli): analytic area of pixel-square intersect shape by Green's theorem on the
    pixel polygon mapped to the unit-circle frame (segment pieces inside the disc contribute triangles,
    pieces outside contribute circular sectors).  This is independent of the library's triangle case analysis.
    A 48x48 supersampling oracle (error bound (4 s + 4) / s^2 per convex boundary) cross-checks a few pixels.
  * 'exact' rectangle: the documented 32x32 sub-sampling rule (counting oracle with s = 32).
  * bounding box: smallest integer box under the pixel-centre convention (pixel i spans [i-1/2, i+1/2)):
    from the analytic half-extents, with Fractions where the extents are rational.
  * overlap slices / to_image / cutout: explicit loops over the pixels of box and image.
"""
import math
from fractions import Fraction

import numpy as np

BOUNDS = (
    "Centres: integer, half-integer, mixed, +-1e-9 off those, generic, negative, 1e6 off-image (8 quick / 14 thorough, "
    "plus seeded random). Radii / semi-axes: 0.03, 0.5, sqrt(2)/2 +-1e-12, 1, 3.7, 300 (thorough adds 0.25, 2.5, 5, 6.5, 17.3, 120); "
    "axis ratios 1, 0.3, 0.02; angles k*pi/4 (k=-4..8) exactly and +-1e-12, generic 0.3, -1.1, 1.234; annulus inner/outer "
    "ratios 0.5 and 0.999; methods exact, center, subpixel with subpixels in {1,2,5,32}. Tolerances: weights in "
    "[-1e-12, 1+1e-12]; counting oracle exact to 1e-12 outside an ambiguity band of DELTA=1e-11 pixel around the shape "
    "boundary (band 0, integer arithmetic, for dyadic inputs); exact method per pixel |w - analytic| <= 2e-10 + 4e-15*a*b; "
    "sum(w) vs analytic area rel 1e-9 (exact, circle/ellipse/annuli), |sum(w) - area| <= (2*P*s+8)/s^2 for sampled methods "
    "(P = boundary length); area property rel 1e-14; bbox compared exactly unless an extent is within 1e-11 of a pixel "
    "edge and the inputs are not dyadic. For boxes with more than the pixel budget (quick 2.5e6 / thorough 1.2e7 sub-pixel "
    "evaluations) the per-pixel oracle is evaluated on a seeded subset made of boundary pixels plus random others. "
    "BoundingBox.from_float on a 1-D lattice of 60 values (incl. the two neighbours of 0.5) for all ordered pairs; "
    "get_overlap_slices / union / intersection exhaustively for boxes with corners in [-3, 4] and image shapes 1..3 x 1..3; "
    "ApertureMask.get_overlap_slices / to_image / cutout for every mask case against image shapes (1,1), (12,11), (13,11), (25,30), (1,40)."
)
RULE = (
    "Lattice product (shape class x size x axis ratio x angle x annulus ratio) x centre x (method, subpixels); in the quick "
    "tier methods are cycled over the (shape, centre) pairs so that every pair sees two methods and every method every shape; "
    "thorough runs the full product plus seeded random generic cases. A case is the tuple (shape parameters, centre, method, "
    "subpixels); it is non-trivial when the mask contains at least one weight strictly between 0 and 1 or a pixel whose "
    "centre is within 1 pixel of the boundary (always true for aperture masks), and trivial for the far off-image slice cases."
)

DELTA = 1e-11
DEFECT_ELLIPSE = 'exact/ellipse-wrong-weight-pixel-corner-or-tangent-edge-on-boundary'
DEFECT_ELLIPSE_NAN = 'exact/ellipse-nan-weight-pixel-corner-on-boundary'
PI = math.pi


# ----------------------------------------------------------------------------------------------
# shape helpers (spec side)
# ----------------------------------------------------------------------------------------------
def _parts(sp):
    """Return [(sign, kind, p1, p2, theta)] with kind in circle/ellipse/rect; p1,p2 = (r,r)/(a,b)/(w/2,h/2)."""
    k = sp['kind']
    th = sp.get('theta', 0.0)
    if k == 'circle':
        return [(1, 'circle', sp['r'], sp['r'], 0.0)]
    if k == 'cann':
        return [(1, 'circle', sp['r_out'], sp['r_out'], 0.0), (-1, 'circle', sp['r_in'], sp['r_in'], 0.0)]
    if k == 'ellipse':
        return [(1, 'ellipse', sp['a'], sp['b'], th)]
    if k == 'eann':
        return [(1, 'ellipse', sp['a_out'], sp['b_out'], th), (-1, 'ellipse', sp['a_in'], sp['b_in'], th)]
    if k == 'rect':
        return [(1, 'rect', sp['w'] / 2.0, sp['h'] / 2.0, th)]
    if k == 'rann':
        return [(1, 'rect', sp['w_out'] / 2.0, sp['h_out'] / 2.0, th),
                (-1, 'rect', sp['w_in'] / 2.0, sp['h_in'] / 2.0, th)]
    raise ValueError(k)


def make_aperture(sp, positions):
    from photutils.aperture import (CircularAnnulus, CircularAperture, EllipticalAnnulus,
                                    EllipticalAperture, RectangularAnnulus, RectangularAperture)
    k = sp['kind']
    if k == 'circle':
        return CircularAperture(positions, sp['r'])
    if k == 'cann':
        return CircularAnnulus(positions, sp['r_in'], sp['r_out'])
    if k == 'ellipse':
        return EllipticalAperture(positions, sp['a'], sp['b'], theta=sp['theta'])
    if k == 'eann':
        return EllipticalAnnulus(positions, sp['a_in'], sp['a_out'], sp['b_out'], b_in=sp['b_in'],
                                 theta=sp['theta'])
    if k == 'rect':
        return RectangularAperture(positions, sp['w'], sp['h'], theta=sp['theta'])
    if k == 'rann':
        return RectangularAnnulus(positions, sp['w_in'], sp['w_out'], sp['h_out'], h_in=sp['h_in'],
                                  theta=sp['theta'])
    raise ValueError(k)


def analytic_area(sp):
    tot = 0.0
    for sg, kind, p1, p2, _ in _parts(sp):
        tot += sg * (PI * p1 * p2 if kind != 'rect' else 4.0 * p1 * p2)
    return tot


def boundary_length(sp):
    tot = 0.0
    for _, kind, p1, p2, _ in _parts(sp):
        tot += 4.0 * (p1 + p2)   # upper bound of the perimeter (ellipse <= 4(a+b); rect = 4(hw+hh))
    return tot


def half_extents(sp):
    """Half-extents (x_ext, y_ext) of the OUTER shape, from the shape definition."""
    _, kind, p1, p2, th = _parts(sp)[0]
    if kind == 'circle':
        return p1, p1
    c, s = math.cos(th), math.sin(th)
    if kind == 'ellipse':
        # max over t of |a c cos t - b s sin t| and |a s cos t + b c sin t|
        return math.hypot(p1 * c, p2 * s), math.hypot(p1 * s, p2 * c)
    xs = [abs(sx * p1 * c - sy * p2 * s) for sx in (1, -1) for sy in (1, -1)]
    ys = [abs(sx * p1 * s + sy * p2 * c) for sx in (1, -1) for sy in (1, -1)]
    return max(xs), max(ys)


def _rot(X, Y, th):
    if th == 0.0:
        return X, Y
    c, s = math.cos(th), math.sin(th)
    return X * c + Y * s, -X * s + Y * c


def inside_band(kind, p1, p2, th, X, Y, delta):
    """(lo, hi): lo = certainly inside (further than delta from the boundary), hi = possibly inside."""
    xt, yt = _rot(X, Y, th)
    if kind == 'circle':
        d = np.hypot(xt, yt)
        return d < p1 - delta, d < p1 + delta
    if kind == 'ellipse':
        g = (xt / p1) ** 2 + (yt / p2) ** 2 - 1.0
        grad = 2.0 * np.sqrt(xt ** 2 / p1 ** 4 + yt ** 2 / p2 ** 4)
        m = delta * grad + 4e-15
        return g < -m, g < m
    mx = p1 - np.abs(xt)
    my = p2 - np.abs(yt)
    return (mx > delta) & (my > delta), (mx > -delta) & (my > -delta)


def is_dyadic(sp, px, py, s):
    """True when every float operation of the sampled kernels is exact, so a point exactly on the
    boundary must be excluded (strict '<').  Coordinates multiples of 1/4, |.| < 4096, s a power of two,
    no rotation, ellipse axes powers of two."""
    if s not in (1, 2, 4, 8, 16, 32):
        return False
    vals = [px, py]
    for _, kind, p1, p2, th in _parts(sp):
        if th != 0.0:
            return False
        if kind == 'ellipse':
            for p in (p1, p2):
                if p <= 0 or math.frexp(p)[0] != 0.5:
                    return False
        vals += [p1, p2]
    return all(abs(v) < 4096 and float(v * 4).is_integer() for v in vals)


def count_exact_int(sp, px, py, ix, iy, s):
    """Integer-arithmetic count of sub-pixel centres strictly inside (dyadic inputs only) -> weight."""
    K = 4 * s
    k = np.arange(s)
    # K * (ix - 0.5 + (k + 0.5)/s - px) = K*ix - 2s + 4k + 2 - K*px
    X = (K * ix[:, None] - 2 * s + 4 * k[None, :] + 2 - int(round(K * px))).astype(np.int64)  # (N, s)
    Y = (K * iy[:, None] - 2 * s + 4 * k[None, :] + 2 - int(round(K * py))).astype(np.int64)
    XX = X[:, :, None]
    YY = Y[:, None, :]
    w = np.zeros(len(ix))
    for sg, kind, p1, p2, _ in _parts(sp):
        P1 = int(round(K * p1))
        P2 = int(round(K * p2))
        if kind == 'circle':
            ins = XX * XX + YY * YY < P1 * P1
        elif kind == 'ellipse':
            # x^2/a^2 + y^2/b^2 < 1  <=>  x^2 b^2 + y^2 a^2 < a^2 b^2 ; use python ints via float64-safe scaling
            ins = (XX * XX) * (P2 * P2) + (YY * YY) * (P1 * P1) < (P1 * P1) * (P2 * P2)
        else:
            ins = (np.abs(XX) < P1) & (np.abs(YY) < P2)
        w = w + sg * (ins.sum(axis=(1, 2)) / (s * s))
    return w


def count_band(sp, px, py, ix, iy, s, delta=DELTA):
    """Counting oracle with ambiguity band: returns (wlo, whi) per pixel."""
    off = (np.arange(s) + 0.5) / s - 0.5
    X = ((ix - px)[:, None] + off[None, :])[:, :, None]      # (N, s, 1)
    Y = ((iy - py)[:, None] + off[None, :])[:, None, :]      # (N, 1, s)
    X = np.broadcast_to(X, (len(ix), s, s))
    Y = np.broadcast_to(Y, (len(ix), s, s))
    wlo = np.zeros(len(ix))
    whi = np.zeros(len(ix))
    for sg, kind, p1, p2, th in _parts(sp):
        lo, hi = inside_band(kind, p1, p2, th, X, Y, delta)
        clo = lo.sum(axis=(1, 2)) / (s * s)
        chi = hi.sum(axis=(1, 2)) / (s * s)
        if sg > 0:
            wlo = wlo + clo
            whi = whi + chi
        else:
            wlo = wlo - chi
            whi = whi - clo
    return wlo, whi


# ----------------------------------------------------------------------------------------------
# analytic oracle: area of (polygon intersect unit disc) by Green's theorem
# ----------------------------------------------------------------------------------------------
def _sector(ux, uy, vx, vy):
    return 0.5 * np.arctan2(ux * vy - uy * vx, ux * vx + uy * vy)


def poly_disc_area(P):
    """P: (N, m, 2) polygons (counter-clockwise).  Area of polygon intersect unit disc, shape (N,)."""
    m = P.shape[1]
    tot = np.zeros(P.shape[0])
    for k in range(m):
        px_, py_ = P[:, k, 0], P[:, k, 1]
        qx, qy = P[:, (k + 1) % m, 0], P[:, (k + 1) % m, 1]
        dx, dy = qx - px_, qy - py_
        A = dx * dx + dy * dy
        hb = px_ * dx + py_ * dy
        C = px_ * px_ + py_ * py_ - 1.0
        disc = hb * hb - A * C
        has = disc > 0
        sq = np.sqrt(np.where(has, disc, 0.0))
        sgn = np.where(hb >= 0, 1.0, -1.0)
        q_ = -(hb + sgn * sq)
        q_safe = np.where(q_ == 0, 1.0, q_)
        ta = q_ / A
        tb = np.where(q_ == 0, 0.0, C / q_safe)
        r1 = np.minimum(ta, tb)
        r2 = np.maximum(ta, tb)
        crosses = has & (r1 < 1.0) & (r2 > 0.0)          # a piece of the edge lies inside the disc
        in_p = r1 <= 0.0                                   # p itself is inside (or on) the disc
        in_q = r2 >= 1.0                                   # q itself is inside (or on) the disc
        t1 = np.clip(r1, 0.0, 1.0)
        t2 = np.clip(r2, 0.0, 1.0)
        ax, ay = np.where(in_p, px_, px_ + t1 * dx), np.where(in_p, py_, py_ + t1 * dy)
        bx, by = np.where(in_q, qx, px_ + t2 * dx), np.where(in_q, qy, py_ + t2 * dy)
        # sectors only for the pieces outside the disc (never between two points inside it: ill-conditioned)
        s1 = np.where(in_p, 0.0, _sector(px_, py_, ax, ay))
        s2 = np.where(in_q, 0.0, _sector(bx, by, qx, qy))
        with_chord = s1 + 0.5 * (ax * by - ay * bx) + s2
        no_chord = _sector(px_, py_, qx, qy)
        has = crosses
        tot += np.where(has, with_chord, no_chord)
    return tot


def exact_oracle(sp, px, py, ix, iy):
    """Analytic overlap fraction of pixel squares (ix, iy) with a circle/ellipse (annulus)."""
    x0 = (ix - px) - 0.5
    y0 = (iy - py) - 0.5
    cx = np.stack([x0, x0 + 1.0, x0 + 1.0, x0], axis=1)
    cy = np.stack([y0, y0, y0 + 1.0, y0 + 1.0], axis=1)
    w = np.zeros(len(ix))
    for sg, kind, p1, p2, th in _parts(sp):
        xt, yt = _rot(cx, cy, th)
        P = np.stack([xt / p1, yt / p2], axis=2)
        w = w + sg * (p1 * p2) * poly_disc_area(P)
    return w


def on_boundary_config(sp, px, py, ix, iy, tol=2e-10):
    """True when, for some pixel (ix, iy), a pixel corner lies on an ellipse boundary or a pixel edge is tangent
    to it (within tol in the unit-circle frame).  Classifies the failures of the 'exact' elliptical kernel."""
    x0 = (ix - px) - 0.5
    y0 = (iy - py) - 0.5
    cx = np.stack([x0, x0 + 1.0, x0 + 1.0, x0], axis=1)
    cy = np.stack([y0, y0, y0 + 1.0, y0 + 1.0], axis=1)
    for _, kind, p1, p2, th in _parts(sp):
        xt, yt = _rot(cx, cy, th)
        U, V = xt / p1, yt / p2
        if np.any(np.abs(U * U + V * V - 1.0) < tol):
            return True
        for k in range(4):
            ux, uy, vx, vy = U[:, k], V[:, k], U[:, (k + 1) % 4], V[:, (k + 1) % 4]
            dx, dy = vx - ux, vy - uy
            L2 = dx * dx + dy * dy
            t = -(ux * dx + uy * dy) / L2
            dist2 = (ux + t * dx) ** 2 + (uy + t * dy) ** 2
            if np.any((t >= 0) & (t <= 1) & (np.abs(dist2 - 1.0) < tol)):
                return True
    return False


def supersample(sp, px, py, ix, iy, s=48):
    lo, hi = count_band(sp, px, py, ix, iy, s, delta=0.0)
    return lo


# ----------------------------------------------------------------------------------------------
# bounding box oracle
# ----------------------------------------------------------------------------------------------
def _fl(x):
    return math.floor(x)


def box_from_extents_exact(xmin, xmax, ymin, ymax):
    """Smallest integer box (exclusive upper) containing [xmin,xmax]x[ymin,ymax], exact arithmetic on Fractions."""
    h = Fraction(1, 2)
    return (math.floor(xmin + h), math.ceil(xmax + h), math.floor(ymin + h), math.ceil(ymax + h))


def expected_bbox(sp, px, py):
    """Return (box, ambiguous) with ambiguous = True when an extent lies within 1e-11 of a pixel edge and the
    inputs are not exactly representable (so that either neighbouring integer is acceptable)."""
    ex, ey = half_extents(sp)
    _, kind, p1, p2, th = _parts(sp)[0]
    rational = (kind == 'circle') or th == 0.0     # half-extents are exactly r / (a, b) / (w/2, h/2)
    lims = (Fraction(px) - Fraction(ex), Fraction(px) + Fraction(ex),
            Fraction(py) - Fraction(ey), Fraction(py) + Fraction(ey))
    flims = (px - ex, px + ex, py - ey, py + ey)     # the same limits in float arithmetic
    box = box_from_extents_exact(*lims)
    amb = []
    for v, fv in zip(lims, flims):
        f = float(v) + 0.5
        dist = abs(f - round(f))
        tol = 1e-11 * max(1.0, abs(f) / 1e3)
        if rational:
            # the only roundings are the float subtraction px -+ ext and from_float's x + 0.5
            exact_ops = Fraction(fv) == v and Fraction(fv + 0.5) == v + Fraction(1, 2)
            amb.append(dist < tol and not exact_ops)
        else:
            amb.append(dist < tol)
    return box, amb


# ----------------------------------------------------------------------------------------------
# case evaluation (shared by run and replay)
# ----------------------------------------------------------------------------------------------
IMG_SHAPES = [(1, 1), (12, 11), (13, 11), (25, 30), (1, 40)]


def _select_pixels(sp, px, py, box, s, budget, rng):
    ixmin, ixmax, iymin, iymax = box
    nx, ny = ixmax - ixmin, iymax - iymin
    if nx * ny * s * s <= budget:
        gx, gy = np.meshgrid(np.arange(ixmin, ixmax), np.arange(iymin, iymax))
        return gx.ravel(), gy.ravel(), True
    npx = max(200, int(budget // (s * s)))
    gx, gy = np.meshgrid(np.arange(ixmin, ixmax), np.arange(iymin, iymax))
    gx, gy = gx.ravel(), gy.ravel()
    near = np.zeros(gx.size, bool)
    for _, kind, p1, p2, th in _parts(sp):
        lo, hi = inside_band(kind, p1, p2, th, gx - px, gy - py, 0.75)
        near |= (hi & ~lo)
    idx_near = np.flatnonzero(near)
    idx_far = np.flatnonzero(~near)
    n1 = min(idx_near.size, int(npx * 0.8))
    n2 = min(idx_far.size, npx - n1)
    sel = np.concatenate([rng.choice(idx_near, n1, replace=False) if n1 else np.array([], int),
                          rng.choice(idx_far, n2, replace=False) if n2 else np.array([], int)])
    return gx[sel], gy[sel], False


def eval_mask(case, budget=2.5e6):
    """Evaluate all C01 mask contracts on one (shape, centre, method, subpixels) case.
    Returns (failures, info): failures = [(key, what)], info = dict(nontrivial=..)."""
    from photutils.aperture import ApertureMask, BoundingBox  # noqa: F401
    sp = case['shape']
    px, py = case['pos']
    method, s = case['method'], case['subpixels']
    rng = np.random.default_rng(case.get('sub_seed', 0))
    fails = []
    tag = f"{sp} pos=({px!r},{py!r}) {method}/{s}"

    def bad(key, what):
        fails.append((key, f'{what} [{tag}]'))

    try:
        ap = make_aperture(sp, (px, py))
        m = ap.to_mask(method=method, subpixels=s)
        bb = ap.bbox
        W = np.array(m.data, dtype=float)
    except Exception as e:  # noqa: BLE001
        bad('to_mask/raises', f'to_mask raised {type(e).__name__}: {e}')
        return fails, {'nontrivial': False}

    box = (bb.ixmin, bb.ixmax, bb.iymin, bb.iymax)
    if (m.bbox.ixmin, m.bbox.ixmax, m.bbox.iymin, m.bbox.iymax) != box:
        bad('mask-bbox/differs-from-aperture-bbox', f'mask.bbox {m.bbox} != aperture.bbox {bb}')
    if W.shape != (box[3] - box[2], box[1] - box[0]):
        bad('mask-shape/not-bbox-shape', f'mask shape {W.shape} vs bbox {box}')
        return fails, {'nontrivial': False}

    # ---- bounding-box minimality ----------------------------------------------------------
    ebox, amb = expected_bbox(sp, px, py)
    names = ('ixmin', 'ixmax', 'iymin', 'iymax')
    for i in range(4):
        if box[i] != ebox[i]:
            if amb[i] and abs(box[i] - ebox[i]) == 1 and not case.get('f23'):
                continue
            if case.get('f23'):
                bad('from_float/1ulp-rounding-of-x-plus-half',
                    f'bbox {names[i]}={box[i]}, smallest box has {ebox[i]} (extent 1 ulp from a pixel edge)')
            else:
                bad(f'bbox/not-minimal-{names[i]}', f'bbox {names[i]}={box[i]}, smallest box has {ebox[i]}')

    # ---- area property ----------------------------------------------------------------------
    A = analytic_area(sp)
    _, k0, a0, b0, _ = _parts(sp)[0]
    Aout = (PI if k0 != 'rect' else 4.0) * a0 * b0      # tolerance relative to the outer area (annulus = difference)
    if not abs(ap.area - A) <= 1e-14 * Aout:
        bad('area/analytic', f'area={ap.area!r} expected {A!r}')

    # ---- weight range -----------------------------------------------------------------------
    if not (np.all(np.isfinite(W)) and W.min() >= -1e-12 and W.max() <= 1 + 1e-12):
        bad(f'weights/out-of-[0,1]-{method}', f'min={float(np.nanmin(W)) if np.any(np.isfinite(W)) else float("nan")!r} max={float(np.nanmax(W)) if np.any(np.isfinite(W)) else float("nan")!r} n_nan={int(np.isnan(W).sum())}')

    # ---- per-pixel oracle -------------------------------------------------------------------
    rect = sp['kind'] in ('rect', 'rann')
    if method == 'exact' and not rect:
        gx, gy, full = _select_pixels(sp, px, py, box, 3, budget, rng)
        got = W[gy - box[2], gx - box[0]]
        exp = exact_oracle(sp, px, py, gx, gy)
        ab = max(p1 * p2 for _, _, p1, p2, _ in _parts(sp))
        tol = 2e-10 + 4e-15 * ab
        d = np.abs(got - exp)
        j = int(np.argmax(d))
        if not d[j] <= tol:
            bad('exact/pixel-weight-vs-analytic-overlap',
                f'pixel (x={int(gx[j])}, y={int(gy[j])}) w={float(got[j])!r} analytic={float(exp[j])!r} diff={d[j]:.3e} tol={tol:.1e}')
        # oracle cross-check by supersampling on up to 12 partial pixels
        part = np.flatnonzero((exp > 1e-6) & (exp < 1 - 1e-6))
        if part.size:
            pick = part[:: max(1, part.size // 12)][:12]
            ss = supersample(sp, px, py, gx[pick], gy[pick], 48)
            nb = len(_parts(sp))
            bound = nb * 2 * (4 * 48 + 4) / 48 ** 2   # two boundary crossings of a thin shape per part
            dd = np.abs(ss - got[pick])
            jj = int(np.argmax(dd))
            if not dd[jj] <= bound:
                bad('exact/pixel-weight-vs-supersampling',
                    f'pixel (x={int(gx[pick][jj])}, y={int(gy[pick][jj])}) w={float(got[pick][jj])!r} supersampled={float(ss[jj])!r}')
        sw = float(W.sum())
        if not abs(sw - A) <= 1e-9 * abs(A):
            bad('exact/sum-vs-analytic-area', f'sum(w)={sw!r} area={A!r} rel={abs(sw - A) / A:.3e}')
        nontriv = bool(np.any((got > 0) & (got < 1)))
        if any(k.startswith(('exact/', 'weights/')) for k, _ in fails) and sp['kind'] in ('ellipse', 'eann'):
            ax, ay = np.meshgrid(np.arange(box[0], box[1]), np.arange(box[2], box[3]))
            if on_boundary_config(sp, px, py, ax.ravel(), ay.ravel()):
                # two defects of the exact elliptical kernel when a triangle vertex is on the unit circle
                # (pixel corner on the ellipse / pixel edge tangent to it): NaN weight, or a dropped triangle
                dk = DEFECT_ELLIPSE_NAN if np.any(np.isnan(W)) else DEFECT_ELLIPSE
                fails[:] = [((dk if k.startswith(('exact/', 'weights/')) else k), w_) for k, w_ in fails]
    else:
        seff = 32 if (method == 'exact' and rect) else (1 if method == 'center' else s)
        gx, gy, full = _select_pixels(sp, px, py, box, seff, budget, rng)
        got = W[gy - box[2], gx - box[0]]
        if is_dyadic(sp, px, py, seff):
            exp = count_exact_int(sp, px, py, gx, gy, seff)
            d = np.abs(got - exp)
            j = int(np.argmax(d))
            if not d[j] <= 1e-15:
                bad(f'count/dyadic-strict-{sp["kind"]}',
                    f'pixel (x={int(gx[j])}, y={int(gy[j])}) w={float(got[j])!r} fraction of centres strictly inside={float(exp[j])!r} (s={seff})')
        else:
            lo, hi = count_band(sp, px, py, gx, gy, seff)
            viol = (got < lo - 1e-12) | (got > hi + 1e-12)
            if np.any(viol):
                j = int(np.flatnonzero(viol)[0])
                bad(f'count/{("rect-exact32" if method == "exact" else method)}-{sp["kind"]}',
                    f'pixel (x={int(gx[j])}, y={int(gy[j])}) w={float(got[j])!r} counting oracle in [{float(lo[j])!r},{float(hi[j])!r}] (s={seff})')
        # values are multiples of 1/s^2
        q = got * seff * seff
        if not np.all(np.abs(q - np.round(q)) <= 1e-9):
            bad('count/not-multiple-of-1/s^2', f'weights are not k/s^2 for s={seff}')
        sw = float(W.sum())
        bound = (2 * boundary_length(sp) * seff + 8 * len(_parts(sp))) / seff ** 2
        if not abs(sw - A) <= bound:
            bad('count/sum-vs-area-bound', f'sum(w)={sw!r} area={A!r} bound={bound:.3e}')
        nontriv = True
    seen = set()
    fails[:] = [f for f in fails if not (f[0] in seen or seen.add(f[0]))]    # one record per key and case
    return fails, {'nontrivial': nontriv, 'mask': m, 'W': W, 'box': box}


def eval_methods_equiv(case):
    """center == subpixel(1) bitwise, and 'center' ignores subpixels; rectangle exact == subpixel(32)."""
    sp = case['shape']
    px, py = case['pos']
    fails = []
    ap = make_aperture(sp, (px, py))
    c5 = ap.to_mask('center', subpixels=5).data
    c1 = ap.to_mask('subpixel', subpixels=1).data
    if not np.array_equal(c5, c1):
        fails.append(('methods/center-differs-from-subpixel-1', f'{sp} pos={case["pos"]}'))
    if sp['kind'] in ('rect', 'rann'):
        e = ap.to_mask('exact', subpixels=3).data
        s32 = ap.to_mask('subpixel', subpixels=32).data
        if not np.array_equal(e, s32):
            fails.append(('methods/rect-exact-differs-from-subpixel-32', f'{sp} pos={case["pos"]}'))
    # scalar vs list-of-positions: same mask for the same centre, any order
    ap2 = make_aperture(sp, [(px + 3.0, py - 2.0), (px, py)])
    m2 = ap2.to_mask('center')
    if not (np.array_equal(m2[1].data, c5) and m2[1].bbox == ap.bbox):
        fails.append(('methods/multi-position-mask-differs-from-scalar', f'{sp} pos={case["pos"]}'))
    return fails


def slices_oracle(box, shape):
    """Explicit enumeration of the common pixels of box and image -> (slices_large, slices_small) or None."""
    ixmin, ixmax, iymin, iymax = box
    ny, nx = shape
    if (ixmax - ixmin) * (iymax - iymin) <= 4096:
        ys = [y for y in range(iymin, iymax) if 0 <= y < ny]
        xs = [x for x in range(ixmin, ixmax) if 0 <= x < nx]
    else:
        ys = np.intersect1d(np.arange(iymin, iymax), np.arange(ny)).tolist()
        xs = np.intersect1d(np.arange(ixmin, ixmax), np.arange(nx)).tolist()
    if not ys or not xs:
        return None
    return ((ys[0], ys[-1] + 1), (xs[0], xs[-1] + 1)), ((ys[0] - iymin, ys[-1] + 1 - iymin), (xs[0] - ixmin, xs[-1] + 1 - ixmin))


def _slc_tuple(slc):
    return tuple((s.start, s.stop) for s in slc)


def eval_slices(box, W, shape, mask_obj=None):
    """ApertureMask.get_overlap_slices / to_image / cutout against explicit loops."""
    from photutils.aperture import ApertureMask, BoundingBox
    fails = []
    if mask_obj is None:
        mask_obj = ApertureMask(np.asarray(W, float), BoundingBox(box[0], box[1], box[2], box[3]))
    W = np.asarray(mask_obj.data)
    ny, nx = shape
    exp = slices_oracle(box, shape)
    tag = f'box={box} shape={shape}'
    try:
        sl, ss = mask_obj.get_overlap_slices(shape)
    except Exception as e:  # noqa: BLE001
        return [('slices/raises', f'{type(e).__name__}: {e} [{tag}]')]
    if exp is None:
        if sl is not None or ss is not None:
            fails.append(('slices/not-None-without-common-pixel', f'got {sl},{ss} [{tag}]'))
    else:
        if sl is None or ss is None:
            fails.append(('slices/None-with-common-pixels', f'expected {exp} [{tag}]'))
        else:
            if _slc_tuple(sl) != exp[0]:
                fails.append(('slices/large-wrong', f'got {_slc_tuple(sl)} expected {exp[0]} [{tag}]'))
            if _slc_tuple(ss) != exp[1]:
                fails.append(('slices/small-wrong', f'got {_slc_tuple(ss)} expected {exp[1]} [{tag}]'))
    # to_image / cutout
    data = (1000.0 * np.arange(ny)[:, None] + np.arange(nx)[None, :] + 7.0)
    try:
        img = mask_obj.to_image(shape)
        cut = mask_obj.cutout(data, fill_value=-5.0)
        cut0 = mask_obj.cutout(data)
    except Exception as e:  # noqa: BLE001
        return fails + [('to_image-cutout/raises', f'{type(e).__name__}: {e} [{tag}]')]
    if exp is None:
        if img is not None:
            fails.append(('to_image/not-None-without-overlap', tag))
        if cut is not None:
            fails.append(('cutout/not-None-without-overlap', tag))
        return fails
    if img is None or cut is None:
        fails.append(('to_image-cutout/None-with-overlap', tag))
        return fails
    ixmin, ixmax, iymin, iymax = box
    # expected by explicit placement (vectorised index arithmetic; loops for small boxes)
    eimg = np.zeros(shape)
    ecut = np.full(W.shape, -5.0)
    ecut0 = np.zeros(W.shape)
    if W.size <= 4096:
        for j in range(W.shape[0]):
            for i in range(W.shape[1]):
                y, x = iymin + j, ixmin + i
                if 0 <= y < ny and 0 <= x < nx:
                    eimg[y, x] = W[j, i]
                    ecut[j, i] = data[y, x]
                    ecut0[j, i] = data[y, x]
    else:
        jj, ii = np.nonzero(np.ones(W.shape, bool))
        yy, xx = jj + iymin, ii + ixmin
        ok = (yy >= 0) & (yy < ny) & (xx >= 0) & (xx < nx)
        eimg[yy[ok], xx[ok]] = W[jj[ok], ii[ok]]
        ecut[jj[ok], ii[ok]] = data[yy[ok], xx[ok]]
        ecut0[jj[ok], ii[ok]] = data[yy[ok], xx[ok]]
    if img.shape != tuple(shape) or not np.array_equal(img, eimg, equal_nan=True):
        fails.append(('to_image/wrong-placement', tag))
    if cut.shape != W.shape or not np.array_equal(cut, ecut):
        fails.append(('cutout/wrong-placement-or-fill', tag))
    if cut0.shape != W.shape or not np.array_equal(cut0, ecut0):
        fails.append(('cutout/wrong-placement-default-fill', tag))
    return fails


def eval_from_float(vals):
    xmin, xmax, ymin, ymax = vals
    from photutils.aperture import BoundingBox
    fails = []
    try:
        b = BoundingBox.from_float(xmin, xmax, ymin, ymax)
    except Exception as e:  # noqa: BLE001
        return [('from_float/raises', f'{vals}: {type(e).__name__}: {e}')]
    got = (b.ixmin, b.ixmax, b.iymin, b.iymax)
    exp = box_from_extents_exact(Fraction(xmin), Fraction(xmax), Fraction(ymin), Fraction(ymax))
    if got != exp:
        # 1-ulp class: fl(x + 0.5) != x + 0.5 and the difference decides the integer
        one_ulp = all(g == e or Fraction(v + 0.5) != Fraction(v) + Fraction(1, 2)
                      for g, e, v in zip(got, exp, vals))
        key = 'from_float/1ulp-rounding-of-x-plus-half' if one_ulp else 'from_float/not-smallest-box'
        fails.append((key, f'from_float{vals} = {got}, smallest containing box = {exp}'))
    return fails


def eval_box_algebra(b1, b2, shape):
    """union / intersection / get_overlap_slices of small integer boxes vs explicit pixel sets."""
    from photutils.aperture import BoundingBox
    fails = []
    B1 = BoundingBox(*b1)
    B2 = BoundingBox(*b2)

    def pix(b):
        return {(y, x) for y in range(b[2], b[3]) for x in range(b[0], b[1])}

    def tup(B):
        return (B.ixmin, B.ixmax, B.iymin, B.iymax)
    p1, p2 = pix(b1), pix(b2)
    U = tup(B1.union(B2))
    both = p1 | p2
    eU = (min(x for _, x in both), max(x for _, x in both) + 1, min(y for y, _ in both), max(y for y, _ in both) + 1)
    if U != eU or tup(B1 | B2) != eU:
        fails.append(('union/not-smallest-containing-box', f'{b1} | {b2} = {U}, expected {eU}'))
    I = B1.intersection(B2)
    common = p1 & p2
    if I is None:
        if common:
            fails.append(('intersection/None-with-common-pixels', f'{b1} & {b2}'))
    else:
        if pix(tup(I)) != common:
            fails.append(('intersection/wrong-pixel-set', f'{b1} & {b2} = {tup(I)}'))
    # slices of b1 against image shape
    exp = slices_oracle(b1, shape)
    sl, ss = B1.get_overlap_slices(shape)
    if exp is None:
        if sl is not None or ss is not None:
            fails.append(('slices/not-None-without-common-pixel', f'box={b1} shape={shape}'))
    elif sl is None or _slc_tuple(sl) != exp[0] or _slc_tuple(ss) != exp[1]:
        fails.append(('slices/wrong', f'box={b1} shape={shape}: got {sl},{ss} expected {exp}'))
    # derived attributes
    if B1.shape != (b1[3] - b1[2], b1[1] - b1[0]):
        fails.append(('bbox/shape', f'{b1}'))
    if B1.extent != (b1[0] - 0.5, b1[1] - 0.5, b1[2] - 0.5, b1[3] - 0.5):
        fails.append(('bbox/extent', f'{b1}'))
    ys = [y for y, _ in p1]
    xs = [x for _, x in p1]
    if B1.center != (sum(ys) / len(ys), sum(xs) / len(xs)):
        fails.append(('bbox/center', f'{b1}: {B1.center}'))
    return fails


# ----------------------------------------------------------------------------------------------
# lattices
# ----------------------------------------------------------------------------------------------
def centres(thorough):
    c = [(0.0, 0.0), (10.0, 12.5), (10.5, 12.5), (10.5 + 1e-9, 12.0 - 1e-9), (10.0 + 1e-9, 12.5 - 1e-9),
         (10.37, 11.81), (-3.2, 4.6), (1e6 + 0.3, -1e6 + 0.5)]
    if thorough:
        c += [(10.0, 12.0), (10.5 - 1e-9, 12.5 + 1e-9), (0.25, -0.75), (7.0 - 1e-9, 3.0 + 1e-9),
              (-0.5, -0.5), (1e6, 2e6 + 0.5)]
    return c


def angles(thorough):
    if not thorough:
        return [0.0, PI / 4, PI / 2, PI / 2 + 1e-12, 3 * PI / 4 - 1e-12, PI, 5 * PI / 4, -PI / 2, 0.3]
    out = []
    for k in range(-4, 9):
        for e in (0.0, 1e-12, -1e-12):
            out.append(k * PI / 4 + e)
    return out + [0.3, -1.1, 1.234]


def sizes(thorough):
    r2 = math.sqrt(2) / 2
    s = [0.03, 0.5, r2 - 1e-12, r2 + 1e-12, 1.0, 3.7]
    if thorough:
        s += [0.25, 2.5, 5.0, 6.5, 17.3]
    return s


METHODS = [('exact', 5), ('center', 5), ('subpixel', 1), ('subpixel', 2), ('subpixel', 5), ('subpixel', 32)]


def shape_lattice(thorough):
    """List of shape specs (small / medium sizes)."""
    shapes = []
    for r in sizes(thorough):
        shapes.append({'kind': 'circle', 'r': r})
    for r, q in [(0.5, 0.5), (1.0, 0.999), (3.7, 0.5), (3.7, 0.999), (0.03, 0.5)] + ([(5.0, 0.6), (6.5, 0.999), (2.5, 0.2)] if thorough else []):
        shapes.append({'kind': 'cann', 'r_in': r * q, 'r_out': r})
    axes = [0.05, 1.0, 3.7] + ([0.5, 8.0] if thorough else [])
    ratios = [1.0, 0.3, 0.02]
    for a in axes:
        for q in ratios:
            for th in angles(thorough):
                shapes.append({'kind': 'ellipse', 'a': a, 'b': a * q, 'theta': th})
                shapes.append({'kind': 'rect', 'w': 2 * a, 'h': 2 * a * q, 'theta': th})
    # swapped axes (b > a) and powers of two (dyadic strictness for the ellipse)
    for a, b in [(1.0, 2.0), (2.0, 0.5), (4.0, 4.0), (0.5, 0.25)]:
        shapes.append({'kind': 'ellipse', 'a': a, 'b': b, 'theta': 0.0})
        shapes.append({'kind': 'rect', 'w': 2 * a, 'h': 2 * b, 'theta': 0.0})
        shapes.append({'kind': 'rect', 'w': a, 'h': b, 'theta': 0.0})
    ann_angles = [0.0, PI / 4, PI / 2 + 1e-12, 0.3] + ([PI, -PI / 4 - 1e-12, 1.234] if thorough else [])
    for a, q in [(1.0, 0.3), (3.7, 0.3), (3.7, 0.02)] + ([(3.7, 1.0), (0.05, 0.3)] if thorough else []):
        for rat in (0.5, 0.999):
            for th in ann_angles:
                shapes.append({'kind': 'eann', 'a_in': a * rat, 'a_out': a, 'b_out': a * q, 'b_in': a * q * rat, 'theta': th})
                shapes.append({'kind': 'rann', 'w_in': 2 * a * rat, 'w_out': 2 * a, 'h_out': 2 * a * q,
                               'h_in': 2 * a * q * rat, 'theta': th})
    for a in (2.0, 4.0):
        shapes.append({'kind': 'eann', 'a_in': a / 2, 'a_out': a, 'b_out': a / 2, 'b_in': a / 4, 'theta': 0.0})
        shapes.append({'kind': 'rann', 'w_in': a, 'w_out': 2 * a, 'h_out': a, 'h_in': a / 2, 'theta': 0.0})
        shapes.append({'kind': 'cann', 'r_in': a / 2, 'r_out': a + 1.0})
    return shapes


def big_shapes(thorough):
    b = [{'kind': 'circle', 'r': 300.0},
         {'kind': 'cann', 'r_in': 299.7, 'r_out': 300.0},
         {'kind': 'ellipse', 'a': 300.0, 'b': 6.0, 'theta': PI / 4 + 1e-12},
         {'kind': 'rect', 'w': 600.0, 'h': 12.0, 'theta': 0.3},
         {'kind': 'eann', 'a_in': 299.7, 'a_out': 300.0, 'b_out': 90.0, 'b_in': 89.91, 'theta': 3 * PI / 4},
         {'kind': 'rann', 'w_in': 100.0, 'w_out': 200.0, 'h_out': 4.0, 'h_in': 2.0, 'theta': PI / 2}]
    if thorough:
        b += [{'kind': 'circle', 'r': 120.0}, {'kind': 'ellipse', 'a': 300.0, 'b': 300.0, 'theta': 0.3},
              {'kind': 'ellipse', 'a': 6.0, 'b': 300.0, 'theta': 0.0},
              {'kind': 'rect', 'w': 600.0, 'h': 600.0, 'theta': PI / 4},
              {'kind': 'rann', 'w_in': 599.4, 'w_out': 600.0, 'h_out': 12.0, 'h_in': 11.988, 'theta': -1.1}]
    return b


def _jsonable(sp):
    return {k: (float(v) if not isinstance(v, str) else v) for k, v in sp.items()}


def _ckey(sp, pos, method, s):
    return (tuple(sorted(sp.items())), tuple(pos), method, s)


# ----------------------------------------------------------------------------------------------
# run / replay
# ----------------------------------------------------------------------------------------------
def _run_mask_case(ctx, sp, pos, method, s, budget, do_slices=True, f23=False):
    case = {'chk': 'mask', 'shape': _jsonable(sp), 'pos': [float(pos[0]), float(pos[1])], 'method': method,
            'subpixels': int(s), 'sub_seed': int(ctx.rng.integers(0, 2 ** 31)), 'budget': budget}
    if f23:
        case['f23'] = True
    fails, info = eval_mask(case, budget)
    ctx.case(_ckey(sp, pos, method, s), nontrivial=info.get('nontrivial', False),
             contract=f'mask-{method}', sample={'shape': case['shape'], 'pos': case['pos'], 'method': method, 'subpixels': s})
    kc = ctx.__dict__.setdefault('_c01_keycount', {})
    for key, what in fails:
        kc[key] = kc.get(key, 0) + 1
        if kc[key] <= 10:      # one defect is hit by many lattice points: record a few, count all (see notes)
            ctx.check(False, key, what, case=dict(case, fkey=key))
    if do_slices and 'box' in info:
        for shp in IMG_SHAPES:
            sf = eval_slices(info['box'], info['W'], shp, info['mask'])
            far = abs(pos[0]) > 1e5
            ctx.case(('slices', info['box'], shp), nontrivial=not far, contract='overlap-slices/to_image/cutout')
            for key, what in sf:
                ctx.check(False, key, what, case={'chk': 'slices', 'box': [int(v) for v in info['box']], 'shape': list(shp),
                                                  'mask_case': case, 'fkey': key})


def run(ctx):
    th = ctx.thorough
    budget = 1.2e7 if th else 2.5e6

    # ---- 1. BoundingBox.from_float on a 1-D lattice ---------------------------------------------
    base = [-3.0, -1.0, 0.0, 1.0, 7.0, 1e6]
    fr = [0.0, 1e-9, -1e-9, 0.5, 0.5 + 1e-9, 0.5 - 1e-9, 0.25, -0.5, 0.37, -0.49999]
    vals = sorted({b + f for b in base for f in fr} |
                  {math.nextafter(0.5, 0.0), math.nextafter(0.5, 1.0), math.nextafter(-0.5, 0.0), math.nextafter(-0.5, -1.0),
                   math.nextafter(1.5, 0.0), math.nextafter(1.5, 2.0)})
    nrec = {}
    for i, a in enumerate(vals):
        for b in vals[i:]:
            # x and y carry different pairs so that an x/y swap is visible
            v = (a, b, vals[(i * 7) % len(vals)], max(vals[(i * 7) % len(vals)], b))
            if v[2] > v[3]:
                continue
            fs = eval_from_float(v)
            ctx.case(('from_float', v), contract='from_float')
            for key, what in fs:
                nrec[key] = nrec.get(key, 0) + 1
                if nrec[key] <= 4:     # the same defect is hit by many pairs; record a few
                    ctx.check(False, key, what, case={'chk': 'from_float', 'vals': list(v), 'fkey': key})

    # ---- 2. box algebra: exhaustive small scope --------------------------------------------------
    rngc = range(-3, 5) if th else range(-2, 4)
    boxes = [(x0, x1, y0, y1) for x0 in rngc for x1 in rngc if x1 > x0 for y0 in rngc for y1 in rngc if y1 > y0]
    shapes_img = [(ny, nx) for ny in (1, 2, 3) for nx in (1, 2, 3)]
    step = 1 if th else 7
    n = 0
    for i, b1 in enumerate(boxes):
        for j in range(i % step, len(boxes), step * (5 if th else 3)):
            b2 = boxes[j]
            shp = shapes_img[(i + j) % len(shapes_img)]
            fs = eval_box_algebra(b1, b2, shp)
            n += 1
            ctx.case(('boxalg', b1, b2, shp), contract='box-union/intersection/slices')
            for key, what in fs:
                ctx.check(False, key, what, case={'chk': 'boxalg', 'b1': list(b1), 'b2': list(b2), 'shape': list(shp), 'fkey': key})
        # every box against every small image shape
        for shp in shapes_img:
            exp = slices_oracle(b1, shp)
            from photutils.aperture import BoundingBox
            sl, ss = BoundingBox(*b1).get_overlap_slices(shp)
            ok = (exp is None and sl is None and ss is None) or (exp is not None and sl is not None and
                                                                _slc_tuple(sl) == exp[0] and _slc_tuple(ss) == exp[1])
            ctx.case(('boxslices', b1, shp), nontrivial=exp is not None, contract='box-union/intersection/slices')
            ctx.check(ok, 'slices/wrong', f'box={b1} shape={shp}: got {sl},{ss} expected {exp}',
                      case={'chk': 'boxalg', 'b1': list(b1), 'b2': list(b1), 'shape': list(shp), 'fkey': 'slices/wrong'})

    # ---- 3. the F23 manifestation at aperture level (1 ulp below a pixel edge) -----------------------
    _run_mask_case(ctx, {'kind': 'circle', 'r': 0.25 + 2.0 ** -54}, (0.75, 3.0), 'center', 1, budget, do_slices=False, f23=True)

    # ---- 4. mask lattice ----------------------------------------------------------------------------
    shapes = shape_lattice(th)
    cs = centres(th)
    k = 0
    for si, sp in enumerate(shapes):
        for ci, pos in enumerate(cs):
            if th:
                ms = METHODS
            else:
                ms = [METHODS[(si + ci) % 6], METHODS[(si * 5 + ci + 3) % 6]]
                if ms[0] == ms[1]:
                    ms = ms[:1]
            for (method, s) in ms:
                k += 1
                # slices/to_image/cutout are checked once per (shape, centre)
                _run_mask_case(ctx, sp, pos, method, s, budget, do_slices=(method, s) == ms[0])
            if ci % 4 == si % 4:
                fs = eval_methods_equiv({'shape': sp, 'pos': pos})
                ctx.case(('equiv', tuple(sorted(sp.items())), pos), contract='method-dispatch')
                for key, what in fs:
                    ctx.check(False, key, what, case={'chk': 'equiv', 'shape': _jsonable(sp), 'pos': list(pos), 'fkey': key})

    # ---- 4b. exact elliptical kernel on boundary-coincidence configurations (all centres, exact) -------------
    special = [{'kind': 'ellipse', 'a': 1.0, 'b': 1.0, 'theta': 1e-14},
               {'kind': 'ellipse', 'a': 1.0, 'b': 1.0, 'theta': PI + 1e-12},
               {'kind': 'ellipse', 'a': 0.5, 'b': 0.15, 'theta': 0.0},
               {'kind': 'ellipse', 'a': 1.0, 'b': 0.3, 'theta': PI / 2},
               {'kind': 'ellipse', 'a': 2.5, 'b': 1.5, 'theta': 0.0},
               {'kind': 'ellipse', 'a': 5.0, 'b': 2.5, 'theta': PI / 2},
               {'kind': 'ellipse', 'a': 5.0, 'b': 5.0, 'theta': 0.3},
               {'kind': 'eann', 'a_in': 1.5, 'a_out': 2.5, 'b_out': 1.5, 'b_in': 0.5, 'theta': 0.0},
               {'kind': 'circle', 'r': 5.0}, {'kind': 'circle', 'r': 2.5}, {'kind': 'circle', 'r': 6.5},
               {'kind': 'cann', 'r_in': 2.5, 'r_out': 5.0}]
    for sp in special:
        for pos in cs:
            _run_mask_case(ctx, sp, pos, 'exact', 5, budget, do_slices=False)

    # ---- 5. big shapes ------------------------------------------------------------------------------
    bigc = [(10.0, 12.5), (10.37, 11.81), (1e6 + 0.3, -1e6 + 0.5)] if th else [(10.0, 12.5), (10.37, 11.81)]
    bigm = METHODS if th else [('exact', 5), ('center', 5), ('subpixel', 2)]
    for si, sp in enumerate(big_shapes(th)):
        for ci, pos in enumerate(bigc):
            for mi, (method, s) in enumerate(bigm):
                if not th and (si + ci + mi) % 2 and method != 'exact':
                    continue
                if s == 32 and sp['kind'] in ('ellipse', 'eann') and ci > 0:
                    continue
                _run_mask_case(ctx, sp, pos, method, s, budget, do_slices=(mi == 0))

    # ---- 6. seeded random generic cases ---------------------------------------------------------------
    nrand = 1500 if th else 400
    rng = ctx.rng
    kinds = ['circle', 'cann', 'ellipse', 'eann', 'rect', 'rann']
    for i in range(nrand):
        kind = kinds[i % 6]
        a = float(np.exp(rng.uniform(np.log(0.03), np.log(25.0))))
        q = float(rng.uniform(0.02, 1.0))
        rat = float(rng.choice([0.5, 0.9, 0.999, rng.uniform(0.05, 0.999)]))
        th_ = float(rng.choice([rng.uniform(-PI, 2 * PI), rng.integers(-4, 9) * PI / 4 + rng.choice([0, 1e-12, -1e-12])]))
        if kind == 'circle':
            sp = {'kind': kind, 'r': a}
        elif kind == 'cann':
            sp = {'kind': kind, 'r_in': a * rat, 'r_out': a}
        elif kind == 'ellipse':
            sp = {'kind': kind, 'a': a, 'b': a * q, 'theta': th_}
        elif kind == 'eann':
            sp = {'kind': kind, 'a_in': a * rat, 'a_out': a, 'b_out': a * q, 'b_in': a * q * rat, 'theta': th_}
        elif kind == 'rect':
            sp = {'kind': kind, 'w': 2 * a, 'h': 2 * a * q, 'theta': th_}
        else:
            sp = {'kind': kind, 'w_in': 2 * a * rat, 'w_out': 2 * a, 'h_out': 2 * a * q, 'h_in': 2 * a * q * rat, 'theta': th_}
        pos = (float(rng.uniform(-5, 30)), float(rng.uniform(-5, 30)))
        method, s = METHODS[int(rng.integers(0, 6))]
        if s == 5 and rng.random() < 0.5:
            s = int(rng.integers(1, 33))
        _run_mask_case(ctx, sp, pos, method, s, budget, do_slices=(i % 3 == 0))
    if ctx.__dict__.get('_c01_keycount'):
        ctx.note('mask-contract violations per key (at most 10 of each recorded): ' + repr(dict(sorted(ctx.__dict__['_c01_keycount'].items()))))
    ctx.note(f'mask lattice: {len(shapes)} shapes x {len(cs)} centres; {k} lattice mask cases; {nrand} random cases')


def replay(case):
    try:
        chk = case.get('chk')
        if chk == 'mask':
            fails, _ = eval_mask(case, case.get('budget', 2.5e6))
        elif chk == 'slices':
            mc = case.get('mask_case')
            fails = None
            if mc is not None:
                _, info = eval_mask(mc, mc.get('budget', 2.5e6))
                if 'box' in info:
                    fails = eval_slices(info['box'], info['W'], tuple(case['shape']), info['mask'])
            if fails is None:
                b = case['box']
                fails = eval_slices(tuple(b), np.ones((b[3] - b[2], b[1] - b[0])), tuple(case['shape']))
        elif chk == 'from_float':
            fails = eval_from_float(tuple(case['vals']))
        elif chk == 'boxalg':
            fails = eval_box_algebra(tuple(case['b1']), tuple(case['b2']), tuple(case['shape']))
        elif chk == 'equiv':
            fails = eval_methods_equiv(case)
        else:
            return ('error', f'unknown case kind {chk!r}', None)
    except Exception as e:  # noqa: BLE001
        return ('error', f'{type(e).__name__}: {e}', None)
    want = case.get('fkey')
    hit = [f for f in fails if want is None or f[0] == want]
    if hit:
        return ('confirmed', hit[0][1], {'failures': [list(f) for f in fails]})
    return ('spurious', 'contract holds on replay', {'failures': [list(f) for f in fails]})
