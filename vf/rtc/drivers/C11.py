"""C11 -- Background2D maps are full-size, finite, mask-blind and equivariant.

Bounded run-time contract driver (engine E4).  Oracles written from the property statement and the
documented parameters: an explicit per-box loop (box pixels -> drop masked / coverage / non-finite ->
astropy sigma_clip applied to that box alone -> estimator formulas written out in plain numpy), the
documented exclusion rule in integer arithmetic (excluded iff MORE than exclude_percentile percent of the
box area is masked, padding and clipped pixels included; completely masked boxes always excluded),
inverse-distance fill of excluded meshes and the IDW up-scaling by definition (<= 10 nearest good meshes,
weights 1/d, all admissible tie-breakings accepted), the median filter window by definition, and the
relational clauses (mask-blindness, constant image, add-c / scale-k) on pairs of runs.
"""
import contextlib
import itertools
import math
from fractions import Fraction

import numpy as np

BOUNDS = (
    "Images (ny,nx)/box: dividing (12,15)/(4,5) (12,12)/(3,3) (8,8)/(4,2); not dividing (13,17)/(4,5) [extra row, "
    "column and corner] (12,17)/(4,5) (13,15)/(4,5) (11,14)/(3,4) (7,9)/(5,5); box == image (6,7)/(6,7) (5,5)/(5,5), "
    "box larger than image (6,7)/(10,10); 1-row / 1-column (1,12)/(1,4) (1,13)/(1,4) (1,7)/(1,7) (9,1)/(3,1); float64 "
    "scenes {noise+gradient, noise+bright sources, dyadic}.  Masks {none, 15% random, threshold lattice (one box with "
    "EXACTLY floor(p*N/100) masked pixels, one with one more, one completely masked), unmasked NaN/inf}; coverage masks "
    "{none, strip, block covering a whole box}; fill_value in {0, -99.5}; exclude_percentile in {0, 10, 50, 100} "
    "(+25, 12.5 thorough); filter_size in {1, 3, (3,1), (1,3), 5}; filter_threshold in {None, below the minimum, "
    "median of the mesh, above the maximum}; sigma_clip in {None, SigmaClip(3,10), SigmaClip(2,3), SigmaClip(2.5,5,"
    "cenfunc=mean)}; bkg estimators {Mean, Median, ModeEstimator(2.5,1.5), MMM, SExtractor, BiweightLocation(c=6), "
    "BiweightLocation(c=4)} x rms estimators {Std, MADStd, BiweightScale(c=9), BiweightScale(c=6)}; interpolators "
    "{BkgZoomInterpolator(), BkgIDWInterpolator()}; edge_method {pad, crop}; nan-statistics bound to bottleneck "
    "dispatchers ('on') or to numpy ('off': the names imported from photutils.utils._stats are rebound in "
    "background/core.py, background_2d.py and extern/biweight.py, HAS_BOTTLENECK=False there).  Quick tier: a "
    "covering sub-product (every value of every factor, all estimator pairs, every shape x mask kind x percentile x "
    "bottleneck mode); thorough: ~6x more combinations.  Tolerances: mesh values vs loop oracle rtol 1e-9 (atol "
    "1e-9*max|data|); exclusion, npixels_mesh, shapes, coverage fill, mask-blindness: exact; clipped-zoom range: exact; "
    "constant image: exact when no mesh is excluded and the constant is dyadic, else 1e-14*|c| (one IDW / mean "
    "rounding); add-c / scale-k: 1e-8*(max|data|+|c|)."
)
RULE = (
    "A case is one Background2D configuration (key = indices of every factor + bottleneck mode) on which all "
    "single-run contracts are evaluated; relational contracts add one case per (configuration, relation).  Trivial "
    "(not counted): configurations where every box is excluded (ValueError is the documented outcome and is "
    "checked), and SExtractor boxes within 1e-9 of the 0.3 branch point (skipped).  Random parts use ctx.rng; the "
    "lattices are seed-independent."
)

SHAPES = [((12, 15), (4, 5), 'div'), ((12, 12), (3, 3), 'div'), ((8, 8), (4, 2), 'div'),
          ((13, 17), (4, 5), 'nodiv'), ((12, 17), (4, 5), 'nodiv'), ((13, 15), (4, 5), 'nodiv'),
          ((11, 14), (3, 4), 'nodiv'), ((7, 9), (5, 5), 'nodiv'),
          ((6, 7), (6, 7), 'box=image'), ((5, 5), (5, 5), 'box=image'), ((6, 7), (10, 10), 'box>image'),
          ((1, 12), (1, 4), '1row'), ((1, 13), (1, 4), '1row'), ((1, 7), (1, 7), '1row'), ((9, 1), (3, 1), '1col')]
BKG = ['Mean', 'Median', 'Mode(2.5,1.5)', 'MMM', 'SExtractor', 'Biweight(6)', 'Biweight(4)']
RMS = ['Std', 'MADStd', 'BiweightScale(9)', 'BiweightScale(6)']
SIGCLIP = [None, [3.0, 10, 'median'], [2.0, 3, 'median'], [2.5, 5, 'mean']]


# --------------------------------------------------------------------------------------------------
# bottleneck on / off
# --------------------------------------------------------------------------------------------------
@contextlib.contextmanager
def bottleneck(on):
    """Bind the nan-statistics used by the background code to the bottleneck dispatchers or to numpy.

    photutils.utils._stats decides at import time (HAS_BOTTLENECK) and the consumers import the names, so
    the consumer modules are rebound; 'off' reproduces exactly what an installation without bottleneck runs.
    """
    import photutils.background.background_2d as b2
    import photutils.background.core as bc
    import photutils.extern.biweight as bw
    import photutils.utils._stats as st
    mods = [(bc, ('nanmean', 'nanmedian', 'nanstd')), (b2, ('nanmedian', 'nanmin')), (bw, ('nanmedian', 'nansum'))]
    saved = [(m, n, getattr(m, n)) for m, names in mods for n in names]
    saved_flag = bw.HAS_BOTTLENECK
    try:
        for m, names in mods:
            for n in names:
                setattr(m, n, getattr(st, n) if on else getattr(np, n))
        bw.HAS_BOTTLENECK = bool(on and st.HAS_BOTTLENECK)
        yield
    finally:
        for m, n, f in saved:
            setattr(m, n, f)
        bw.HAS_BOTTLENECK = saved_flag


def bottleneck_available():
    import photutils.utils._stats as st
    return bool(st.HAS_BOTTLENECK) and st.nanmean is not np.nanmean


# --------------------------------------------------------------------------------------------------
# estimator instances and their spec formulas on the 1-D array of retained box pixels
# --------------------------------------------------------------------------------------------------
def mk_bkg(name):
    import photutils.background as pb
    return {'Mean': lambda: pb.MeanBackground(), 'Median': lambda: pb.MedianBackground(),
            'Mode(2.5,1.5)': lambda: pb.ModeEstimatorBackground(median_factor=2.5, mean_factor=1.5),
            'MMM': lambda: pb.MMMBackground(), 'SExtractor': lambda: pb.SExtractorBackground(),
            'Biweight(6)': lambda: pb.BiweightLocationBackground(),
            'Biweight(4)': lambda: pb.BiweightLocationBackground(c=4.0)}[name]()


def mk_rms(name):
    import photutils.background as pb
    return {'Std': lambda: pb.StdBackgroundRMS(), 'MADStd': lambda: pb.MADStdBackgroundRMS(),
            'BiweightScale(9)': lambda: pb.BiweightScaleBackgroundRMS(),
            'BiweightScale(6)': lambda: pb.BiweightScaleBackgroundRMS(c=6.0)}[name]()


def _biloc(v, c):
    M = np.median(v)
    d = v - M
    mad = np.median(np.abs(d))
    if mad == 0:
        return M
    u = d / (c * mad)
    w = np.where(np.abs(u) < 1, (1 - u * u) ** 2, 0.0)
    return M + np.sum(d * w) / np.sum(w)


def _biscale(v, c):
    M = np.median(v)
    d = v - M
    mad = np.median(np.abs(d))
    if mad == 0:
        return 0.0
    u2 = (d / (c * mad)) ** 2
    m = u2 < 1
    f1 = np.sum((d * d * (1 - u2) ** 4)[m])
    f2 = np.sum(((1 - u2) * (1 - 5 * u2))[m])
    return math.sqrt(len(v) * f1 / (f2 * f2))


def o_bkg(name, v):
    """Returns (value, borderline) -- borderline: SExtractor branch decision within rounding."""
    mean, med = float(np.mean(v)), float(np.median(v))
    if name == 'Mean':
        return mean, False
    if name == 'Median':
        return med, False
    if name == 'Mode(2.5,1.5)':
        return 2.5 * med - 1.5 * mean, False
    if name == 'MMM':
        return 3.0 * med - 2.0 * mean, False
    if name == 'SExtractor':
        std = float(np.std(v))
        if std == 0 or std < 1e-13 * (abs(mean) + 1e-300):
            return mean, std != 0
        q = abs(mean - med) / std
        if abs(q - 0.3) < 1e-9:
            return med, True
        return (med if q >= 0.3 else 2.5 * med - 1.5 * mean), False
    if name.startswith('Biweight('):
        return float(_biloc(v, float(name[9:-1]))), False
    raise ValueError(name)


def o_rms(name, v):
    if name == 'Std':
        return float(np.sqrt(np.mean((v - np.mean(v)) ** 2)))
    if name == 'MADStd':
        return 1.482602218505602 * float(np.median(np.abs(v - np.median(v))))
    if name.startswith('BiweightScale('):
        return float(_biscale(v, float(name[14:-1])))
    raise ValueError(name)


def mk_sigclip(par):
    from astropy.stats import SigmaClip
    if par is None:
        return None
    return SigmaClip(sigma=par[0], maxiters=par[1], cenfunc=par[2])


# --------------------------------------------------------------------------------------------------
# the spec oracle of the low-resolution maps
# --------------------------------------------------------------------------------------------------
def oracle_stats(data, tmask, box, p, edge, scpar, bname, rname):
    """Per-box loop.  Returns bkg, rms (NaN where excluded), ngood (int), excluded (bool), borderline (bool)."""
    ny, nx = data.shape
    by, bx = min(box[0], ny), min(box[1], nx)
    if edge == 'pad':
        nby, nbx = -(-ny // by), -(-nx // bx)
    else:
        nby, nbx = ny // by, nx // bx
    N = by * bx
    bkg = np.full((nby, nbx), np.nan)
    rms = np.full((nby, nbx), np.nan)
    ngood = np.zeros((nby, nbx), int)
    excl = np.zeros((nby, nbx), bool)
    border = np.zeros((nby, nbx), bool)
    for i in range(nby):
        for j in range(nbx):
            vals = []
            for y in range(i * by, min((i + 1) * by, ny)):
                for x in range(j * bx, min((j + 1) * bx, nx)):
                    if not tmask[y, x]:
                        vals.append(data[y, x])
            v = np.array(vals, float)
            if scpar is not None and v.size:
                sc = mk_sigclip(scpar)                      # astropy's own sigma clipping, on this box alone
                v = np.asarray(sc(v, masked=True).compressed(), float)
            n = int(v.size)
            ngood[i, j] = n
            nmasked = N - n                                 # masked + coverage + non-finite + padding + clipped
            # documented rule: excluded iff MORE than p percent of the box pixels are masked; all-masked always
            excl[i, j] = (n == 0) or (100 * nmasked > Fraction(p) * N)      # exact rational arithmetic
            if not excl[i, j]:
                bkg[i, j], border[i, j] = o_bkg(bname, v)
                rms[i, j] = o_rms(rname, v)
    return bkg, rms, ngood, excl, border


def idw_candidates(points, values, q, k=10, conf=1e-12, cap=300):
    """All admissible inverse-distance results (power 1, <= k nearest points) for query q; None if too many ties."""
    d = np.hypot(points[:, 0] - q[0], points[:, 1] - q[1])
    order = np.argsort(d, kind='stable')
    if d[order[0]] <= conf:
        return [float(values[order[0]])]
    M = len(d)
    if M <= k:
        sets = [list(range(M))]
    else:
        kth = d[order[k - 1]]
        S = [i for i in range(M) if d[i] < kth - 1e-9]
        T = [i for i in range(M) if abs(d[i] - kth) <= 1e-9]
        r = k - len(S)
        if math.comb(len(T), r) > cap:
            return None
        sets = [S + list(c) for c in itertools.combinations(T, r)]
    out = []
    for s in sets:
        w = 1.0 / d[s]
        out.append(float(np.sum(w * values[s]) / np.sum(w)))
    return out


def oracle_fill(stat, excl, real_filled, tol):
    """IDW fill of excluded meshes in mesh-index coordinates.  `real_filled` (from a filter_size=1 run) selects
    among admissible tie-breakings.  Returns (filled, bad_cells)."""
    out = stat.copy()
    bad = []
    if not excl.any():
        return out, bad
    good = np.argwhere(~excl).astype(float)
    vals = stat[~excl]
    for (i, j) in np.argwhere(excl):
        cands = idw_candidates(good, vals, (float(i), float(j)))
        r = real_filled[i, j]
        if cands is None:
            ok = np.isfinite(r) and vals.min() - tol <= r <= vals.max() + tol
            out[i, j] = r
        else:
            ok = any(abs(r - c) <= tol for c in cands)
            out[i, j] = r if ok else cands[0]
        if not ok:
            bad.append((int(i), int(j), float(r), None if cands is None else cands[:3]))
    return out, bad


def oracle_filter(mesh, sel_mesh, fs, thr):
    """Median over the fs window clipped to the grid, at cells where sel_mesh > thr (all cells if thr is None)."""
    fy, fx = fs
    if (fy, fx) == (1, 1):
        return mesh.copy()
    out = mesh.copy()
    ny, nx = mesh.shape
    for i in range(ny):
        for j in range(nx):
            if thr is not None and not (sel_mesh[i, j] > thr):
                continue
            w = mesh[max(i - fy // 2, 0):min(i + fy // 2 + 1, ny), max(j - fx // 2, 0):min(j + fx // 2 + 1, nx)]
            out[i, j] = np.median(w)
    return out


# --------------------------------------------------------------------------------------------------
# building the real object from a JSON-able spec
# --------------------------------------------------------------------------------------------------
def _J(a):
    return None if a is None else np.asarray(a).tolist()


def build(spec, data, mask, cov, **over):
    from photutils.background import Background2D, BkgIDWInterpolator, BkgZoomInterpolator
    s = dict(spec)
    s.update(over)
    kw = dict(mask=mask, coverage_mask=cov, fill_value=s['fill'], exclude_percentile=s['p'],
              filter_size=tuple(s['fs']), filter_threshold=s['thr'], sigma_clip=mk_sigclip(s['sc']),
              bkg_estimator=mk_bkg(s['bkg']), bkgrms_estimator=mk_rms(s['rms']),
              interpolator=BkgIDWInterpolator() if s['interp'] == 'idw' else BkgZoomInterpolator())
    if s['edge'] == 'crop':
        kw['edge_method'] = 'crop'
    return Background2D(data, tuple(s['box']), **kw)


def total_mask(data, mask, cov):
    t = ~np.isfinite(data)
    if mask is not None:
        t = t | mask
    if cov is not None:
        t = t | cov
    return t


class Rec:
    def __init__(self, ctx=None):
        self.ctx = ctx
        self.fails = []

    def case(self, *a, **k):
        if self.ctx is not None:
            self.ctx.case(*a, **k)

    def check(self, ok, key, what, case):
        if not ok:
            self.fails.append((key, what))
            if self.ctx is not None:
                self.ctx.check(False, key, what, case)
        return bool(ok)


def _case(kind, spec, data, mask, cov, **extra):
    c = {'kind': kind, 'spec': spec, 'data': _J(data), 'mask': _J(mask), 'cov': _J(cov)}
    c.update(extra)
    return c


def _desc(spec):
    return (f"shape-box={spec['box']} p={spec['p']} fs={spec['fs']} thr={spec['thr']} sc={spec['sc']} "
            f"{spec['bkg']}/{spec['rms']} {spec['interp']} edge={spec['edge']} bn={spec['bn']}")


# --------------------------------------------------------------------------------------------------
# single-run contracts
# --------------------------------------------------------------------------------------------------
def check_single(rec, spec, data, mask, cov, tag):
    case = _case('single', spec, data, mask, cov)
    desc = _desc(spec) + f' image={data.shape} ({tag})'
    tm = total_mask(data, mask, cov)
    dclean = np.where(tm, 0.0, data)
    scale = float(np.max(np.abs(dclean))) + 1e-300
    tol = 1e-9 * scale
    obkg, orms, ongood, oexcl, oborder = oracle_stats(data, tm, spec['box'], spec['p'], spec['edge'], spec['sc'],
                                                      spec['bkg'], spec['rms'])
    all_excl = bool(oexcl.all())
    d0 = data.copy()
    m0 = None if mask is None else mask.copy()
    c0 = None if cov is None else cov.copy()
    with bottleneck(spec['bn']):
        try:
            b = build(spec, data, mask, cov)
            err = None
        except ValueError as exc:
            b, err = None, exc
        except Exception as exc:  # noqa: BLE001
            rec.case(('single', tag), nontrivial=True, contract='construct')
            rec.check(False, 'construct-raises', f'Background2D raised {type(exc).__name__}: {exc}; {desc}', case)
            return
        if b is None:
            rec.case(('single', tag), nontrivial=False, contract='all-excluded->ValueError')
            key = 'exclude_percentile-0-raises-with-unmasked-boxes' if spec['p'] == 0 else \
                'ValueError-although-some-box-is-not-excluded'
            rec.check(all_excl, key,
                      f'Background2D raised ValueError ({err}) although the documented rule keeps '
                      f'{int((~oexcl).sum())} boxes (ngood={ongood.tolist()}, N={min(spec["box"][0], data.shape[0]) * min(spec["box"][1], data.shape[1])}); {desc}', case)
            return
        rec.case(('single', tag), nontrivial=True, contract='single-run')
        if all_excl:
            rec.check(False, 'no-ValueError-although-all-boxes-excluded',
                      f'all boxes are excluded by the documented rule but no ValueError; {desc}', case)
            return
        try:
            # both read orders of the two lazily evaluated meshes are exercised (the selective filter of the
            # rms mesh needs the background statistics)
            if (int(spec['fs'][0]) + int(spec['p']) + int(bool(spec['bn']))) % 2:
                rmesh = np.array(b.background_rms_mesh, float)
                mesh = np.array(b.background_mesh, float)
            else:
                mesh = np.array(b.background_mesh, float)
                rmesh = np.array(b.background_rms_mesh, float)
            bg = np.array(b.background, float)
            br = np.array(b.background_rms, float)
            npm = np.array(b.npixels_mesh)
            masked_mesh = np.array(b.background_mesh_masked, float)
            bmed = float(b.background_median)
            # filter_size=1 companion: the filled, unfiltered meshes (used to resolve IDW tie-breaking only)
            if tuple(spec['fs']) != (1, 1):
                b1 = build(spec, data, mask, cov, fs=[1, 1], thr=None)
                mesh1 = np.array(b1.background_mesh, float)
                rmesh1 = np.array(b1.background_rms_mesh, float)
            else:
                mesh1, rmesh1 = mesh, rmesh
        except Exception as exc:  # noqa: BLE001
            rec.check(False, 'property-raises', f'{type(exc).__name__}: {exc}; {desc}', case)
            return
    # ---- inputs untouched
    rec.check(np.array_equal(data, d0, equal_nan=True) and (mask is None or np.array_equal(mask, m0))
              and (cov is None or np.array_equal(cov, c0)), 'input-modified', f'an input array was modified; {desc}', case)
    # ---- shapes, finiteness, coverage fill
    rec.check(bg.shape == data.shape and br.shape == data.shape, 'map-shape',
              f'background shape {bg.shape}/{br.shape} != image shape {data.shape}; {desc}', case)
    rec.check(mesh.shape == obkg.shape and rmesh.shape == obkg.shape and npm.shape == obkg.shape, 'mesh-shape',
              f'mesh shape {mesh.shape} != expected {obkg.shape}; {desc}', case)
    if bg.shape != data.shape or mesh.shape != obkg.shape:
        return
    rec.check(bool(np.all(np.isfinite(bg)) and np.all(np.isfinite(br))), 'map-not-finite',
              f'non-finite values in the maps (bkg {int((~np.isfinite(bg)).sum())}, rms {int((~np.isfinite(br)).sum())}); {desc}', case)
    rec.check(bool(np.all(np.isfinite(mesh)) and np.all(np.isfinite(rmesh))), 'mesh-not-finite',
              f'non-finite values in the low-resolution maps; {desc}', case)
    if cov is not None and cov.any():
        rec.check(bool(np.all(bg[cov] == spec['fill']) and np.all(br[cov] == spec['fill'])), 'coverage-not-fill_value',
                  f'coverage_mask pixels differ from fill_value {spec["fill"]}; {desc}', case)
    # ---- exclusion rule and pixel counts
    rec.check(np.array_equal(npm, ongood), 'npixels_mesh',
              f'npixels_mesh {npm.tolist()} != retained pixels per box {ongood.tolist()}; {desc}', case)
    rexcl = np.isnan(masked_mesh)
    if not np.array_equal(rexcl, oexcl):
        N = min(spec['box'][0], data.shape[0]) * min(spec['box'][1], data.shape[1])
        diff = np.argwhere(rexcl != oexcl)
        i, j = diff[0]
        exact = any(100 * int(N - ongood[a, c]) == Fraction(spec['p']) * N and ongood[a, c] > 0 for a, c in diff)
        key = 'exclusion/box-with-exactly-threshold-fraction-masked' if exact else 'exclusion/rule'
        rec.check(False, key,
                  f'box ({i},{j}) with {N - ongood[i, j]} of {N} pixels masked: excluded={bool(rexcl[i, j])}, documented '
                  f'rule (more than {spec["p"]}% masked) says {bool(oexcl[i, j])}; {desc}', case)
        return
    # ---- mesh values = estimator of the sigma-clipped unmasked box pixels; excluded ones IDW-filled; filtered
    usable = ~oborder
    fb, badb = oracle_fill(obkg, oexcl, mesh1, tol)
    fr, badr = oracle_fill(orms, oexcl, rmesh1, tol)
    ok1 = bool(np.all(np.abs(mesh1 - fb)[~oexcl & usable] <= 1e-9 * np.abs(fb[~oexcl & usable]) + tol))
    rec.check(ok1, f'mesh-value/bkg/{spec["bkg"]}',
              f'background mesh (unfiltered) {mesh1.tolist()} != per-box oracle {fb.tolist()}; {desc}', case)
    ok2 = bool(np.all(np.abs(rmesh1 - fr)[~oexcl] <= 1e-9 * np.abs(fr[~oexcl]) + tol))
    rec.check(ok2, f'mesh-value/rms/{spec["rms"]}',
              f'rms mesh (unfiltered) {rmesh1.tolist()} != per-box oracle {fr.tolist()}; {desc}', case)
    rec.check(not badb and not badr, 'mesh-value/excluded-box-not-IDW-of-good-boxes',
              f'excluded meshes are not the inverse-distance mean of the <=10 nearest good meshes: {(badb + badr)[:2]}; {desc}', case)
    if ok1 and ok2 and not badb and not badr and usable.all():
        thr = spec['thr']
        eb = oracle_filter(mesh1, mesh1, tuple(spec['fs']), thr)
        er = oracle_filter(rmesh1, mesh1, tuple(spec['fs']), thr)
        # cells within rounding of the threshold may go either way
        amb = np.zeros(mesh.shape, bool) if thr is None else (np.abs(mesh1 - thr) <= tol)
        rec.check(bool(np.all((np.abs(mesh - eb) <= tol) | amb)), 'mesh-filter/bkg',
                  f'filtered background mesh {mesh.tolist()} != median-window oracle {eb.tolist()}; {desc}', case)
        rec.check(bool(np.all((np.abs(rmesh - er) <= tol) | amb)), 'mesh-filter/rms',
                  f'filtered rms mesh {rmesh.tolist()} != median-window oracle {er.tolist()}; {desc}', case)
    rec.check(abs(bmed - float(np.median(mesh))) <= tol, 'background_median', f'background_median {bmed} != median(mesh); {desc}', case)
    # ---- full-resolution maps
    outside = ~cov if cov is not None else np.ones(data.shape, bool)
    for nm, full, low in (('bkg', bg, mesh), ('rms', br, rmesh)):
        if np.ptp(low) == 0:
            rec.check(bool(np.all(full[outside] == low.flat[0])), f'map/{nm}/constant-mesh-not-constant-map',
                      f'constant mesh {low.flat[0]} but non-constant map; {desc}', case)
            continue
        if spec['interp'] == 'zoom':
            rec.check(bool(np.all(full[outside] >= low.min()) and np.all(full[outside] <= low.max())),
                      f'map/{nm}/clipped-zoom-outside-mesh-range',
                      f'map range [{full[outside].min()},{full[outside].max()}] outside mesh range [{low.min()},{low.max()}]; {desc}', case)
        else:
            by, bx = min(spec['box'][0], data.shape[0]), min(spec['box'][1], data.shape[1])
            gi = np.argwhere(~oexcl)
            pts = np.column_stack([gi[:, 0] * by + (by - 1) / 2.0, gi[:, 1] * bx + (bx - 1) / 2.0])
            vals = low[~oexcl]
            bad = []
            for y in range(data.shape[0]):
                for x in range(data.shape[1]):
                    if not outside[y, x]:
                        continue
                    c = idw_candidates(pts, vals, (float(y), float(x)))
                    if c is None:
                        ok = vals.min() - tol <= full[y, x] <= vals.max() + tol
                    else:
                        ok = any(abs(full[y, x] - v) <= tol for v in c)
                    if not ok:
                        bad.append((y, x, float(full[y, x]), None if c is None else c[:2]))
            rec.check(not bad, f'map/{nm}/idw-not-inverse-distance-mean-of-good-meshes',
                      f'IDW map differs from the definition at (y,x,got,admissible) {bad[:3]}; {desc}', case)


# --------------------------------------------------------------------------------------------------
# relational contracts
# --------------------------------------------------------------------------------------------------
def _maps(spec, data, mask, cov):
    with bottleneck(spec['bn']):
        b = build(spec, data, mask, cov)
        return (np.array(b.background, float), np.array(b.background_rms, float),
                np.array(b.background_mesh, float), np.array(b.background_rms_mesh, float))


def check_relation(rec, spec, data, mask, cov, rel, par, tag):
    case = _case('relation', spec, data, mask, cov, rel=rel, par=par)
    desc = _desc(spec) + f' image={data.shape} rel={rel} par={par} ({tag})'
    tm = total_mask(data, mask, cov)
    scale = float(np.max(np.abs(np.where(tm, 0.0, data)))) + 1e-300
    outside = ~cov if cov is not None else np.ones(data.shape, bool)
    try:
        base = _maps(spec, data, mask, cov)
    except ValueError:
        rec.case(('rel', rel, par, tag), nontrivial=False, contract=rel)
        return
    except Exception as exc:  # noqa: BLE001
        rec.case(('rel', rel, par, tag), nontrivial=True, contract=rel)
        rec.check(False, 'construct-raises', f'{type(exc).__name__}: {exc}; {desc}', case)
        return
    rec.case(('rel', rel, par, tag), nontrivial=True, contract=rel)
    try:
        if rel == 'mask-blind':
            rl = np.random.default_rng(par)
            hid = (mask if mask is not None else np.zeros(data.shape, bool)) | (cov if cov is not None else False)
            n = int(np.sum(hid))
            for junk in (rl.normal(0, 1e3, n), np.full(n, np.nan), np.full(n, np.inf), np.full(n, 1e30),
                         rl.choice([np.nan, -np.inf, 0.0, 5e5], size=n)):
                d2 = data.copy()
                d2[hid] = junk
                got = _maps(spec, d2, mask, cov)
                same = all(np.array_equal(a, b_) for a, b_ in zip(base, got))
                rec.check(same, 'mask-blind/masked-values-change-the-maps',
                          f'values stored under mask/coverage_mask change the result (max diff '
                          f'{max(float(np.nanmax(np.abs(a - b_))) for a, b_ in zip(base, got))}); {desc}', case)
        elif rel == 'auto-mask':
            # unmasked non-finite pixels behave exactly like masked pixels
            bad = ~np.isfinite(data)
            m2 = bad if mask is None else (mask | bad)
            d2 = np.where(bad, 0.0, data)
            got = _maps(spec, d2, m2, cov)
            same = all(np.array_equal(a, b_) for a, b_ in zip(base, got))
            rec.check(same, 'auto-mask/non-finite-not-equivalent-to-masked', f'NaN/inf pixels are not treated like masked pixels; {desc}', case)
        elif rel == 'add':
            c = float(par)
            s2 = dict(spec)
            if spec['thr'] is not None:
                s2['thr'] = spec['thr'] + c
            got = _maps(s2, data + c, mask, cov)
            tol = 1e-8 * (scale + abs(c))
            ok = (np.all(np.abs(got[0] - (base[0] + c))[outside] <= tol) and np.all(np.abs(got[1] - base[1])[outside] <= tol)
                  and np.all(np.abs(got[2] - (base[2] + c)) <= tol) and np.all(np.abs(got[3] - base[3]) <= tol))
            rec.check(bool(ok), 'equivariance/add-constant',
                      f'adding {c}: max|bkg-(bkg0+c)|={float(np.max(np.abs(got[0] - (base[0] + c))[outside]))}, '
                      f'max|rms-rms0|={float(np.max(np.abs(got[1] - base[1])[outside]))}; {desc}', case)
        elif rel == 'scale':
            k = float(par)
            s2 = dict(spec)
            if spec['thr'] is not None:
                s2['thr'] = spec['thr'] * k
            got = _maps(s2, data * k, mask, cov)
            tol = 1e-8 * scale * k
            ok = (np.all(np.abs(got[0] - base[0] * k)[outside] <= tol) and np.all(np.abs(got[1] - base[1] * k)[outside] <= tol)
                  and np.all(np.abs(got[2] - base[2] * k) <= tol) and np.all(np.abs(got[3] - base[3] * k) <= tol))
            rec.check(bool(ok), 'equivariance/scale',
                      f'scaling by {k}: max|bkg-k*bkg0|={float(np.max(np.abs(got[0] - base[0] * k)[outside]))}, '
                      f'max|rms-k*rms0|={float(np.max(np.abs(got[1] - base[1] * k)[outside]))}; {desc}', case)
        elif rel == 'constant':
            c = float(par)
            d2 = np.full(data.shape, c)
            # junk below mask / coverage only
            hid = (mask if mask is not None else np.zeros(data.shape, bool)) | (cov if cov is not None else False)
            d2[hid] = 1e9
            s2 = dict(spec)
            if spec['thr'] is not None:
                s2['thr'] = c - 1.0
            try:
                with bottleneck(spec['bn']):
                    b = build(s2, d2, mask, cov)
                    got = (np.array(b.background, float), np.array(b.background_rms, float))
                    anyexcl = bool(np.isnan(np.array(b.background_mesh_masked, float)).any())
            except ValueError:
                return
            dyadic = float(c * 64).is_integer() and abs(c) < 1e6
            tol = 0.0 if (dyadic and not anyexcl) else 1e-14 * abs(c)
            ok = np.all(np.abs(got[0] - c)[outside] <= tol) and np.all(np.abs(got[1])[outside] <= tol)
            rec.check(bool(ok), 'constant-image/not-reproduced',
                      f'constant image {c}: max|bkg-c|={float(np.max(np.abs(got[0] - c)[outside]))}, max rms='
                      f'{float(np.max(np.abs(got[1])[outside]))} (tolerance {tol}); {desc}', case)
    except ValueError as exc:
        rec.check(False, f'{rel}/raises-on-transformed-input', f'ValueError on the transformed input only: {exc}; {desc}', case)
    except Exception as exc:  # noqa: BLE001
        rec.check(False, 'construct-raises', f'{type(exc).__name__}: {exc}; {desc}', case)


# --------------------------------------------------------------------------------------------------
# scenes, masks
# --------------------------------------------------------------------------------------------------
def scene(kind, shape, rng):
    ny, nx = shape
    yy, xx = np.mgrid[0:ny, 0:nx].astype(float)
    if kind == 'noise':
        return rng.normal(10.0, 1.0, shape) + 0.15 * xx + 0.1 * yy
    if kind == 'sources':
        d = rng.normal(10.0, 1.0, shape) + 0.15 * xx - 0.07 * yy
        k = max(1, shape[0] * shape[1] // 25)
        idx = rng.choice(ny * nx, size=k, replace=False)
        d.flat[idx] += rng.uniform(15, 60, k)
        return d
    if kind == 'dyadic':
        return np.round(rng.normal(40, 8, shape) * 8) / 8.0
    if kind == 'mostly-constant':
        # more than half of the pixels of every box share one value (quantised / zero-padded
        # data): MAD = 0 although the box is not constant
        d = 5.0 + 2.0 * np.floor(xx / 4.0) + 4.0 * np.floor(yy / 4.0)
        k = max(1, (ny * nx) // 5)
        idx = rng.choice(ny * nx, size=k, replace=False)
        d.flat[idx] += np.round(rng.uniform(0.5, 3.0, k) * 4) / 4.0
        return d
    raise ValueError(kind)


def box_grid(shape, box):
    by, bx = min(box[0], shape[0]), min(box[1], shape[1])
    return by, bx, -(-shape[0] // by), -(-shape[1] // bx)


def make_mask(kind, shape, box, p, rng, data):
    """Returns (data, mask).  'threshold': boxes with exactly floor(p*N/100) masked, one more, and all masked."""
    ny, nx = shape
    if kind == 'none':
        return data, None
    if kind == 'random':
        return data, rng.random(shape) < 0.15
    if kind == 'nan':
        d = data.copy()
        k = max(2, ny * nx // 12)
        idx = rng.choice(ny * nx, size=k, replace=False)
        d.flat[idx] = rng.choice([np.nan, np.inf, -np.inf], size=k)
        return d, None
    if kind == 'threshold':
        by, bx, nby, nbx = box_grid(shape, box)
        N = by * bx
        mask = np.zeros(shape, bool)
        full_boxes = [(i, j) for i in range(shape[0] // by) for j in range(shape[1] // bx)]
        order = list(rng.permutation(len(full_boxes)))
        m = int(math.floor(p * N / 100.0 + 1e-9))
        plan = [m, m + 1, N, max(m - 1, 0)]
        for cnt, bi in zip(plan, order):
            i, j = full_boxes[bi]
            cnt = min(cnt, N)
            cells = [(i * by + a, j * bx + b_) for a in range(by) for b_ in range(bx)]
            sel = rng.choice(len(cells), size=cnt, replace=False)
            for s in sel:
                mask[cells[s]] = True
        return data, mask
    raise ValueError(kind)


def make_cov(kind, shape, box):
    ny, nx = shape
    if kind == 'none':
        return None
    cov = np.zeros(shape, bool)
    if kind == 'strip':
        cov[:, -2:] = True
        cov[0, :] = True
        if cov.all():
            cov[:, : max(1, nx // 2)] = False
            cov[0, 0] = True
        return cov
    if kind == 'block':
        by, bx = min(box[0], ny), min(box[1], nx)
        cov[:by, :bx] = True
        cov[by:by + 1, :2] = True
        if cov.all():
            cov[:] = False
            cov[0, :2] = True
        return cov
    raise ValueError(kind)


def thr_value(kind, data, mask, cov, spec):
    if kind is None:
        return None
    try:
        with bottleneck(True):
            b = build(spec, data, mask, cov, fs=[1, 1], thr=None)
            m = np.array(b.background_mesh, float)
    except Exception:  # noqa: BLE001
        return None
    if kind == 'below':
        return float(m.min() - 1.0)
    if kind == 'median':
        return float(np.median(m)) + 1e-3
    if kind == 'above':
        return float(m.max() + 1.0)
    raise ValueError(kind)


# --------------------------------------------------------------------------------------------------
def configurations(ctx):
    """Covering sub-product; yields (tag, spec-without-data, shape, scene kind, mask kind, cov kind, thr kind)."""
    thorough = ctx.thorough
    ps = [0, 10, 50, 100] + ([25, 12.5] if thorough else [])
    fss = [[1, 1], [3, 3], [3, 1], [1, 3], [5, 5]]
    thrs = [None, 'below', 'median', 'above']
    mkinds = ['none', 'random', 'threshold', 'nan']
    ckinds = ['none', 'strip', 'block']
    pairs = [(b, r) for b in BKG for r in RMS]
    n = 0
    # (1) every shape x mask kind x percentile x bottleneck, other factors cycling
    for si, (shape, box, cls) in enumerate(SHAPES):
        for mi, mk in enumerate(mkinds):
            for pi, p in enumerate(ps):
                for bn in (True, False):
                    n += 1
                    reps = 3 if thorough else 1
                    for rep in range(reps):
                        k = n * 7 + rep * 13
                        bname, rname = pairs[k % len(pairs)]
                        sc = SIGCLIP[(k // 3) % len(SIGCLIP)] if mk != 'threshold' or rep else None
                        spec = {'box': list(box), 'p': p, 'fs': fss[k % len(fss)], 'thr': None,
                                'sc': sc, 'bkg': bname, 'rms': rname,
                                'interp': 'idw' if (k // 2) % 3 == 0 else 'zoom',
                                'edge': 'crop' if (cls == 'nodiv' and (k // 5) % 4 == 0) else 'pad',
                                'fill': [0.0, -99.5][k % 2], 'bn': bn}
                        yield ((si, mk, p, bn, rep), spec, shape, ['noise', 'sources', 'dyadic'][k % 3], mk,
                               ckinds[(k // 4) % 3], thrs[(k // 2) % 4])
    # (2) every estimator pair x sigma clip x bottleneck on two geometries
    for gi, (shape, box) in enumerate([((13, 17), (4, 5)), ((12, 12), (3, 3))] + ([((11, 14), (3, 4))] if thorough else [])):
        for (bname, rname) in pairs:
            for sci, sc in enumerate(SIGCLIP):
                for bn in (True, False):
                    n += 1
                    if not thorough and (n + gi) % 2:
                        continue
                    spec = {'box': list(box), 'p': [10, 50, 100][n % 3], 'fs': fss[n % len(fss)], 'thr': None, 'sc': sc,
                            'bkg': bname, 'rms': rname, 'interp': 'idw' if n % 4 == 0 else 'zoom', 'edge': 'pad',
                            'fill': 0.0, 'bn': bn}
                    yield (('est', gi, bname, rname, sci, bn), spec, shape, ['sources', 'noise'][n % 2],
                           ['random', 'none', 'nan'][n % 3], ckinds[n % 3], thrs[n % 4])
    # (2b) every estimator pair on quantised data whose boxes have MAD = 0 without being constant
    for gi, (shape, box) in enumerate([((12, 16), (4, 4)), ((13, 17), (4, 5))]):
        for (bname, rname) in pairs:
            for sc in (None, SIGCLIP[1 % len(SIGCLIP)]):
                n += 1
                spec = {'box': list(box), 'p': 50, 'fs': [1, 1], 'thr': None, 'sc': sc,
                        'bkg': bname, 'rms': rname, 'interp': 'zoom', 'edge': 'pad',
                        'fill': 0.0, 'bn': bool(n % 2)}
                yield (('mad0', gi, bname, rname, sc is None), spec, shape, 'mostly-constant',
                       ['none', 'random'][n % 2], 'none', None)
    # (3) filter sizes x thresholds x interpolators x edge methods
    for gi, (shape, box) in enumerate([((13, 17), (4, 5)), ((12, 15), (4, 5)), ((1, 13), (1, 4)), ((11, 14), (3, 4))]):
        for fs in fss:
            for tk in thrs:
                for interp in ('zoom', 'idw'):
                    for edge in ('pad', 'crop'):
                        n += 1
                        if not thorough and (n % 3):
                            continue
                        spec = {'box': list(box), 'p': [10, 50][n % 2], 'fs': fs, 'thr': None, 'sc': SIGCLIP[n % 4],
                                'bkg': BKG[n % len(BKG)], 'rms': RMS[n % len(RMS)], 'interp': interp, 'edge': edge,
                                'fill': -99.5, 'bn': bool(n % 2)}
                        yield (('filt', gi, tuple(fs), tk, interp, edge), spec, shape, 'sources',
                               ['random', 'none'][n % 2], ckinds[n % 3], tk)


def run(ctx):
    rec = Rec(ctx)
    if not bottleneck_available():
        ctx.note('bottleneck is not installed: the "on" mode runs the numpy functions as well')
    nrel = 0
    for tag, spec, shape, sk, mk, ck, tk in configurations(ctx):
        data = scene(sk, shape, ctx.rng)
        data, mask = make_mask(mk, shape, spec['box'], spec['p'], ctx.rng, data)
        cov = make_cov(ck, shape, spec['box'])
        spec = dict(spec)
        spec['thr'] = thr_value(tk, data, mask, cov, spec)
        check_single(rec, spec, data, mask, cov, tag)
        # relational contracts on a rotating subset
        nrel += 1
        rels = [('mask-blind', 11), ('add', 1234.5), ('scale', 3.7), ('constant', 5.5), ('constant', 0.1),
                ('add', -77.0), ('scale', 1e-3), ('constant', -7.25), ('auto-mask', 0), ('constant', 12345.678)]
        chosen = [rels[nrel % len(rels)], rels[(nrel * 3 + 1) % len(rels)]] if not ctx.thorough else rels
        for rel, par in chosen:
            if rel == 'mask-blind' and mask is None and cov is None:
                continue
            if rel == 'auto-mask' and mk != 'nan':
                continue
            check_relation(rec, spec, data, mask, cov, rel, par, tag)


def replay(case):
    rec = Rec(None)
    try:
        data = np.array(case['data'], float)
        mask = None if case['mask'] is None else np.array(case['mask'], bool)
        cov = None if case['cov'] is None else np.array(case['cov'], bool)
        if case['kind'] == 'single':
            check_single(rec, case['spec'], data, mask, cov, 'replay')
        elif case['kind'] == 'relation':
            check_relation(rec, case['spec'], data, mask, cov, case['rel'], case['par'], 'replay')
        else:
            return 'error', f'unknown kind {case["kind"]}', None
    except Exception as exc:  # noqa: BLE001
        return 'error', f'{type(exc).__name__}: {exc}', None
    if rec.fails:
        return 'confirmed', rec.fails[0][1][:600], [f[0] for f in rec.fails]
    return 'spurious', 'all contracts hold on replay', None
