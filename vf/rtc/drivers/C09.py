"""C09 - results never depend on access order or on earlier calls (bounded history enumeration).

For every class named by the property a lattice of constructor configurations is built; on each
configuration every history (ordered sequence of public attribute reads / attribute assignments /
normalize-unnormalize calls / calls with different inputs) up to a stated length is executed on ONE
instance and every value produced along the way is compared with what FRESH objects (built from
freshly generated, identical inputs) give for the same single request.  Any exception raised by a
read/call that a fresh object performs without exception is a failure ("raises because of
history").  Profiles additionally use an arithmetic oracle (raw arrays / product of normalisations).
"""
import itertools

import numpy as np

BOUNDS = (
    "Background2D: 12x12 (box 4, 3x3 mesh, no excluded box; masks none/cov) and 13x11 (box 4, padded, "
    "excluded edge boxes; masks mask/both) float64 images [thorough: both shapes, plus float32 / int32 / "
    "Quantity / NDData / NaN data], exclude_percentile 60, filter_threshold in {None, mid (selective "
    "filter touches one box), low (< min mesh)}, filter_size in {1,3}, BkgZoomInterpolator (full "
    "lattice) / BkgIDWInterpolator (quick: 4 configs; thorough: full), masks in {none, mask, "
    "coverage_mask (fill_value=-1.5), both}. Histories of reads: on the main configs (zoom, mid, "
    "filter 3) all 360 ordered selections of 4 distinct reads out of the 6 core attributes "
    "(background, background_rms, background_mesh, background_rms_mesh, background_median, "
    "background_rms_median) and all 110 ordered pairs of the 11 public data attributes (thorough: all "
    "990 ordered triples); on every other config all 24 orders of the 4 map/mesh attributes (thorough: "
    "the 360 4-selections on zoom configs with mid threshold or filter 3, else 24 + the 120 ordered "
    "triples of core attributes; pairs on all zoom configs). Every prefix is checked, the first read "
    "is repeated at the end, arrays returned earlier are re-checked for later mutation; exact "
    "comparison. Profiles: RadialProfile (5 edges) / CurveOfGrowth (4 radii), 15x15 image, configs "
    "{error+mask+NaN pixel, Quantity data, no error + center method, all-zero data, negative data}; "
    "all words of length <= 3 (main and RadialProfile-Quantity configs; <= 2 elsewhere) [thorough <= 4 "
    "/ <= 3] over {normalize('max'), normalize('sum'), unnormalize, profile, profile_error, "
    "data_profile | calc_ee_at_radius, normalization_value | calc_radius_at_ee}, plus words of length "
    "4 [thorough 5] over {normalize('max'), unnormalize, profile, data_profile | ee} on the main "
    "config, each followed by a read of every public array; values vs raw / product of "
    "normalisations with rtol 1e-12, type / unit vs a fresh object that applies only the mutators. "
    "Apertures: the 6 pixel aperture classes, words of length <= 3 (thorough 4) over {assign each "
    "attribute to an alternative value (positions: 2-row and 1-row arrays; theta: float and Quantity)} "
    "U {bbox, area, shape, isscalar, to_mask exact / center, do_photometry} that end in a read preceded "
    "by an assignment; exact; stored attribute values checked. PSFPhotometry: grouper x "
    "localbkg_estimator (4 configs), requests {xy init, init with group_id+flux, finder, "
    "mask+error+local_bkg, Quantity, no-detection image}; quick: all sequences <= 2 over the 6 requests "
    "+ length 3 over {gid, xy} on the full config, <= 2 over 3 requests on the others; thorough: all <= 2 "
    "and length 3 over 6 (full config) / 4 requests. IterativePSFPhotometry modes new / all, maxiters 2, "
    "sequences <= 2 over 3 requests (thorough: 4 configs, <= 3 over 4). Result tables, fit_info, init / "
    "fit params, finder_results, model and residual images compared with rtol 1e-12; constructor "
    "objects (grouper, localbkg_estimator, finder) must stay bound. Star finders: DAOStarFinder (2 "
    "configs), IRAFStarFinder, StarFinder (float and integer kernel), inputs {image A, image B of "
    "another shape, A with mask, flat image, negated image}; quick: sequences <= 3 over 4 inputs (dao, "
    "sf) and <= 2 over 5 (others); thorough: <= 3 over 5; exact; StarFinder.kernel unchanged. Ellipse: "
    "32x32 galaxy, caller EllipseGeometry and default geometry, variants {plain, fix_center, fix_pa, "
    "fix_eps, linear=True, fit_isophote}; quick: singles + the 20 ordered pairs of distinct fit_image "
    "variants (caller geometry) + 4 pairs (default geometry); thorough: all sequences <= 3; isophote "
    "arrays rtol 1e-12 and geometry fields (x0, y0, sma, eps, pa, astep, linear_growth, fix) "
    "unchanged. GriddedPSFModel: 2x2 grid of 7x7 PSFs (oversampling 1 / 2), steps = {orig, copy(), "
    "deepcopy()} x 5 positions x {set parameters + call, evaluate()}: all sequences <= 2 (+ length 3 "
    "over a 6-step subset; thorough over a 16-step subset); exact; parameters of the original must "
    "not follow evaluations on copies. LocalBackground: 5 position requests (scalar, 1 / 2 / 3-element "
    "arrays, with mask), median and mean estimators, all sequences <= 3; exact vs fresh object and "
    "1e-12 vs a pixel-loop oracle.")
RULE = (
    "Exhaustive enumeration of histories (words over the per-class alphabet of reads/assignments/"
    "calls) up to the stated length on each configuration of the lattice; the only random part is the "
    "pixel noise of the test images (seeded from ctx.rng). A case is one (configuration, history) "
    "pair; it is distinct by that pair and non-trivial when the history has at least two steps (a "
    "one-step history is the reference itself) and, for apertures/profiles, contains a mutator "
    "followed by a read.")

TOL = 1e-12


# ----------------------------------------------------------------------------------------------
# generic structural comparison
# ----------------------------------------------------------------------------------------------
def _short(x):
    s = repr(x)
    s = ' '.join(s.split())
    return s if len(s) <= 90 else s[:87] + '...'


def _cmp_num(a, b, tol, path):
    if a.shape != b.shape:
        return f'{path}: shape {a.shape} vs {b.shape}'
    if a.dtype != b.dtype:
        return f'{path}: dtype {a.dtype} vs {b.dtype}'
    if a.dtype.kind == 'O':
        for i, (x, y) in enumerate(zip(a.ravel(), b.ravel())):
            r = cmp(x, y, tol, f'{path}[{i}]')
            if r:
                return r
        return None
    if a.dtype.kind in 'fc':
        if tol == 0:
            ok = np.array_equal(a, b, equal_nan=True)
        else:
            fa, fb = np.isfinite(a), np.isfinite(b)
            ok = np.array_equal(fa, fb)
            if ok and not np.all(fa):
                with np.errstate(invalid='ignore'):
                    ok = np.array_equal(a[~fa], b[~fa], equal_nan=True)
            if ok and np.any(fa):
                scale = float(np.max(np.abs(b[fb])))
                ok = bool(np.all(np.abs(a[fa] - b[fb]) <= tol * np.abs(b[fb]) + tol * scale))
    else:
        ok = np.array_equal(a, b)
    if ok:
        return None
    return f'{path}: {_short(a.tolist())} vs {_short(b.tolist())}'


def cmp(a, b, tol=0.0, path='value'):
    """Return None when a and b are the same (type, unit, dtype, shape, values), else a message."""
    import astropy.units as u
    from astropy.modeling import Model
    from astropy.table import Table

    from photutils.aperture import ApertureMask, BoundingBox
    if a is None or b is None:
        return None if (a is None and b is None) else f'{path}: {_short(a)} vs {_short(b)}'
    if isinstance(a, Table) or isinstance(b, Table):
        if not (isinstance(a, Table) and isinstance(b, Table)):
            return f'{path}: type {type(a).__name__} vs {type(b).__name__}'
        if a.colnames != b.colnames:
            return f'{path}: colnames {a.colnames} vs {b.colnames}'
        if len(a) != len(b):
            return f'{path}: nrows {len(a)} vs {len(b)}'
        for c in a.colnames:
            r = cmp(_colval(a[c]), _colval(b[c]), tol, f'{path}[{c!r}]')
            if r:
                return r
        return None
    if isinstance(a, u.Quantity) or isinstance(b, u.Quantity):
        if not (isinstance(a, u.Quantity) and isinstance(b, u.Quantity)):
            return f'{path}: type {type(a).__name__} vs {type(b).__name__}'
        if a.unit != b.unit:
            return f'{path}: unit {a.unit} vs {b.unit}'
        return cmp(a.value, b.value, tol, path)
    if isinstance(a, np.ma.MaskedArray) or isinstance(b, np.ma.MaskedArray):
        if not (isinstance(a, np.ma.MaskedArray) and isinstance(b, np.ma.MaskedArray)):
            return f'{path}: type {type(a).__name__} vs {type(b).__name__}'
        r = _cmp_num(np.ma.getmaskarray(a), np.ma.getmaskarray(b), 0, path + '.mask')
        return r or _cmp_num(np.asarray(a.data), np.asarray(b.data), tol, path + '.data')
    if isinstance(a, (str, bytes)) or isinstance(b, (str, bytes)):
        return None if a == b else f'{path}: {_short(a)} vs {_short(b)}'
    if isinstance(a, dict) or isinstance(b, dict):
        if not (isinstance(a, dict) and isinstance(b, dict)):
            return f'{path}: type {type(a).__name__} vs {type(b).__name__}'
        if list(a.keys()) != list(b.keys()):
            return f'{path}: keys {list(a)} vs {list(b)}'
        for k in a:
            r = cmp(a[k], b[k], tol, f'{path}[{k!r}]')
            if r:
                return r
        return None
    if isinstance(a, (list, tuple)) or isinstance(b, (list, tuple)):
        if not (isinstance(a, (list, tuple)) and isinstance(b, (list, tuple))):
            return f'{path}: type {type(a).__name__} vs {type(b).__name__}'
        if len(a) != len(b):
            return f'{path}: len {len(a)} vs {len(b)}'
        for i, (x, y) in enumerate(zip(a, b)):
            r = cmp(x, y, tol, f'{path}[{i}]')
            if r:
                return r
        return None
    if isinstance(a, BoundingBox) or isinstance(b, BoundingBox):
        if not (isinstance(a, BoundingBox) and isinstance(b, BoundingBox)):
            return f'{path}: type {type(a).__name__} vs {type(b).__name__}'
        ta = (a.ixmin, a.ixmax, a.iymin, a.iymax)
        tb = (b.ixmin, b.ixmax, b.iymin, b.iymax)
        return None if ta == tb else f'{path}: bbox {ta} vs {tb}'
    if isinstance(a, ApertureMask) or isinstance(b, ApertureMask):
        if not (isinstance(a, ApertureMask) and isinstance(b, ApertureMask)):
            return f'{path}: type {type(a).__name__} vs {type(b).__name__}'
        return (cmp(a.bbox, b.bbox, tol, path + '.bbox')
                or _cmp_num(np.asarray(a.data), np.asarray(b.data), tol, path + '.data'))
    if isinstance(a, Model) or isinstance(b, Model):
        if type(a) is not type(b):
            return f'{path}: type {type(a).__name__} vs {type(b).__name__}'
        if a.param_names != b.param_names:
            return f'{path}: params {a.param_names} vs {b.param_names}'
        return _cmp_num(np.asarray(a.parameters), np.asarray(b.parameters), tol, path + '.parameters')
    try:
        aa, bb = np.asarray(a), np.asarray(b)
    except Exception:  # noqa: BLE001
        return None if repr(a) == repr(b) else f'{path}: {_short(a)} vs {_short(b)}'
    if aa.dtype.kind == 'O' and aa.ndim == 0:
        return None if repr(a) == repr(b) else f'{path}: {_short(a)} vs {_short(b)}'
    return _cmp_num(aa, bb, tol, path)


def _colval(col):
    import astropy.units as u
    if isinstance(col, u.Quantity):
        return col
    if getattr(col, 'unit', None) is not None:
        return col.quantity
    if hasattr(col, 'mask'):
        return np.ma.asarray(col)
    return np.asarray(col)


def _exc(e):
    return f'{type(e).__name__}: {_short(str(e))}'


_MEMO = {}


def _memo(key, fn):
    if key not in _MEMO:
        _MEMO[key] = fn()
    return _MEMO[key]


def _ck(cfg):
    return tuple(sorted((k, repr(v)) for k, v in cfg.items()))


# ----------------------------------------------------------------------------------------------
# A. Background2D
# ----------------------------------------------------------------------------------------------
BKG_CORE = ['background', 'background_rms', 'background_mesh', 'background_rms_mesh',
            'background_median', 'background_rms_median']
BKG_ALL = BKG_CORE + ['npixels_mesh', 'npixels_map', 'background_mesh_masked',
                      'background_rms_mesh_masked', 'mesh_nmasked']


def _bkg_inputs(cfg, dseed):
    import astropy.units as u
    from astropy.nddata import NDData
    shape = (12, 12) if cfg['shape'] == 'exact' else (13, 11)
    rng = np.random.default_rng(dseed)
    data = rng.normal(5.0, 1.0, shape)
    data += 0.15 * np.arange(shape[1])[None, :]
    data[4:8, 4:8] += 20.0          # one bright box -> the selective filter touches only it
    data[1, 9] += 50.0              # an outlier for the sigma clipping
    dk = cfg.get('dk', 'f8')
    if dk == 'nan':
        data[2, 2] = np.nan
        data[9, 5] = np.inf
    mask = cov = None
    if cfg['masks'] in ('mask', 'both'):
        mask = np.zeros(shape, bool)
        mask[0:4, 0:3] = True       # 75 % of box (0, 0) -> excluded box (NaN in the mesh)
        mask[6, 6] = mask[10, 9] = True
    if cfg['masks'] in ('cov', 'both'):
        cov = np.zeros(shape, bool)
        cov[8:12, 0:4] = True       # a whole box without coverage
        cov[7, 0:2] = True
    if dk == 'f4':
        data = data.astype(np.float32)
    elif dk == 'i4':
        data = np.rint(data * 10).astype(np.int32)
    elif dk == 'qty':
        data = data << u.Jy
    elif dk == 'nddata':
        data = NDData(data, unit=u.adu)
    thr = {'none': None, 'mid': 10.0, 'low': -1000.0}[cfg['thr']]
    if dk == 'i4' and thr == 10.0:
        thr = 100.0
    return data, mask, cov, thr


def _bkg_new(cfg, dseed):
    from photutils.background import Background2D, BkgIDWInterpolator, BkgZoomInterpolator
    data, mask, cov, thr = _bkg_inputs(cfg, dseed)
    interp = BkgZoomInterpolator() if cfg['interp'] == 'zoom' else BkgIDWInterpolator()
    return Background2D(data, (4, 4), mask=mask, coverage_mask=cov, fill_value=-1.5,
                        exclude_percentile=60.0, filter_size=cfg['fs'], filter_threshold=thr,
                        interpolator=interp)


def _bkg_ref(cfg, dseed, name):
    def make():
        try:
            return ('ok', getattr(_bkg_new(cfg, dseed), name))
        except Exception as e:  # noqa: BLE001
            return ('exc', _exc(e))
    return _memo(('bkg', _ck(cfg), dseed, name), make)


_BKG_SRC = {'background': 'background_mesh', 'background_median': 'background_mesh',
            'background_mesh_masked': 'background_mesh', 'background_rms': 'background_rms_mesh',
            'background_rms_median': 'background_rms_mesh',
            'background_rms_mesh_masked': 'background_rms_mesh', 'npixels_map': 'npixels_mesh',
            'mesh_nmasked': 'npixels_mesh'}


def eval_bkg(case):
    """One failure per history: the first read that raises / differs (key = the mesh it derives from)."""
    cfg, seq, dseed = case['cfg'], case['seq'], case['dseed']
    fails = []
    obj = _bkg_new(cfg, dseed)
    got = []
    for i, name in enumerate(list(seq) + [seq[0]]):
        kind, ref = _bkg_ref(cfg, dseed, name)
        try:
            val = getattr(obj, name)
        except Exception as e:  # noqa: BLE001
            if kind != 'exc':       # (a fresh object raising as well is not a history effect)
                fails.append((f'background2d/read-order-raises/{_BKG_SRC.get(name, name)}',
                              f'Background2D({cfg}).{name} after reading {list(seq[:i])} raises {_exc(e)}'))
                return fails
            continue
        if kind == 'exc':
            fails.append((f'background2d/read-order/{_BKG_SRC.get(name, name)}',
                          f'Background2D({cfg}).{name} after reading {list(seq[:i])} returns a value; a fresh '
                          f'object raises {ref}'))
            return fails
        r = cmp(val, ref, 0.0, name)
        if r:
            fails.append((f'background2d/read-order/{_BKG_SRC.get(name, name)}',
                          f'Background2D({cfg}).{name} after reading {list(seq[:i])} differs from a fresh '
                          f'object: {r}'))
            return fails
        got.append((name, val))
    for name, val in got:
        r = cmp(val, _bkg_ref(cfg, dseed, name)[1], 0.0, name)
        if r:
            fails.append((f'background2d/earlier-result-mutated/{_BKG_SRC.get(name, name)}',
                          f'Background2D({cfg}): the array returned by .{name} was changed by later reads '
                          f'{list(seq)}: {r}'))
            break
    return fails


def _bkg_cases(ctx, dseed):
    thorough = ctx.thorough
    cfgs = []
    for thr in ('none', 'mid', 'low'):
        for fs in (1, 3):
            for interp in ('zoom', 'idw'):
                for masks in ('none', 'mask', 'cov', 'both'):
                    if not thorough and interp == 'idw' and (thr == 'low' or fs == 1
                                                             or masks in ('none', 'both')):
                        continue      # quick: IDW (slow full-size maps) only on 4 configurations
                    shape = 'exact' if masks in ('none', 'cov') else 'pad'
                    shapes = ('exact', 'pad') if thorough and interp == 'zoom' else (shape,)
                    for sh in shapes:
                        cfgs.append({'thr': thr, 'fs': fs, 'interp': interp, 'masks': masks,
                                     'shape': sh, 'dk': 'f8'})
    if thorough:
        for dk in ('f4', 'i4', 'qty', 'nddata', 'nan'):
            for thr in ('none', 'mid'):
                for fs in (1, 3):
                    cfgs.append({'thr': thr, 'fs': fs, 'interp': 'zoom', 'masks': 'both', 'shape': 'pad',
                                 'dk': dk})
    else:
        for dk in ('i4', 'qty', 'nan'):
            cfgs.append({'thr': 'mid', 'fs': 3, 'interp': 'zoom', 'masks': 'both', 'shape': 'pad',
                         'dk': dk})
    perm4 = list(itertools.permutations(BKG_CORE, 4))
    perm4_maps = list(itertools.permutations(BKG_CORE[:4], 4))
    perm3 = list(itertools.permutations(BKG_CORE, 3))
    pairs = list(itertools.permutations(BKG_ALL, 2))
    triples = list(itertools.permutations(BKG_ALL, 3))
    for cfg in cfgs:
        zoom, f8 = cfg['interp'] == 'zoom', cfg['dk'] == 'f8'
        main = zoom and f8 and cfg['thr'] == 'mid' and cfg['fs'] == 3
        if thorough:
            if zoom and (cfg['thr'] == 'mid' or (f8 and cfg['fs'] == 3)):
                seqs = list(perm4)
            else:
                seqs = perm4_maps + perm3
            if main and cfg['shape'] == 'pad':
                seqs += triples
            elif zoom:
                seqs += pairs
        else:
            main = main and cfg['masks'] in ('none', 'both')
            seqs = perm4 + pairs if main else list(perm4_maps)
        for seq in seqs:
            yield {'sec': 'bkg', 'cfg': cfg, 'seq': list(seq), 'dseed': dseed}


# ----------------------------------------------------------------------------------------------
# B. profiles
# ----------------------------------------------------------------------------------------------
PROF_MUT = ['Nmax', 'Nsum', 'U']


def _prof_alphabet(kind):
    if kind == 'rp':
        return PROF_MUT + ['profile', 'profile_error', 'data_profile', 'normalization_value']
    return PROF_MUT + ['profile', 'profile_error', 'ee', 'ree']


def _prof_reads(kind):
    if kind == 'rp':
        return ['profile', 'profile_error', 'data_profile', 'normalization_value', 'radius', 'area',
                'data_radius']
    return ['profile', 'profile_error', 'normalization_value', 'radius', 'area', 'ee', 'ree']


EE_R = [1.0, 2.2, 4.0, 5.5, 7.0]
REE_E = [0.05, 0.3, 0.5, 0.9, 2.0]


def _prof_new(cfg, dseed):
    import astropy.units as u

    from photutils.profiles import CurveOfGrowth, RadialProfile
    rng = np.random.default_rng(dseed + 17)
    yy, xx = np.mgrid[0:15, 0:15]
    amp = {'pos': 0.12, 'zero': 0.0, 'neg': -0.12}[cfg.get('amp', 'pos')]
    data = amp * np.exp(-((xx - 7.2) ** 2 + (yy - 6.9) ** 2) / 9.0)
    if amp != 0.0:
        data = data + amp * 0.01 * rng.normal(0, 1, data.shape) ** 2
    error = mask = None
    if cfg['err']:
        error = 0.02 + 0.01 * rng.random(data.shape)
    if cfg['mask']:
        mask = np.zeros(data.shape, bool)
        mask[6, 9] = mask[3, 3] = True
        if cfg['kind'] == 'rp':
            # mask the whole innermost bin -> NaN in the profile (nanmax/nansum branches)
            mask[np.hypot(xx - 7.2, yy - 6.9) < 1.9] = True
    if cfg['nan']:
        data = data.copy()
        data[8, 5] = np.nan
    if cfg['unit']:
        data = data << u.Jy
        if error is not None:
            error = error << u.Jy
    if cfg['kind'] == 'rp':
        return RadialProfile(data, (7.2, 6.9), [0.0, 1.5, 3.0, 4.5, 6.0], error=error, mask=mask,
                             method=cfg['method'])
    return CurveOfGrowth(data, (7.2, 6.9), [1.5, 3.0, 4.5, 6.0], error=error, mask=mask,
                         method=cfg['method'])


def _prof_do(obj, tok):
    if tok == 'Nmax':
        return obj.normalize('max')
    if tok == 'Nsum':
        return obj.normalize('sum')
    if tok == 'U':
        return obj.unnormalize()
    if tok == 'ee':
        return obj.calc_ee_at_radius(np.array(EE_R))
    if tok == 'ree':
        return obj.calc_radius_at_ee(np.array(REE_E))
    return getattr(obj, tok)


def _val(x):
    return np.asarray(getattr(x, 'value', x), dtype=float)


def _prof_raw(cfg, dseed):
    def make():
        o = _prof_new(cfg, dseed)
        raw = {'profile': _val(o.profile), 'profile_error': _val(o.profile_error),
               'radius': _val(o.radius), 'area': _val(o.area)}
        if cfg['kind'] == 'rp':
            raw['data_profile'] = _val(o.data_profile)
            raw['data_radius'] = _val(o.data_radius)
        return raw
    return _memo(('prof-raw', _ck(cfg), dseed), make)


def _prof_typeref(cfg, dseed, muts, tok):
    """What a fresh object that applies only the mutators `muts` returns for the read `tok`."""
    def make():
        o = _prof_new(cfg, dseed)
        for m in muts:
            _prof_do(o, m)
        try:
            return ('ok', _prof_do(o, tok))
        except Exception as e:  # noqa: BLE001
            return ('exc', _exc(e))
    return _memo(('prof-tr', _ck(cfg), dseed, tuple(muts), tok), make)


def _pchip(x, y, at):
    from scipy.interpolate import PchipInterpolator
    return PchipInterpolator(x, y, extrapolate=False)(at)


def _prof_expected(cfg, raw, state, tok):
    nv = state['nv']
    if tok in ('radius', 'area', 'data_radius'):
        return raw[tok]
    if tok == 'normalization_value':
        return np.asarray(nv)
    if tok in ('profile', 'profile_error', 'data_profile'):
        return raw[tok] / nv
    prof = raw['profile'] / nv
    if tok == 'ee':
        return _pchip(raw['radius'], prof, np.array(EE_R))
    if tok == 'ree':
        # maximal strictly increasing prefix of the curve of growth (property C19 statement)
        n = 1
        while n < len(prof) and prof[n] > prof[n - 1]:
            n += 1
        if n < 2:
            return None
        return _pchip(prof[:n], raw['radius'][:n], np.array(REE_E))
    raise KeyError(tok)


def eval_prof(case):
    cfg, seq, dseed = case['cfg'], case['seq'], case['dseed']
    kind = cfg['kind']
    cls = 'RadialProfile' if kind == 'rp' else 'CurveOfGrowth'
    raw = _prof_raw(cfg, dseed)
    fails = []
    obj = _prof_new(cfg, dseed)
    state = {'nv': 1.0}
    muts = []
    steps = list(seq) + _prof_reads(kind)
    for i, tok in enumerate(steps):
        hist = steps[:i]
        if tok in PROF_MUT:
            try:
                _prof_do(obj, tok)
            except Exception as e:  # noqa: BLE001
                fails.append((f'profile/{cls}/mutator-raises',
                              f'{cls}({cfg}) {tok} after {hist} raises {_exc(e)}'))
                return fails
            muts.append(tok)
            if tok == 'U':
                state['nv'] = 1.0
            else:
                cur = raw['profile'] / state['nv']
                v = np.nanmax(cur) if tok == 'Nmax' else np.nansum(cur)
                if v != 0:
                    state['nv'] = state['nv'] * v
            continue
        kind_ref, tref = _prof_typeref(cfg, dseed, muts, tok)
        try:
            val = _prof_do(obj, tok)
        except Exception as e:  # noqa: BLE001
            if kind_ref == 'exc':
                continue          # a fresh object raises for this request as well: not history
            fails.append((f'profile/{cls}/read-raises/{tok}',
                          f'{cls}({cfg}).{tok} after {hist} raises {_exc(e)}'))
            continue
        if kind_ref == 'exc':
            fails.append((f'profile/{cls}/history/{tok}',
                          f'{cls}({cfg}).{tok} after {hist} returns a value; a fresh object with the same '
                          f'mutators raises {tref}'))
            continue
        exp = _prof_expected(cfg, raw, state, tok)
        if exp is not None:
            r = _cmp_num(_val(val), np.asarray(exp, dtype=float), TOL, tok)
            if r:
                fails.append((f'profile/{cls}/history/{tok}',
                              f'{cls}({cfg}).{tok} after {hist} != raw/normalisation ({state["nv"]!r}): {r}'))
                continue
        r = cmp(val, tref, TOL, tok)
        if r:
            same_values = _cmp_num(_val(val), _val(tref), TOL, tok) is None
            what = 'unit-history' if same_values else 'history'
            fails.append((f'profile/{cls}/{what}/{tok}',
                          f'{cls}({cfg}).{tok} after {hist} differs from a fresh object that applied only '
                          f'{muts}: {r}'))
    return fails


def _prof_cases(ctx, dseed):
    base = {'err': True, 'mask': True, 'nan': True, 'unit': False, 'method': 'exact', 'amp': 'pos'}
    t = ctx.thorough
    cfgs = []        # (configuration, full-alphabet word length, reduced-alphabet word length)
    for kind in ('rp', 'cog'):
        cfgs.append((dict(base, kind=kind), 4 if t else 3, 5 if t else (4 if kind == 'rp' else 0)))
        cfgs.append((dict(base, kind=kind, unit=True, mask=False), 4 if t else (3 if kind == 'rp' else 2), 0))
        cfgs.append((dict(base, kind=kind, err=False, mask=False, nan=False, method='center'),
                     3 if t else 2, 0))
        cfgs.append((dict(base, kind=kind, amp='zero', nan=False, mask=False), 3 if t else 2, 0))
        cfgs.append((dict(base, kind=kind, amp='neg', nan=False), 3 if t else 2, 0))
    for cfg, length, rlength in cfgs:
        alpha = _prof_alphabet(cfg['kind'])
        for ln in range(1, length + 1):
            for seq in itertools.product(alpha, repeat=ln):
                yield {'sec': 'prof', 'cfg': cfg, 'seq': list(seq), 'dseed': dseed}
        reduced = ['Nmax', 'U', 'profile', alpha[5]]
        for ln in range(length + 1, rlength + 1):
            for seq in itertools.product(reduced, repeat=ln):
                yield {'sec': 'prof', 'cfg': cfg, 'seq': list(seq), 'dseed': dseed}


# ----------------------------------------------------------------------------------------------
# C. apertures
# ----------------------------------------------------------------------------------------------
P0 = [7.3, 8.6]
P1 = [[7.3, 8.6], [12.1, 5.4]]
P2 = [[3.0, 4.5]]
APER = {
    'CircularAperture': ({'r': 3.2}, {'r': [4.5]}),
    'CircularAnnulus': ({'r_in': 2.0, 'r_out': 5.0}, {'r_in': [3.25], 'r_out': [6.5]}),
    'EllipticalAperture': ({'a': 4.0, 'b': 2.5, 'theta': 0.4},
                           {'a': [5.5], 'b': [1.5], 'theta': [1.3, 'deg:25']}),
    'EllipticalAnnulus': ({'a_in': 2.0, 'a_out': 5.0, 'b_out': 3.0, 'b_in': 1.2, 'theta': 0.4},
                          {'a_in': [3.0], 'a_out': [6.0], 'b_out': [4.0], 'b_in': [1.0],
                           'theta': ['deg:25']}),
    'RectangularAperture': ({'w': 5.0, 'h': 3.0, 'theta': 0.4},
                            {'w': [6.5], 'h': [2.0], 'theta': [1.3, 'deg:25']}),
    'RectangularAnnulus': ({'w_in': 2.0, 'w_out': 6.0, 'h_out': 4.0, 'h_in': 1.5, 'theta': 0.4},
                           {'w_in': [3.0], 'w_out': [7.0], 'h_out': [5.0], 'h_in': [1.0],
                            'theta': ['deg:25']}),
}
APER_READS = ['bbox', 'area', 'shape', 'isscalar', 'mask_exact', 'mask_center', 'phot']


def _aval(v):
    import astropy.units as u
    if isinstance(v, str) and v.startswith('deg:'):
        return float(v[4:]) * u.deg
    return v


def _aper_image():
    yy, xx = np.mgrid[0:20, 0:22]
    return np.cos(0.37 * xx) + 0.05 * yy * xx + 1.0


def _aper_new(cls, pos, params):
    import photutils.aperture as pa
    return getattr(pa, cls)(pos, **{k: _aval(v) for k, v in params.items()})


def _aper_read(ap, name):
    if name == 'mask_exact':
        return ap.to_mask(method='exact')
    if name == 'mask_center':
        return ap.to_mask(method='center')
    if name == 'phot':
        return ap.do_photometry(_aper_image(), method='exact')
    if name == 'area':
        return np.float64(ap.area)
    return getattr(ap, name)


def _aper_ref(cls, pos, params, name):
    def make():
        return _aper_read(_aper_new(cls, pos, params), name)
    return _memo(('aper', cls, repr(pos), _ck(params), name), make)


def eval_aper(case):
    cls, seq = case['cls'], case['seq']
    params = dict(APER[cls][0])
    pos = P0
    fails = []
    ap = _aper_new(cls, pos, params)
    for i, op in enumerate(seq):
        hist = seq[:i]
        if op[0] == 'set':
            _, attr, v = op
            try:
                setattr(ap, attr, _aval(v) if attr != 'positions' else np.array(v))
            except Exception as e:  # noqa: BLE001
                fails.append((f'aperture/{cls}/assign-raises',
                              f'{cls}: {attr} = {v} after {hist} raises {_exc(e)}'))
                return fails
            if attr == 'positions':
                pos = v
            else:
                params[attr] = v
            continue
        name = op[1]
        ref = _aper_ref(cls, pos, params, name)
        try:
            val = _aper_read(ap, name)
        except Exception as e:  # noqa: BLE001
            fails.append((f'aperture/{cls}/read-raises/{name}',
                          f'{cls}.{name} after {hist} raises {_exc(e)}'))
            continue
        r = cmp(val, ref, 0.0, name)
        if r:
            fails.append((f'aperture/{cls}/stale-after-assign/{name}',
                          f'{cls}.{name} after {hist} differs from a fresh {cls}(positions={pos}, '
                          f'{params}): {r}'))
    # the stored attributes themselves
    import astropy.units as u
    for k, v in params.items():
        exp = _aval(v)
        if k == 'theta' and not isinstance(exp, u.Quantity):
            exp = float(exp) * u.rad      # documented: a float theta is stored as radians
        r = cmp(getattr(ap, k), exp, 0.0, k)
        if r:
            fails.append((f'aperture/{cls}/attribute-value/{k}', f'{cls} after {seq}: {r}'))
    r = cmp(ap.positions, np.array(pos, dtype=float), 0.0, 'positions')
    if r:
        fails.append((f'aperture/{cls}/attribute-value/positions', f'{cls} after {seq}: {r}'))
    return fails


def _aper_cases(ctx):
    maxlen = 4 if ctx.thorough else 3
    for cls, (_, alts) in APER.items():
        ops = [['set', 'positions', P1], ['set', 'positions', P2]]
        for attr, vals in alts.items():
            for v in vals:
                ops.append(['set', attr, v])
        ops += [['get', n] for n in APER_READS]
        for ln in range(2, maxlen + 1):
            for seq in itertools.product(ops, repeat=ln):
                if seq[-1][0] != 'get':
                    continue
                if not any(o[0] == 'set' for o in seq[:-1]):
                    continue
                yield {'sec': 'aper', 'cls': cls, 'seq': [list(o) for o in seq]}


# ----------------------------------------------------------------------------------------------
# D. PSFPhotometry / IterativePSFPhotometry
# ----------------------------------------------------------------------------------------------
def _psf_image(which, dseed):
    return _memo(('psf-img', which, dseed), lambda: _psf_image_make(which, dseed)).copy()


def _psf_image_make(which, dseed):
    from photutils.psf import CircularGaussianPRF
    if which == 'A':
        shape, srcs = (21, 25), [(6.3, 7.1, 90.0), (17.6, 14.2, 120.0), (9.4, 8.3, 60.0)]
    elif which == 'B':
        shape, srcs = (24, 19), [(5.2, 16.4, 150.0), (12.7, 6.1, 80.0)]
    else:
        shape, srcs = (18, 18), []
    yy, xx = np.mgrid[0:shape[0], 0:shape[1]]
    img = np.zeros(shape)
    for x, y, f in srcs:
        img += CircularGaussianPRF(flux=f, x_0=x, y_0=y, fwhm=2.5)(xx, yy)
    rng = np.random.default_rng(dseed + {'A': 1, 'B': 2, 'C': 3}[which])
    img += rng.normal(0, 0.05, shape) + 0.3
    return img


def _psf_request(name, dseed):
    import astropy.units as u
    from astropy.table import QTable, Table
    A = _psf_image('A', dseed)
    if name == 'xy':
        return {'data': A, 'init_params': Table({'x': [6.0, 18.0, 9.0], 'y': [7.0, 14.0, 8.0]})}
    if name == 'gid':
        return {'data': A, 'init_params': Table({'x_init': [6.0, 18.0, 9.0], 'y_init': [7.0, 14.0, 8.0],
                                                 'flux_init': [80.0, 100.0, 50.0],
                                                 'group_id': [2, 1, 2]})}
    if name == 'finder':
        return {'data': _psf_image('B', dseed), 'init_params': None}
    if name == 'mask':
        mask = np.zeros(A.shape, bool)
        mask[7, 6] = mask[13, 17] = mask[2, 2] = True
        err = np.full(A.shape, 0.05) + 0.01 * np.sqrt(np.abs(A))
        return {'data': A, 'mask': mask, 'error': err,
                'init_params': Table({'x': [6.0, 18.0], 'y': [7.0, 14.0], 'local_bkg': [0.3, 0.25]})}
    if name == 'qty':
        t = QTable()
        t['x'] = [6.0, 18.0, 9.0]
        t['y'] = [7.0, 14.0, 8.0]
        t['flux'] = [80.0, 100.0, 50.0] * u.Jy
        return {'data': A << u.Jy, 'error': np.full(A.shape, 0.05) << u.Jy, 'init_params': t}
    if name == 'empty':
        return {'data': _psf_image('C', dseed), 'init_params': None}
    raise KeyError(name)


def _psf_new(cfg):
    from photutils.background import LocalBackground
    from photutils.detection import DAOStarFinder
    from photutils.psf import (CircularGaussianPRF, IterativePSFPhotometry, PSFPhotometry,
                               SourceGrouper)
    model = CircularGaussianPRF(flux=1.0, fwhm=2.5)
    finder = DAOStarFinder(2.0, 2.5)
    grouper = SourceGrouper(6.0) if cfg['grouper'] else None
    lbkg = LocalBackground(4.0, 7.0) if cfg['lbkg'] else None
    if cfg.get('iter'):
        obj = IterativePSFPhotometry(model, (5, 5), finder, grouper=grouper, localbkg_estimator=lbkg,
                                     aperture_radius=3.0, maxiters=2, mode=cfg['iter'])
    else:
        obj = PSFPhotometry(model, (5, 5), finder=finder, grouper=grouper, localbkg_estimator=lbkg,
                            aperture_radius=3.0)
    return obj, {'grouper': grouper, 'lbkg': lbkg, 'finder': finder, 'model': model}


def _psf_observe(obj, res, req, cfg):
    """Everything observable after a call, as a dict of comparable values."""
    out = {'result': res}
    shape = np.shape(req['data'])
    if cfg.get('iter'):
        out['n_fit_results'] = len(obj.fit_results)
        for i, fr in enumerate(obj.fit_results):
            out[f'fit_results[{i}].results'] = fr.results
            out[f'fit_results[{i}].init_params'] = fr.init_params
            out[f'fit_results[{i}].finder_results'] = fr.finder_results
        inner = obj._psfphot  # noqa: SLF001  (only identity of the configuration is read)
    else:
        out['results'] = obj.results
        out['init_params'] = obj.init_params
        out['fit_params'] = obj.fit_params
        out['finder_results'] = obj.finder_results
        out['data_unit'] = None if obj.data_unit is None else str(obj.data_unit)
        fi = dict(obj.fit_info)
        out['fit_info'] = {k: fi[k] for k in sorted(fi)}
        inner = obj
    out['cfg.grouper'] = inner.grouper is not None
    out['cfg.localbkg'] = inner.localbkg_estimator is not None
    out['cfg.fit_shape'] = tuple(int(v) for v in inner.fit_shape)
    out['cfg.aperture_radius'] = inner.aperture_radius
    if res is not None:
        for nm, fn in (('model_image', lambda: obj.make_model_image(shape, psf_shape=(7, 7))),
                       ('model_image_bkg', lambda: obj.make_model_image(shape, psf_shape=(7, 7),
                                                                        include_localbkg=True)),
                       ('residual_image', lambda: obj.make_residual_image(req['data'],
                                                                          psf_shape=(7, 7)))):
            try:
                out[nm] = fn()
            except Exception as e:  # noqa: BLE001
                out[nm] = 'EXC ' + _exc(e)
    return out


def _psf_call(obj, req):
    kw = {k: req[k] for k in ('mask', 'error', 'init_params') if k in req}
    return obj(req['data'], **kw)


def _psf_ref(cfg, dseed, name):
    def make():
        obj, _ = _psf_new(cfg)
        req = _psf_request(name, dseed)
        try:
            res = _psf_call(obj, req)
        except Exception as e:  # noqa: BLE001
            return ('exc', _exc(e))
        return ('ok', _psf_observe(obj, res, req, cfg))
    return _memo(('psf', _ck(cfg), dseed, name), make)


def eval_psf(case):
    cfg, seq, dseed = case['cfg'], case['seq'], case['dseed']
    cls = 'IterativePSFPhotometry' if cfg.get('iter') else 'PSFPhotometry'
    fails = []
    obj, held = _psf_new(cfg)
    for i, name in enumerate(seq):
        hist = seq[:i]
        kind, ref = _psf_ref(cfg, dseed, name)
        req = _psf_request(name, dseed)
        try:
            res = _psf_call(obj, req)
        except Exception as e:  # noqa: BLE001
            if kind == 'exc':
                continue
            fails.append((f'{cls}/call-raises-after-history',
                          f'{cls}({cfg}) call {name!r} after {hist} raises {_exc(e)}; a fresh object does not'))
            continue
        if kind == 'exc':
            fails.append((f'{cls}/call-history/result',
                          f'{cls}({cfg}) call {name!r} after {hist} returns; a fresh object raises {ref}'))
            continue
        inner = obj._psfphot if cfg.get('iter') else obj  # noqa: SLF001
        if inner.grouper is not held['grouper'] or inner.localbkg_estimator is not held['lbkg'] \
                or inner.finder is not held['finder']:
            fails.append((f'{cls}/configuration-rebound',
                          f'{cls}({cfg}) after calls {seq[:i + 1]}: grouper/localbkg_estimator/finder attribute '
                          'no longer the constructor argument'))
            return fails
        obs = _psf_observe(obj, res, req, cfg)
        for k in ref:
            r = cmp(obs.get(k), ref[k], TOL, k)
            if r:
                kk = k.split('[')[0]
                fails.append((f'{cls}/call-history/{kk}',
                              f'{cls}({cfg}) call {name!r} after {hist}: {k} differs from a fresh object: {r}'))
                return fails      # one failure per history: the first differing observable
    return fails


def _psf_cases(ctx, dseed):
    reqs = ['xy', 'gid', 'finder', 'mask', 'qty', 'empty']
    cfgs = [{'grouper': g, 'lbkg': b} for g in (True, False) for b in (True, False)]
    for cfg in cfgs:
        full = cfg['grouper'] and cfg['lbkg']
        if ctx.thorough:
            seqs = [(a,) for a in reqs] + list(itertools.product(reqs, repeat=2))
            seqs += list(itertools.product(reqs if full else ['xy', 'gid', 'finder', 'empty'], repeat=3))
        elif full:
            seqs = [(a,) for a in reqs] + list(itertools.product(reqs, repeat=2))
            seqs += list(itertools.product(['gid', 'xy'], repeat=3))
        else:
            sub = ['xy', 'gid', 'finder']
            seqs = [(a,) for a in sub] + list(itertools.product(sub, repeat=2))
        for seq in seqs:
            yield {'sec': 'psf', 'cfg': cfg, 'seq': list(seq), 'dseed': dseed}
    icfgs = [{'grouper': False, 'lbkg': False, 'iter': 'new'}, {'grouper': True, 'lbkg': True, 'iter': 'all'}]
    if ctx.thorough:
        icfgs += [{'grouper': True, 'lbkg': False, 'iter': 'new'}, {'grouper': True, 'lbkg': False, 'iter': 'all'}]
    ireqs = ['gid', 'finder', 'empty', 'mask'] if ctx.thorough else ['gid', 'finder', 'empty']
    for cfg in icfgs:
        seqs = [(a,) for a in ireqs] + list(itertools.product(ireqs, repeat=2))
        if ctx.thorough:
            seqs += list(itertools.product(ireqs, repeat=3))
        for seq in seqs:
            yield {'sec': 'psf', 'cfg': cfg, 'seq': list(seq), 'dseed': dseed}


# ----------------------------------------------------------------------------------------------
# E. star finders
# ----------------------------------------------------------------------------------------------
FINDER_REQS = ['A', 'B', 'Amask', 'flat', 'neg']


def _finder_request(name, dseed):
    if name in ('A', 'Amask', 'neg'):
        img = _psf_image('A', dseed) - 0.3
        if name == 'neg':
            return {'data': -img}
        if name == 'Amask':
            mask = np.zeros(img.shape, bool)
            mask[5:10, 4:9] = True
            return {'data': img, 'mask': mask}
        return {'data': img}
    if name == 'B':
        return {'data': _psf_image('B', dseed) - 0.3}
    return {'data': np.full((16, 17), 0.25)}


def _finder_new(cfg):
    from photutils.detection import DAOStarFinder, IRAFStarFinder, StarFinder
    from photutils.psf import CircularGaussianPRF
    k = cfg['kind']
    if k == 'dao':
        return DAOStarFinder(1.5, 2.5)
    if k == 'dao2':
        return DAOStarFinder(1.5, 2.5, brightest=2, exclude_border=True, min_separation=3.0,
                             xycoords=np.array([[6.0, 7.0], [18.0, 14.0], [5.0, 16.0]]))
    if k == 'iraf':
        return IRAFStarFinder(1.5, 2.5, brightest=2)
    yy, xx = np.mgrid[-3:4, -3:4]
    kern = CircularGaussianPRF(flux=1.0, fwhm=2.5)(xx, yy)
    if k == 'sf_int':
        kern = np.rint(kern * 100).astype(int)
    return StarFinder(1.5, kern, min_separation=3.0)


def _finder_ref(cfg, dseed, name):
    def make():
        f = _finder_new(cfg)
        req = _finder_request(name, dseed)
        try:
            return ('ok', f(req['data'], mask=req.get('mask')))
        except Exception as e:  # noqa: BLE001
            return ('exc', _exc(e))
    return _memo(('finder', _ck(cfg), dseed, name), make)


def eval_finder(case):
    cfg, seq, dseed = case['cfg'], case['seq'], case['dseed']
    f = _finder_new(cfg)
    cls = type(f).__name__
    fails = []
    kern0 = None
    if cfg['kind'].startswith('sf'):
        kern0 = (f.kernel, f.kernel.copy())
    for i, name in enumerate(seq):
        hist = seq[:i]
        kind, ref = _finder_ref(cfg, dseed, name)
        req = _finder_request(name, dseed)
        try:
            res = f(req['data'], mask=req.get('mask')) if i % 2 == 0 \
                else f.find_stars(req['data'], mask=req.get('mask'))
        except Exception as e:  # noqa: BLE001
            if kind != 'exc':
                fails.append((f'{cls}/call-raises-after-history',
                              f'{cls}({cfg}) call {name!r} after {hist} raises {_exc(e)}'))
            continue
        if kind == 'exc':
            fails.append((f'{cls}/call-history', f'{cls}({cfg}) call {name!r} after {hist} returns; fresh raises {ref}'))
            continue
        r = cmp(res, ref, 0.0, 'table')
        if r:
            fails.append((f'{cls}/call-history',
                          f'{cls}({cfg}) call {name!r} after {hist} differs from a fresh finder: {r}'))
    if kern0 is not None:
        r = None if f.kernel is kern0[0] else 'kernel attribute rebound'
        r = r or cmp(f.kernel, kern0[1], 0.0, 'kernel')
        if r:
            fails.append((f'{cls}/kernel-changed', f'{cls}({cfg}) after calls {seq}: {r}'))
    return fails


def _finder_cases(ctx, dseed):
    kinds = ['dao', 'sf', 'dao2', 'iraf', 'sf_int']
    for k in kinds:
        if ctx.thorough:
            reqs, lens = FINDER_REQS, (1, 2, 3)
        elif k in ('dao', 'sf'):
            reqs, lens = FINDER_REQS[:4], (1, 2, 3)
        else:
            reqs, lens = FINDER_REQS, (1, 2)
        for ln in lens:
            for seq in itertools.product(reqs, repeat=ln):
                yield {'sec': 'finder', 'cfg': {'kind': k}, 'seq': list(seq), 'dseed': dseed}


# ----------------------------------------------------------------------------------------------
# F. Ellipse
# ----------------------------------------------------------------------------------------------
ELL_VARIANTS = {
    'plain': {},
    'fix_center': {'fix_center': True},
    'fix_pa': {'fix_pa': True},
    'fix_eps': {'fix_eps': True},
    'linear': {'linear': True},
    'iso': None,            # fit_isophote(5.0)
    'sma0-7': {'_sma0': 7.0},       # an explicit start sma that differs from the geometry's
    'no-sma0': {'_sma0': None},     # start from the geometry's own sma
}
ELL_COLS = ['sma', 'intens', 'eps', 'pa', 'x0', 'y0', 'grad', 'stop_code', 'niter', 'ndata']


def _ell_image(dseed):
    def make():
        yy, xx = np.mgrid[0:32, 0:32]
        th = 0.6
        xr = (xx - 16.0) * np.cos(th) + (yy - 15.5) * np.sin(th)
        yr = -(xx - 16.0) * np.sin(th) + (yy - 15.5) * np.cos(th)
        g = 100.0 * np.exp(-np.sqrt(xr ** 2 + (yr / 0.7) ** 2) / 5.0)
        return g + np.random.default_rng(dseed + 5).normal(0, 0.3, g.shape)
    return _memo(('ell-img', dseed), make).copy()


def _ell_new(cfg, dseed):
    from photutils.isophote import Ellipse, EllipseGeometry
    img = _ell_image(dseed)
    if cfg['geom'] == 'caller':
        geo = EllipseGeometry(16.3, 15.2, 5.0, 0.25, 0.7)
        return Ellipse(img, geo), geo
    e = Ellipse(img)
    return e, None


def _ell_call(e, variant):
    kw = ELL_VARIANTS[variant]
    if kw is None:
        iso = e.fit_isophote(5.0)
        return {c: np.asarray(getattr(iso, c)) for c in ELL_COLS}
    kw = dict(kw)
    sma0 = kw.pop('_sma0', 5.0)
    il = e.fit_image(sma0=sma0, minsma=2.5, maxsma=8.0, step=1.0, **kw)
    return {c: np.asarray(getattr(il, c)) for c in ELL_COLS}


def _geo_snap(geo):
    return {'x0': geo.x0, 'y0': geo.y0, 'sma': geo.sma, 'eps': geo.eps, 'pa': geo.pa,
            'astep': geo.astep, 'linear_growth': bool(geo.linear_growth),
            'fix': [bool(v) for v in geo.fix]}


def _ell_ref(cfg, dseed, variant):
    def make():
        e, _ = _ell_new(cfg, dseed)
        try:
            return ('ok', _ell_call(e, variant))
        except Exception as ex:  # noqa: BLE001
            return ('exc', _exc(ex))
    return _memo(('ell', _ck(cfg), dseed, variant), make)


def eval_ell(case):
    cfg, seq, dseed = case['cfg'], case['seq'], case['dseed']
    fails = []
    e, geo = _ell_new(cfg, dseed)
    g = geo if geo is not None else e._geometry  # noqa: SLF001 (default geometry: no public handle)
    snap0 = _geo_snap(g)
    for i, variant in enumerate(seq):
        hist = seq[:i]
        kind, ref = _ell_ref(cfg, dseed, variant)
        try:
            res = _ell_call(e, variant)
        except Exception as ex:  # noqa: BLE001
            if kind != 'exc':
                fails.append(('ellipse/call-raises-after-history',
                              f'Ellipse({cfg}) {variant} after {hist} raises {_exc(ex)}'))
            continue
        snap = _geo_snap(g)
        leaked = [k for k in snap0 if snap[k] != snap0[k]]
        if leaked:
            # F22 is the leak of the fix flags / linear_growth; any other field has its own key
            other = sorted(k for k in leaked if k not in ('fix', 'linear_growth'))
            fails.append(('ellipse/fit_image-config-leak' if not other
                          else 'ellipse/geometry-changed-by-a-call/' + '+'.join(other),
                          f'Ellipse({cfg}) after {seq[:i + 1]}: geometry fields {leaked} changed '
                          f'({ {k: snap0[k] for k in leaked} } -> { {k: snap[k] for k in leaked} })'))
        r = None if kind == 'exc' else cmp(res, ref, TOL, 'isophotes')
        if kind == 'exc' or r:
            # a mismatch while the configuration carries leaked flags is the same defect (F22)
            snap_before_leak = any(snap[k] != snap0[k] for k in ('fix', 'linear_growth'))
            key = 'ellipse/fit_image-config-leak' if snap_before_leak else 'ellipse/call-history'
            fails.append((key, f'Ellipse({cfg}) {variant} after {hist} differs from a fresh Ellipse: {r or ref}'))
    return fails


def _ell_cases(ctx, dseed):
    var = ['plain', 'fix_center', 'fix_pa', 'fix_eps', 'linear']
    for geom in ('caller', 'default'):
        cfg = {'geom': geom}
        seqs = [(v,) for v in var]
        if ctx.thorough:
            seqs += list(itertools.product(var, repeat=2)) + list(itertools.product(var, repeat=3))
            seqs += [(v, 'iso') for v in var] + [('iso', v) for v in var]
        elif geom == 'caller':
            seqs += list(itertools.permutations(var, 2)) + [(v, 'iso') for v in ('plain', 'fix_center')]
            seqs += [('sma0-7', 'no-sma0'), ('no-sma0', 'sma0-7', 'no-sma0'), ('sma0-7', 'iso')]
        else:
            seqs += [('fix_center', 'plain'), ('linear', 'plain'), ('plain', 'fix_eps'), ('fix_pa', 'iso'),
                     ('sma0-7', 'no-sma0')]
        for seq in seqs:
            yield {'sec': 'ell', 'cfg': cfg, 'seq': list(seq), 'dseed': dseed}


# ----------------------------------------------------------------------------------------------
# G. GriddedPSFModel
# ----------------------------------------------------------------------------------------------
GRID_POS = [[5.0, 5.0, 3.0], [15.5, 4.25, 1.0], [10.0, 18.0, 2.5], [27.0, 26.0, 1.5], [0.0, 20.0, 1.0]]


def _grid_new(cfg):
    from astropy.nddata import NDData

    from photutils.psf import GriddedPSFModel
    yy, xx = np.mgrid[0:7, 0:7]
    psfs = []
    xy = []
    for j, y in enumerate(cfg.get('ys', (0.0, 20.0))):
        for i, x in enumerate(cfg.get('xs', (0.0, 20.0))):
            s = 1.0 + 0.3 * i + 0.5 * j
            p = np.exp(-((xx - 3) ** 2 / (2 * s ** 2) + (yy - 3) ** 2 / (2 * (s * 0.8) ** 2)))
            psfs.append(p / p.sum())
            xy.append((x, y))
    # unsorted order on purpose (the model sorts the grid)
    order = [2, 0, 3, 1] if len(xy) == 4 else list(np.random.default_rng(5).permutation(len(xy)))
    nd = NDData(np.array(psfs)[order], meta={'grid_xypos': [xy[k] for k in order],
                                            'oversampling': cfg['os']})
    return GriddedPSFModel(nd, fill_value=0.0 if cfg['fill'] else None)


def _grid_eval(model, pos, how):
    x0, y0, flux = pos
    yy, xx = np.mgrid[int(y0) - 3:int(y0) + 4, int(x0) - 3:int(x0) + 4]
    if how == 'set':
        model.x_0 = x0
        model.y_0 = y0
        model.flux = flux
        return model(xx, yy)
    return model.evaluate(xx, yy, flux, x0, y0)


# a grid wider than tall: positions in distinct cells (first row third column, second row first
# column, ...), so that per-cell state kept between evaluations is exercised across cells
GRID_POS_WIDE = [(25.0, 6.0, 10.0), (5.0, 18.0, 3.0), (15.5, 7.25, 2.0), (27.0, 20.5, 5.0), (14.0, 13.0, 1.5)]


def _gpos(cfg):
    return GRID_POS_WIDE if cfg.get('wide') else GRID_POS


def _grid_ref(cfg, ipos, how):
    return _memo(('grid', _ck(cfg), ipos, how), lambda: _grid_eval(_grid_new(cfg), _gpos(cfg)[ipos], how))


def eval_grid(case):
    cfg, seq = case['cfg'], case['seq']
    fails = []
    orig = _grid_new(cfg)
    expected_params = {'x_0': float(orig.x_0.value), 'y_0': float(orig.y_0.value),
                       'flux': float(orig.flux.value)}
    for i, (target, ipos, how) in enumerate(seq):
        hist = seq[:i]
        m = orig if target == 'orig' else (orig.copy() if target == 'copy' else orig.deepcopy())
        ref = _grid_ref(cfg, ipos, how)
        try:
            val = _grid_eval(m, _gpos(cfg)[ipos], how)
        except Exception as e:  # noqa: BLE001
            fails.append(('GriddedPSFModel/eval-raises-after-history',
                          f'GriddedPSFModel({cfg}) step {seq[i]} after {hist} raises {_exc(e)}'))
            continue
        if target == 'orig' and how == 'set':
            x0, y0, fl = _gpos(cfg)[ipos]
            expected_params = {'x_0': x0, 'y_0': y0, 'flux': fl}
        r = cmp(val, ref, 0.0, 'model values')
        if r:
            fails.append((f'GriddedPSFModel/eval-history/{target}',
                          f'GriddedPSFModel({cfg}) step {seq[i]} after {hist} differs from a fresh model: {r}'))
        now = {k: float(getattr(orig, k).value) for k in expected_params}
        if now != expected_params:
            fails.append(('GriddedPSFModel/copy-shares-parameters',
                          f'GriddedPSFModel({cfg}) after {seq[:i + 1]}: parameters of the original are {now}, '
                          f'expected {expected_params}'))
            expected_params = now
    return fails


def _grid_cases(ctx):
    cfgs = [{'os': 1, 'fill': True}, {'os': 2, 'fill': False}]
    ops = [(t, p, h) for t in ('orig', 'copy', 'deepcopy') for p in range(len(GRID_POS))
           for h in ('set', 'eval')]
    ops_small = [(t, p, h) for t in ('orig', 'copy') for p in (0, 1, 3, 4) for h in ('set', 'eval')]
    ops_tiny = [(t, p, 'set') for t in ('orig', 'copy') for p in (0, 1, 4)]
    wide = {'os': 1, 'fill': True, 'wide': True, 'xs': (0.0, 10.0, 20.0, 30.0), 'ys': (0.0, 12.0, 24.0)}
    wops = [(t, p, 'set') for t in ('orig', 'copy') for p in range(len(GRID_POS_WIDE))]
    for seq in list(itertools.product(wops, repeat=2)) + \
            (list(itertools.product(wops[:5], repeat=3)) if ctx.thorough else []):
        yield {'sec': 'grid', 'cfg': wide, 'seq': [list(o) for o in seq]}
    for n, cfg in enumerate(cfgs):
        if ctx.thorough:
            seqs = [(o,) for o in ops] + list(itertools.product(ops, repeat=2))
            seqs += list(itertools.product(ops_small, repeat=3))
        elif n == 0:
            seqs = [(o,) for o in ops] + list(itertools.product(ops, repeat=2))
            seqs += list(itertools.product(ops_tiny, repeat=3))
        else:
            seqs = [(o,) for o in ops_small] + list(itertools.product(ops_small, repeat=2))
        for seq in seqs:
            yield {'sec': 'grid', 'cfg': cfg, 'seq': [list(o) for o in seq]}


# ----------------------------------------------------------------------------------------------
# H. LocalBackground
# ----------------------------------------------------------------------------------------------
LB_REQS = {
    's': ((9.3,), (8.1,), False),
    'a1': ([4.0], [15.5], False),
    'a2': ([9.3, 2.3], [8.1, 3.45], False),
    'a3': ([15.2, 6.5, 11.4], [4.3, 12.0, 9.1], True),
    'sm': ((9.3,), (8.1,), True),
}


def _lb_call(lb, name, dseed):
    x, y, use_mask = LB_REQS[name]
    img = _psf_image('A', dseed)
    mask = None
    if use_mask:
        mask = np.zeros(img.shape, bool)
        mask[4:12, 10:14] = True
    if name in ('s', 'sm'):
        x, y = x[0], y[0]
    return lb(img, x, y, mask=mask)


def _lb_new(cfg):
    from photutils.background import LocalBackground, MeanBackground
    from photutils.background import MedianBackground
    if cfg['est'] == 'mean':
        return LocalBackground(3.0, 6.0, bkg_estimator=MeanBackground(sigma_clip=None))
    return LocalBackground(3.0, 6.0, bkg_estimator=MedianBackground(sigma_clip=None))


def eval_lb(case):
    cfg, seq, dseed = case['cfg'], case['seq'], case['dseed']
    fails = []
    lb = _lb_new(cfg)
    for i, name in enumerate(seq):
        ref = _memo(('lb', _ck(cfg), dseed, name), lambda: _lb_call(_lb_new(cfg), name, dseed))
        try:
            val = _lb_call(lb, name, dseed)
        except Exception as e:  # noqa: BLE001
            fails.append(('LocalBackground/call-raises-after-history',
                          f'LocalBackground({cfg}) call {name} after {seq[:i]} raises {_exc(e)}'))
            continue
        r = cmp(val, ref, 0.0, 'local background')
        if r:
            fails.append(('LocalBackground/call-history',
                          f'LocalBackground({cfg}) call {name} after {seq[:i]} differs from a fresh object: {r}'))
        # independent oracle for the request itself: median/mean of pixels whose centre is in the annulus
        x, y, use_mask = LB_REQS[name]
        img = _psf_image('A', dseed)
        yy, xx = np.mgrid[0:img.shape[0], 0:img.shape[1]]
        exp = []
        for xc, yc in zip(x, y):
            rr = np.hypot(xx - xc, yy - yc)
            sel = (rr > 3.0) & (rr < 6.0)
            if np.any(np.abs(rr - 3.0) < 1e-9) or np.any(np.abs(rr - 6.0) < 1e-9):
                raise AssertionError('driver: a pixel centre lies on the annulus edge; move the position')
            if use_mask:
                m = np.zeros(img.shape, bool)
                m[4:12, 10:14] = True
                sel &= ~m
            exp.append(np.mean(img[sel]) if cfg['est'] == 'mean' else np.median(img[sel]))
        r = _cmp_num(np.atleast_1d(np.asarray(val, dtype=float)), np.array(exp), 1e-12, 'local background')
        if r:
            fails.append(('LocalBackground/value',
                          f'LocalBackground({cfg}) call {name} after {seq[:i]} != pixel-loop oracle: {r}'))
    return fails


def _lb_cases(ctx, dseed):
    for est in ('median', 'mean'):
        for ln in (1, 2, 3):
            for seq in itertools.product(list(LB_REQS), repeat=ln):
                yield {'sec': 'lb', 'cfg': {'est': est}, 'seq': list(seq), 'dseed': dseed}


# ----------------------------------------------------------------------------------------------
EVAL = {'bkg': eval_bkg, 'prof': eval_prof, 'aper': eval_aper, 'psf': eval_psf, 'finder': eval_finder,
        'ell': eval_ell, 'grid': eval_grid, 'lb': eval_lb}
CONTRACT = {'bkg': 'Background2D read order == fresh object',
            'prof': 'profile normalize/unnormalize/read interleavings == raw/normalisation and fresh object',
            'aper': 'aperture attribute re-assignment then bbox/area/to_mask/photometry == fresh aperture',
            'psf': 'PSFPhotometry/IterativePSFPhotometry repeated calls == fresh object',
            'finder': 'star finder repeated calls == fresh finder',
            'ell': 'Ellipse.fit_image repeated calls == fresh Ellipse; geometry configuration unchanged',
            'grid': 'GriddedPSFModel evaluation/copy histories == fresh model',
            'lb': 'LocalBackground repeated calls == fresh object and pixel-loop oracle'}


def _nontrivial(case):
    seq = case['seq']
    if case['sec'] == 'prof':
        muts = [i for i, t in enumerate(seq) if t in PROF_MUT]
        return bool(muts)      # a final read of everything always follows
    return len(seq) >= 2


def run(ctx):
    dseed = int(ctx.rng.integers(1, 2 ** 30))
    gens = [_bkg_cases(ctx, dseed), _prof_cases(ctx, dseed), _aper_cases(ctx), _psf_cases(ctx, dseed),
            _finder_cases(ctx, dseed), _ell_cases(ctx, dseed), _grid_cases(ctx), _lb_cases(ctx, dseed)]
    import os
    import time
    only = os.environ.get('C09_SECTIONS')       # development aid only; unset in normal runs
    if only:
        gens = [g for g, s in zip(gens, ['bkg', 'prof', 'aper', 'psf', 'finder', 'ell', 'grid', 'lb'])
                if s in only.split(',')]
    for gen in gens:
        t0 = time.time()
        n = 0
        sec = None
        for case in gen:
            sec = case['sec']
            n += 1
            key = (sec, repr(case.get('cfg', case.get('cls'))), repr(case['seq']))
            sample = None
            if n == 1:
                sample = {'sec': sec, 'cfg': case.get('cfg', case.get('cls')), 'seq': case['seq']}
            ctx.case(key, nontrivial=_nontrivial(case), contract=CONTRACT[sec], sample=sample)
            for fkey, what in EVAL[sec](case):
                ctx.check(False, fkey, what, case)
        ctx.note(f'{sec}: {n} histories in {time.time() - t0:.1f} s')
        _MEMO.clear()


def replay(case):
    try:
        _MEMO.clear()
        fails = EVAL[case['sec']](case)
    except Exception as e:  # noqa: BLE001
        return 'error', _exc(e), None
    if fails:
        return 'confirmed', fails[0][1], [k for k, _ in fails]
    return 'spurious', 'history reproduces the fresh-object results', []
